(* C01: the slope covariance matrix assembled by CovarianceMatrix (model/SlopeCov.v).
   PART 1 (any NumOps carrier): layout of the matrix -- offsets, block decomposition of an index,
   characterisation of add_block, shapes, lower block-triangularity of the sequential assembly.
   PART 2 (real instance ROps G K, nf32 = identity): entry formula of the assembly as a sum over layers
   and sensor pairs; additivity in the layers, wavelength scaling, r0 scaling, mirroring, and the
   polarisation identity behind compute_covariance_xx / yy. *)
From Coq Require Import ZArith Reals Bool List Arith Lra Lia.
Require Import AOV.base.Num AOV.base.NumR AOV.base.RpowTac AOV.base.Cplx AOV.model.Mat AOV.model.SlopeCov
               AOV.gen.Gen_slopecov AOV.proofs.Dft_proofs AOV.proofs.Mat_proofs AOV.proofs.C08_proofs.
Import ListNotations.

(* ------------------------------------------------------------------------------------------ *)
(* generic list facts                                                                          *)
(* ------------------------------------------------------------------------------------------ *)

Lemma nth_mapi_from {A B} (f : nat -> A -> B) s l i d d' :
  i < length l -> nth i (mapi_from f s l) d = f (s + i) (nth i l d').
Proof.
  revert s i; induction l as [|a l IH]; intros s i Hi; simpl in Hi; [lia|].
  destruct i as [|i]; cbn [mapi_from nth]; [rewrite Nat.add_0_r; reflexivity|].
  rewrite IH by lia. f_equal. lia.
Qed.

Lemma nth_mapi {A B} (f : nat -> A -> B) l i d d' :
  i < length l -> nth i (mapi f l) d = f i (nth i l d').
Proof. intros H. unfold mapi. rewrite (nth_mapi_from f 0 l i d d') by exact H. reflexivity. Qed.

Lemma mapi_length {A B} (f : nat -> A -> B) l : length (mapi f l) = length l.
Proof. apply mapi_from_length. Qed.

Lemma fold_add_list_sum l a : fold_left Nat.add l a = a + list_sum l.
Proof. revert a; induction l as [|x l IH]; intros a; simpl; [lia|]. rewrite IH. lia. Qed.

Lemma firstn_S_nth {A} (l : list A) i d : i < length l -> firstn (S i) l = firstn i l ++ [nth i l d].
Proof.
  revert i; induction l as [|a l IH]; intros i Hi; simpl in Hi; [lia|].
  destruct i as [|i]; [reflexivity|]. cbn [firstn nth app]. f_equal. apply IH. lia.
Qed.

Lemma list_sum_app' a b : list_sum (a ++ b) = list_sum a + list_sum b.
Proof. induction a as [|x a IH]; simpl; [reflexivity|]. rewrite IH. lia. Qed.

Lemma fold_left_inv {A B} (P : A -> Prop) (f : A -> B -> A) l a :
  (forall a b, In b l -> P a -> P (f a b)) -> P a -> P (fold_left f l a).
Proof.
  revert a; induction l as [|b l IH]; intros a Hf Ha; simpl; [exact Ha|].
  apply IH; [intros a' b' Hb; apply Hf; right; exact Hb|]. apply Hf; [left; reflexivity | exact Ha].
Qed.

Lemma in_pairs n i j : In (i, j) (pairs n) <-> j <= i /\ i < n.
Proof.
  unfold pairs. rewrite in_flat_map. split.
  - intros [x [Hx Hin]]. apply in_seq in Hx. apply in_map_iff in Hin. destruct Hin as [y [Heq Hy]].
    apply in_seq in Hy. injection Heq as -> ->. lia.
  - intros [Hji Hi]. exists i. split; [apply in_seq; lia|]. apply in_map_iff. exists j.
    split; [reflexivity | apply in_seq; lia].
Qed.

Lemma wf_repeat {A} (x : A) r c : wf_mat r c (repeat (repeat x c) r).
Proof.
  split; [apply repeat_length|]. apply Forall_forall. intros row Hrow. apply repeat_spec in Hrow.
  subst row. apply repeat_length.
Qed.

Lemma nth_repeat' {A} (x : A) n i : nth i (repeat x n) x = x.
Proof. revert i; induction n as [|n IH]; intros [|i]; simpl; auto. Qed.

Lemma wf_rev_rows {A} r c (m : list (list A)) : wf_mat r c m -> wf_mat r c (rev (map (@rev A) m)).
Proof.
  intros [Hl Hf]. split; [rewrite rev_length, map_length; exact Hl|].
  apply Forall_forall. intros row Hrow. apply in_rev in Hrow. apply in_map_iff in Hrow.
  destruct Hrow as [x [<- Hx]]. rewrite rev_length. rewrite Forall_forall in Hf. apply Hf. exact Hx.
Qed.

(* ========================================================================================== *)
(* PART 1 -- layout, at every carrier                                                          *)
(* ========================================================================================== *)

Section Layout.
Context {T : Type} (O : NumOps T).
Local Notation mat := (list (list T)).
Local Notation wfsT := (@wfs T).
Local Notation dwfs := (Build_wfs [] (nzero O) (nzero O) (nzero O) (nzero O) (nzero O)).

(* ---- L1: offsets ---- *)

Theorem offset_spec (ws : list wfsT) i : offset ws i = 2 * list_sum (map n_subaps (firstn i ws)).
Proof. unfold offset. rewrite fold_add_list_sum. reflexivity. Qed.

Theorem offset_0 (ws : list wfsT) : offset ws 0 = 0.
Proof. reflexivity. Qed.

Theorem offset_S (ws : list wfsT) i d : i < length ws ->
  offset ws (S i) = offset ws i + 2 * n_subaps (nth i ws d).
Proof.
  intros Hi. rewrite !offset_spec, (firstn_S_nth ws i d Hi), map_app, list_sum_app'. simpl. lia.
Qed.

Lemma offset_sat (ws : list wfsT) i : length ws <= i -> offset ws i = total2 ws.
Proof. intros H. unfold total2. rewrite !offset_spec, !firstn_all2 by lia. reflexivity. Qed.

Lemma offset_S_le (ws : list wfsT) i : offset ws i <= offset ws (S i).
Proof.
  destruct (Nat.lt_ge_cases i (length ws)) as [H|H].
  - destruct ws as [|d ws']; [simpl in H; lia|]. rewrite (offset_S (d :: ws') i d H). lia.
  - rewrite !offset_sat by lia. lia.
Qed.

Theorem offset_mono (ws : list wfsT) i j : i <= j -> offset ws i <= offset ws j.
Proof. induction 1 as [|j _ IH]; [lia|]. pose proof (offset_S_le ws j). lia. Qed.

Theorem total2_spec (ws : list wfsT) : total2 ws = offset ws (length ws).
Proof. reflexivity. Qed.

Lemma offset_le_total (ws : list wfsT) i : offset ws i <= total2 ws.
Proof.
  destruct (Nat.le_ge_cases i (length ws)) as [H|H].
  - unfold total2. apply offset_mono. exact H.
  - rewrite offset_sat by exact H. lia.
Qed.

(* the block of sensor w is the interval [offset w, offset (S w)) *)
Lemma offset_locate (ws : list wfsT) r : r < total2 ws ->
  exists w, w < length ws /\ offset ws w <= r /\ r < offset ws (S w).
Proof.
  unfold total2. generalize (le_n (length ws)). generalize (length ws) at 1 3 4 as m.
  induction m as [|m IH]; intros Hm Hr; [rewrite offset_0 in Hr; lia|].
  destruct (Nat.lt_ge_cases r (offset ws m)) as [H|H].
  - destruct (IH ltac:(lia) H) as [w [Hw Hb]]. exists w. split; [lia | exact Hb].
  - exists m. split; [lia|]. split; assumption.
Qed.

Lemma offset_locate_unique (ws : list wfsT) r w w' :
  offset ws w <= r -> r < offset ws (S w) -> offset ws w' <= r -> r < offset ws (S w') -> w = w'.
Proof.
  intros H1 H2 H3 H4. destruct (Nat.lt_trichotomy w w') as [H|[H|H]]; [|exact H|].
  - pose proof (offset_mono ws (S w) w' H). lia.
  - pose proof (offset_mono ws (S w') w H). lia.
Qed.

(* ---- L2: every index is (sensor, axis, sub-aperture), uniquely ---- *)

Theorem block_decomp_exists (ws : list wfsT) d r : r < total2 ws ->
  exists w axis k, w < length ws /\ axis <= 1 /\ k < n_subaps (nth w ws d) /\
                   r = offset ws w + axis * n_subaps (nth w ws d) + k.
Proof.
  intros Hr. destruct (offset_locate ws r Hr) as [w [Hw [Hlo Hhi]]].
  rewrite (offset_S ws w d Hw) in Hhi. exists w.
  destruct (Nat.lt_ge_cases (r - offset ws w) (n_subaps (nth w ws d))) as [H|H].
  - exists 0, (r - offset ws w). repeat split; try lia.
  - exists 1, (r - offset ws w - n_subaps (nth w ws d)). repeat split; try lia.
Qed.

Theorem block_decomp_unique (ws : list wfsT) d r w a k w' a' k' :
  w < length ws -> a <= 1 -> k < n_subaps (nth w ws d) ->
  r = offset ws w + a * n_subaps (nth w ws d) + k ->
  w' < length ws -> a' <= 1 -> k' < n_subaps (nth w' ws d) ->
  r = offset ws w' + a' * n_subaps (nth w' ws d) + k' ->
  w = w' /\ a = a' /\ k = k'.
Proof.
  intros Hw Ha Hk Hr Hw' Ha' Hk' Hr'.
  assert (E : w = w').
  { apply (offset_locate_unique ws r).
    - rewrite Hr. lia.
    - rewrite (offset_S ws w d Hw), Hr. destruct a as [|[|a]]; lia.
    - rewrite Hr'. lia.
    - rewrite (offset_S ws w' d Hw'), Hr'. destruct a' as [|[|a']]; lia. }
  subst w'. split; [reflexivity|].
  destruct a as [|[|a]], a' as [|[|a']]; lia.
Qed.

Theorem block_decomp (ws : list wfsT) d r : r < total2 ws ->
  exists! wak : nat * nat * nat,
    let '(w, a, k) := wak in
    w < length ws /\ a <= 1 /\ k < n_subaps (nth w ws d) /\
    r = offset ws w + a * n_subaps (nth w ws d) + k.
Proof.
  intros Hr. destruct (block_decomp_exists ws d r Hr) as [w [a [k [Hw [Ha [Hk E]]]]]].
  exists (w, a, k). split; [repeat split; assumption|].
  intros [[w' a'] k'] [Hw' [Ha' [Hk' E']]].
  destruct (block_decomp_unique ws d r w a k w' a' k' Hw Ha Hk E Hw' Ha' Hk' E') as [-> [-> ->]].
  reflexivity.
Qed.

(* ---- L3: add_block ---- *)

Definition gent (M : mat) (i j : nat) : T := nth j (nth i M []) (nzero O).

Definition in_block (r0 c0 : nat) (blk : mat) (i j : nat) : bool :=
  ((r0 <=? i) && (i <? r0 + length blk)) && ((c0 <=? j) && (j <? c0 + length (nth (i - r0) blk []))).

Lemma upd_row_length row c0 brow s : length (upd_row O row c0 brow s) = length row.
Proof. apply mapi_length. Qed.

Lemma nth_upd_row row c0 brow s j d : j < length row ->
  nth j (upd_row O row c0 brow s) d =
  if (c0 <=? j) && (j <? c0 + length brow)
  then nf32 O (nadd O (nth j row d) (nmul O (nth (j - c0) brow (nzero O)) s)) else nth j row d.
Proof. intros Hj. unfold upd_row. rewrite (nth_mapi _ row j d d) by exact Hj. reflexivity. Qed.

Lemma add_block_length M r0 c0 blk s : length (add_block O M r0 c0 blk s) = length M.
Proof. apply mapi_length. Qed.

Lemma nth_add_block M r0 c0 blk s i : i < length M ->
  nth i (add_block O M r0 c0 blk s) [] =
  if (r0 <=? i) && (i <? r0 + length blk)
  then upd_row O (nth i M []) c0 (nth (i - r0) blk []) s else nth i M [].
Proof. intros Hi. unfold add_block. rewrite (nth_mapi _ M i [] []) by exact Hi. reflexivity. Qed.

Theorem add_block_wf n m (M : mat) r0 c0 blk s :
  wf_mat n m M -> wf_mat n m (add_block O M r0 c0 blk s).
Proof.
  intros [Hl Hf]. split; [rewrite add_block_length; exact Hl|].
  apply Forall_forall. intros row Hrow. destruct (In_nth _ _ [] Hrow) as [i [Hi E]].
  rewrite add_block_length in Hi. rewrite nth_add_block in E by exact Hi. subst row.
  rewrite Forall_forall in Hf.
  destruct ((r0 <=? i) && (i <? r0 + length blk)); [rewrite upd_row_length|]; apply Hf, nth_In, Hi.
Qed.

Theorem add_block_ent n m (M : mat) r0 c0 blk s i j :
  wf_mat n m M -> i < n -> j < m ->
  gent (add_block O M r0 c0 blk s) i j =
  if in_block r0 c0 blk i j
  then nf32 O (nadd O (gent M i j) (nmul O (gent blk (i - r0) (j - c0)) s))
  else gent M i j.
Proof.
  intros HM Hi Hj. unfold gent, in_block.
  rewrite nth_add_block by (destruct HM; lia).
  destruct ((r0 <=? i) && (i <? r0 + length blk)); cbn [andb]; [|reflexivity].
  rewrite nth_upd_row by (rewrite (wf_nth_length n m M i HM Hi); exact Hj). reflexivity.
Qed.

Lemma in_block_true r0 c0 (blk : mat) i j :
  in_block r0 c0 blk i j = true <->
  r0 <= i < r0 + length blk /\ c0 <= j < c0 + length (nth (i - r0) blk []).
Proof.
  unfold in_block. rewrite !andb_true_iff, !Nat.leb_le, !Nat.ltb_lt. tauto.
Qed.

Corollary add_block_ent_in n m (M : mat) r0 c0 blk s i j :
  wf_mat n m M -> i < n -> j < m ->
  r0 <= i < r0 + length blk -> c0 <= j < c0 + length (nth (i - r0) blk []) ->
  gent (add_block O M r0 c0 blk s) i j =
  nf32 O (nadd O (gent M i j) (nmul O (gent blk (i - r0) (j - c0)) s)).
Proof.
  intros HM Hi Hj Hr Hc. rewrite (add_block_ent n m) by assumption.
  replace (in_block r0 c0 blk i j) with true; [reflexivity|].
  symmetry. apply in_block_true. split; assumption.
Qed.

Corollary add_block_ent_out n m (M : mat) r0 c0 blk s i j :
  wf_mat n m M -> i < n -> j < m ->
  ~ (r0 <= i < r0 + length blk /\ c0 <= j < c0 + length (nth (i - r0) blk [])) ->
  gent (add_block O M r0 c0 blk s) i j = gent M i j.
Proof.
  intros HM Hi Hj Hn. rewrite (add_block_ent n m) by assumption.
  destruct (in_block r0 c0 blk i j) eqn:E; [|reflexivity].
  apply in_block_true in E. contradiction.
Qed.

(* a block of known shape h x w touches only rows [r0, r0+h) and columns [c0, c0+w) *)
Lemma add_block_ent_outside n m (M : mat) r0 c0 h w blk s i j :
  wf_mat n m M -> wf_mat h w blk -> i < n -> j < m ->
  ~ (r0 <= i < r0 + h /\ c0 <= j < c0 + w) ->
  gent (add_block O M r0 c0 blk s) i j = gent M i j.
Proof.
  intros HM Hb Hi Hj Hn. apply (add_block_ent_out n m); try assumption.
  intros [Hr Hc]. apply Hn. destruct Hb as [Hl Hf]. split; [lia|].
  rewrite Forall_forall in Hf. rewrite (Hf (nth (i - r0) blk [])) in Hc by (apply nth_In; lia). exact Hc.
Qed.

(* ---- L4: shapes ---- *)

Theorem zero_mat_wf n : wf_mat n n (zero_mat O n).
Proof. apply wf_repeat. Qed.

Lemma gent_zero_mat n i j : gent (zero_mat O n) i j = nzero O.
Proof.
  unfold gent, zero_mat. destruct (Nat.lt_ge_cases i n) as [H|H].
  - rewrite (nth_indep _ [] (repeat (nzero O) n)) by (rewrite repeat_length; exact H).
    rewrite nth_repeat'. apply nth_repeat'.
  - rewrite (nth_overflow (repeat _ n)) by (rewrite repeat_length; exact H). apply nth_nil.
Qed.

Theorem add_pair_wf n m ws l (M : mat) i j res :
  wf_mat n m M -> wf_mat n m (add_pair O ws l M i j res).
Proof.
  intros HM. destruct res as [[cxx cyy] cxy]. unfold add_pair. repeat apply add_block_wf. exact HM.
Qed.

Theorem assemble_layer_seq_wf n m D ws (M : mat) l :
  wf_mat n m M -> wf_mat n m (assemble_layer_seq O D ws M l).
Proof.
  intros HM. unfold assemble_layer_seq. apply fold_left_inv; [|exact HM].
  intros a b _ Ha. apply add_pair_wf. exact Ha.
Qed.

Theorem assemble_seq_wf D ws ls : wf_mat (total2 ws) (total2 ws) (assemble_seq O D ws ls).
Proof.
  unfold assemble_seq. apply fold_left_inv; [|apply zero_mat_wf].
  intros a b _ Ha. apply assemble_layer_seq_wf. exact Ha.
Qed.

(* ---- L5: the sequential assembly writes only the blocks (i, j) with j <= i ---- *)

Definition shape3 (ni nj : nat) (res : mat * mat * mat) : Prop :=
  wf_mat ni nj (fst (fst res)) /\ wf_mat ni nj (snd (fst res)) /\ wf_mat ni nj (snd res).

Lemma subap_positions_length D (w : wfsT) : length (subap_positions O D w) = n_subaps w.
Proof. unfold subap_positions. apply map_length. Qed.

Lemma layer_positions_length D (w : wfsT) l : length (layer_positions O D w l) = n_subaps w.
Proof. unfold layer_positions. rewrite map_length. apply subap_positions_length. Qed.

Lemma seps_wf (p1 p2 : list (T * T)) : wf_mat (length p1) (length p2) (seps O p1 p2).
Proof.
  unfold seps. split; [apply map_length|]. apply Forall_forall. intros row Hrow.
  apply in_map_iff in Hrow. destruct Hrow as [a [<- _]]. apply map_length.
Qed.

Lemma wf_map_map' {A B} (g : A -> B) r c m : wf_mat r c m -> wf_mat r c (map (map g) m).
Proof. apply wf_map_rows. intros x Hx. rewrite map_length. exact Hx. Qed.

Theorem wfs_cov_shape p1 p2 d1 d2 r0 L0 :
  shape3 (length p1) (length p2) (wfs_cov O p1 p2 d1 d2 r0 L0).
Proof. unfold shape3, wfs_cov. cbn [fst snd]. split; [|split]; apply wf_map_map', seps_wf. Qed.

Theorem pair_result_shape D (ws : list wfsT) l ij :
  shape3 (n_subaps (nth (fst ij) ws dwfs)) (n_subaps (nth (snd ij) ws dwfs)) (pair_result O D ws l ij).
Proof.
  unfold pair_result.
  rewrite <- (layer_positions_length D (nth (fst ij) ws dwfs) l).
  rewrite <- (layer_positions_length D (nth (snd ij) ws dwfs) l). apply wfs_cov_shape.
Qed.

Lemma flip2_wf r c (m : mat) : wf_mat r c m -> wf_mat r c (flip2 m).
Proof. apply wf_rev_rows. Qed.

(* "everything strictly above the block diagonal is zero": no entry (r, c) separated by a
   sensor boundary offset b (r before it, c at or after it) has been written *)
Definition upper_zero (ws : list wfsT) (M : mat) : Prop :=
  forall b r c, r < offset ws b -> offset ws b <= c -> c < total2 ws -> gent M r c = nzero O.

Lemma add_pair_upper_zero ws l (M : mat) i j res :
  wf_mat (total2 ws) (total2 ws) M -> j <= i -> i < length ws ->
  shape3 (n_subaps (nth i ws dwfs)) (n_subaps (nth j ws dwfs)) res ->
  upper_zero ws M -> upper_zero ws (add_pair O ws l M i j res).
Proof.
  intros HM Hji Hi [Hxx [Hyy Hxy]] HU b r c Hr Hc Hct.
  destruct res as [[cxx cyy] cxy]. cbn [fst snd] in Hxx, Hyy, Hxy.
  pose proof (flip2_wf _ _ _ Hxy) as Hfl.
  assert (Hrt : r < total2 ws) by lia.
  (* the written rows lie in [offset i, offset (S i)), the written columns in [offset j, offset (S j)) *)
  pose proof (offset_S ws i dwfs Hi) as Ei.
  pose proof (offset_S ws j dwfs ltac:(lia)) as Ej.
  assert (Hout : ~ (offset ws i <= r /\ c < offset ws (S j))).
  { intros [H1 H2]. assert (Hb : S i <= b).
    { destruct (Nat.lt_ge_cases i b) as [H|H]; [lia|]. pose proof (offset_mono ws b i H). lia. }
    pose proof (offset_mono ws (S j) (S i) ltac:(lia)). pose proof (offset_mono ws (S i) b Hb). lia. }
  unfold add_pair.
  set (ni := n_subaps (nth i ws dwfs)) in *. set (nj := n_subaps (nth j ws dwfs)) in *.
  set (sc := r0_scale O (nth i ws dwfs) (nth j ws dwfs) l).
  rewrite (add_block_ent_outside (total2 ws) (total2 ws) _ _ _ ni nj);
    [| repeat apply add_block_wf; exact HM | exact Hyy | exact Hrt | exact Hct | lia].
  rewrite (add_block_ent_outside (total2 ws) (total2 ws) _ _ _ ni nj);
    [| repeat apply add_block_wf; exact HM | exact Hfl | exact Hrt | exact Hct | lia].
  rewrite (add_block_ent_outside (total2 ws) (total2 ws) _ _ _ ni nj);
    [| repeat apply add_block_wf; exact HM | exact Hxy | exact Hrt | exact Hct | lia].
  rewrite (add_block_ent_outside (total2 ws) (total2 ws) _ _ _ ni nj);
    [| exact HM | exact Hxx | exact Hrt | exact Hct | lia].
  apply (HU b); assumption.
Qed.

Lemma assemble_layer_seq_upper_zero D ws (M : mat) l :
  wf_mat (total2 ws) (total2 ws) M -> upper_zero ws M ->
  upper_zero ws (assemble_layer_seq O D ws M l).
Proof.
  intros HM HU. unfold assemble_layer_seq.
  apply (fold_left_inv (fun M => wf_mat (total2 ws) (total2 ws) M /\ upper_zero ws M)); [|split; assumption].
  intros a [i j] Hin [Ha HUa]. apply in_pairs in Hin. destruct Hin as [Hji Hi]. cbn [fst snd].
  split; [apply add_pair_wf; exact Ha|].
  apply add_pair_upper_zero; try assumption. apply (pair_result_shape D ws l (i, j)).
Qed.

Lemma assemble_seq_upper_zero D ws ls : upper_zero ws (assemble_seq O D ws ls).
Proof.
  unfold assemble_seq.
  apply (fold_left_inv (fun M => wf_mat (total2 ws) (total2 ws) M /\ upper_zero ws M)).
  - intros a l _ [Ha HUa]. split; [apply assemble_layer_seq_wf; exact Ha|].
    apply assemble_layer_seq_upper_zero; assumption.
  - split; [apply zero_mat_wf|]. intros b r c _ _ _. apply gent_zero_mat.
Qed.

Theorem assemble_seq_block_triangular D (ws : list wfsT) ls i j r c :
  i < j -> j < length ws ->
  offset ws i <= r < offset ws (S i) -> offset ws j <= c < offset ws (S j) ->
  gent (assemble_seq O D ws ls) r c = nzero O.
Proof.
  intros Hij Hj [_ Hr] [Hc1 Hc2].
  apply (assemble_seq_upper_zero D ws ls (S i)); [exact Hr | | ].
  - pose proof (offset_mono ws (S i) j Hij). lia.
  - pose proof (offset_le_total ws (S j)). lia.
Qed.

End Layout.

(* ========================================================================================== *)
(* PART 2 -- the real instance                                                                 *)
(* ========================================================================================== *)

Local Open Scope R_scope.

Fixpoint lsum (l : list R) : R := match l with [] => 0 | x :: t => x + lsum t end.

Lemma lsum_app a b : lsum (a ++ b) = lsum a + lsum b.
Proof. induction a as [|x a IH]; simpl; [lra|]. rewrite IH. lra. Qed.

Lemma lsum_map_scal {A} k (f : A -> R) l : lsum (map (fun x => k * f x) l) = k * lsum (map f l).
Proof. induction l as [|x l IH]; simpl; [lra|]. rewrite IH. lra. Qed.

Lemma lsum_map_ext_in {A} (f g : A -> R) l :
  (forall x, In x l -> f x = g x) -> lsum (map f l) = lsum (map g l).
Proof. intros H. f_equal. apply map_ext_in. exact H. Qed.

Definition mscal (k : R) (M : list (list R)) : list (list R) := map (map (Rmult k)) M.

Lemma nth_map_scal k row j : nth j (map (Rmult k) row) 0 = k * nth j row 0.
Proof. rewrite <- (map_nth (Rmult k) row 0 j). rewrite Rmult_0_r. reflexivity. Qed.

Lemma ent_mscal k M i j : ent (mscal k M) i j = k * ent M i j.
Proof.
  unfold ent, mscal.
  replace (nth i (map (map (Rmult k)) M) []) with (map (Rmult k) (nth i M []))
    by (symmetry; apply (map_nth (map (Rmult k)) M [] i)).
  apply nth_map_scal.
Qed.

Lemma mscal_wf k r c M : wf_mat r c M -> wf_mat r c (mscal k M).
Proof. apply wf_map_map'. Qed.

Lemma map_map_mscal {A} (f g : A -> R) k (S : list (list A)) :
  (forall u, f u = k * g u) -> map (map f) S = mscal k (map (map g) S).
Proof.
  intros H. unfold mscal. rewrite map_map. apply map_ext. intros row. rewrite map_map.
  apply map_ext. exact H.
Qed.

Lemma flip2_mscal k (M : list (list R)) : flip2 (mscal k M) = mscal k (flip2 M).
Proof.
  unfold flip2, mscal. rewrite map_rev. f_equal. rewrite !map_map. apply map_ext. intros row.
  symmetry. apply map_rev.
Qed.

Section SlopeCovR.
Variables (G : R -> R) (K : R -> R -> R).
Local Notation O := (ROps G K).
Local Notation mat := (list (list R)).
Local Notation wfsR := (@wfs R).
Local Notation layerR := (@layer R).
Local Notation dwfs := (Build_wfs [] (nzero O) (nzero O) (nzero O) (nzero O) (nzero O)).

Lemma gent_ent (M : mat) i j : gent O M i j = ent M i j.
Proof. reflexivity. Qed.

(* ---- R1: add_block over the reals ---- *)

Theorem add_block_ent_R n m (M : mat) r0 c0 blk s i j :
  wf_mat n m M -> (i < n)%nat -> (j < m)%nat ->
  ent (add_block O M r0 c0 blk s) i j =
  if in_block r0 c0 blk i j then ent M i j + ent blk (i - r0) (j - c0) * s else ent M i j.
Proof. intros HM Hi Hj. exact (add_block_ent O n m M r0 c0 blk s i j HM Hi Hj). Qed.

(* the contribution of one block as a function on all indices (0 outside the block) *)
Definition bval (blk : mat) (r0 c0 : nat) (s : R) (i j : nat) : R :=
  if (r0 <=? i)%nat && (c0 <=? j)%nat then ent blk (i - r0) (j - c0) * s else 0.

Lemma add_block_ent_bval n m (M : mat) r0 c0 blk s i j :
  wf_mat n m M -> (i < n)%nat -> (j < m)%nat ->
  ent (add_block O M r0 c0 blk s) i j = ent M i j + bval blk r0 c0 s i j.
Proof.
  intros HM Hi Hj. rewrite (add_block_ent_R n m) by assumption. unfold in_block, bval.
  destruct (r0 <=? i)%nat eqn:E1; cbn [andb]; [|lra].
  destruct (c0 <=? j)%nat eqn:E2; cbn [andb]; [|rewrite andb_false_r; lra].
  destruct (i <? r0 + length blk)%nat eqn:E3; cbn [andb].
  - destruct (j <? c0 + length (nth (i - r0) blk []))%nat eqn:E4; [reflexivity|].
    apply Nat.ltb_ge in E4. unfold ent. rewrite (nth_overflow (nth (i - r0) blk [])) by lia. lra.
  - apply Nat.ltb_ge in E3. unfold ent. rewrite (nth_overflow blk) by lia. rewrite nth_nil. lra.
Qed.

Lemma bval_scal blk r0 c0 k s i j : bval blk r0 c0 (k * s) i j = k * bval blk r0 c0 s i j.
Proof. unfold bval. destruct ((r0 <=? i)%nat && (c0 <=? j)%nat); ring. Qed.

Lemma bval_mscal k blk r0 c0 s i j : bval (mscal k blk) r0 c0 s i j = k * bval blk r0 c0 s i j.
Proof. unfold bval. rewrite ent_mscal. destruct ((r0 <=? i)%nat && (c0 <=? j)%nat); ring. Qed.

(* ---- entry formula: a sum over layers and sensor pairs ---- *)

Definition pval (ws : list wfsR) (l : layerR) (i j : nat) (res : mat * mat * mat) (r c : nat) : R :=
  let wi := nth i ws dwfs in let wj := nth j ws dwfs in
  let ni := n_subaps wi in let nj := n_subaps wj in
  let x1 := offset ws i in let y1 := offset ws j in
  let s := r0_scale O wi wj l in
  bval (fst (fst res)) x1 y1 s r c + bval (snd res) (x1 + ni) y1 s r c
  + bval (flip2 (snd res)) x1 (y1 + nj) s r c + bval (snd (fst res)) (x1 + ni) (y1 + nj) s r c.

Lemma add_pair_ent_R n m ws l (M : mat) i j res r c :
  wf_mat n m M -> (r < n)%nat -> (c < m)%nat ->
  ent (add_pair O ws l M i j res) r c = ent M r c + pval ws l i j res r c.
Proof.
  intros HM Hr Hc. destruct res as [[cxx cyy] cxy]. unfold add_pair, pval. cbv zeta. cbn [fst snd].
  rewrite !(add_block_ent_bval n m) by (repeat apply add_block_wf; assumption). lra.
Qed.

Lemma fold_pairs_ent n m ws l (F : nat * nat -> mat * mat * mat) ps (M : mat) r c :
  wf_mat n m M -> (r < n)%nat -> (c < m)%nat ->
  ent (fold_left (fun M ij => add_pair O ws l M (fst ij) (snd ij) (F ij)) ps M) r c =
  ent M r c + lsum (map (fun ij => pval ws l (fst ij) (snd ij) (F ij) r c) ps).
Proof.
  intros HM Hr Hc. revert M HM. induction ps as [|ij ps IH]; intros M HM; simpl; [lra|].
  rewrite IH by (apply add_pair_wf; exact HM). rewrite (add_pair_ent_R n m) by assumption. lra.
Qed.

Definition layer_val (D : R) (ws : list wfsR) (l : layerR) (r c : nat) : R :=
  lsum (map (fun ij => pval ws l (fst ij) (snd ij) (pair_result O D ws l ij) r c) (pairs (length ws))).

Lemma assemble_layer_seq_ent n m D ws (M : mat) l r c :
  wf_mat n m M -> (r < n)%nat -> (c < m)%nat ->
  ent (assemble_layer_seq O D ws M l) r c = ent M r c + layer_val D ws l r c.
Proof. intros. unfold assemble_layer_seq, layer_val. apply (fold_pairs_ent n m); assumption. Qed.

Lemma fold_layers_ent n m D ws ls (M : mat) r c :
  wf_mat n m M -> (r < n)%nat -> (c < m)%nat ->
  ent (fold_left (assemble_layer_seq O D ws) ls M) r c =
  ent M r c + lsum (map (fun l => layer_val D ws l r c) ls).
Proof.
  intros HM Hr Hc. revert M HM. induction ls as [|l ls IH]; intros M HM; simpl; [lra|].
  rewrite IH by (apply assemble_layer_seq_wf; exact HM).
  rewrite (assemble_layer_seq_ent n m) by assumption. lra.
Qed.

Lemma ent_zero_mat n i j : ent (zero_mat O n) i j = 0.
Proof. exact (gent_zero_mat O n i j). Qed.

Theorem assemble_seq_ent D ws ls r c : (r < total2 ws)%nat -> (c < total2 ws)%nat ->
  ent (assemble_seq O D ws ls) r c = lsum (map (fun l => layer_val D ws l r c) ls).
Proof.
  intros Hr Hc. unfold assemble_seq.
  rewrite (fold_layers_ent (total2 ws) (total2 ws)) by (try apply zero_mat_wf; assumption).
  rewrite ent_zero_mat. lra.
Qed.

(* ---- R2: additivity in the layers ---- *)

Theorem assemble_layer_seq_madd D ws (M : mat) l :
  wf_mat (total2 ws) (total2 ws) M ->
  assemble_layer_seq O D ws M l = madd O M (assemble_layer_seq O D ws (zero_mat O (total2 ws)) l).
Proof.
  intros HM. pose proof (zero_mat_wf O (total2 ws)) as HZ.
  apply (mat_eq (total2 ws) (total2 ws)).
  - apply assemble_layer_seq_wf. exact HM.
  - apply wf_madd; [exact HM | apply assemble_layer_seq_wf; exact HZ].
  - intros i j Hi Hj.
    rewrite (ent_madd G K (total2 ws) (total2 ws)) by (try apply assemble_layer_seq_wf; assumption).
    rewrite !(assemble_layer_seq_ent (total2 ws) (total2 ws)) by assumption.
    rewrite ent_zero_mat. lra.
Qed.

Theorem assemble_seq_app D ws ls1 ls2 :
  assemble_seq O D ws (ls1 ++ ls2) = madd O (assemble_seq O D ws ls1) (assemble_seq O D ws ls2).
Proof.
  apply (mat_eq (total2 ws) (total2 ws)).
  - apply assemble_seq_wf.
  - apply wf_madd; apply assemble_seq_wf.
  - intros i j Hi Hj.
    rewrite (ent_madd G K (total2 ws) (total2 ws)) by (try apply assemble_seq_wf; assumption).
    rewrite !assemble_seq_ent by assumption. rewrite map_app, lsum_app. reflexivity.
Qed.

(* ---- R3: wavelength scaling ---- *)

Definition scale_wvl (s : R) (w : wfsR) : wfsR :=
  Build_wfs (w_mask w) (w_d w) (w_alt w) (w_gsx w) (w_gsy w) (s * w_wvl w).

Lemma offset_scale_wvl s ws i : offset (map (scale_wvl s) ws) i = offset ws i.
Proof. unfold offset. rewrite firstn_map, map_map. reflexivity. Qed.

Lemma total2_scale_wvl s ws : total2 (map (scale_wvl s) ws) = total2 ws.
Proof. unfold total2. rewrite map_length. apply offset_scale_wvl. Qed.

Lemma nth_scale_wvl s ws i : (i < length ws)%nat ->
  nth i (map (scale_wvl s) ws) dwfs = scale_wvl s (nth i ws dwfs).
Proof. intros H. apply nth_map_lt. exact H. Qed.

Lemma r0_scale_wvl s wi wj l :
  r0_scale O (scale_wvl s wi) (scale_wvl s wj) l = (s * s) * r0_scale O wi wj l.
Proof.
  unfold r0_scale, layer_diam, scale_factor, scale_wvl. cbn [w_wvl w_d w_alt]. rops. unfold Rdiv. ring.
Qed.

Lemma pval_scale_wvl D s ws l i j r c : (i < length ws)%nat -> (j < length ws)%nat ->
  pval (map (scale_wvl s) ws) l i j (pair_result O D (map (scale_wvl s) ws) l (i, j)) r c
  = (s * s) * pval ws l i j (pair_result O D ws l (i, j)) r c.
Proof.
  intros Hi Hj.
  assert (E : pair_result O D (map (scale_wvl s) ws) l (i, j) = pair_result O D ws l (i, j)).
  { unfold pair_result. cbn [fst snd]. rewrite !nth_scale_wvl by assumption. reflexivity. }
  rewrite E. unfold pval. cbv zeta. rewrite !offset_scale_wvl, !nth_scale_wvl by assumption.
  rewrite r0_scale_wvl, !bval_scal.
  change (n_subaps (scale_wvl s (nth i ws dwfs))) with (n_subaps (nth i ws dwfs)).
  change (n_subaps (scale_wvl s (nth j ws dwfs))) with (n_subaps (nth j ws dwfs)).
  ring.
Qed.

Theorem assemble_seq_scale_wvl_ent D s ws ls r c : (r < total2 ws)%nat -> (c < total2 ws)%nat ->
  ent (assemble_seq O D (map (scale_wvl s) ws) ls) r c = (s * s) * ent (assemble_seq O D ws ls) r c.
Proof.
  intros Hr Hc. rewrite !assemble_seq_ent by (rewrite ?total2_scale_wvl; assumption).
  rewrite <- lsum_map_scal. f_equal. apply map_ext. intros l. unfold layer_val.
  rewrite map_length, <- lsum_map_scal. apply lsum_map_ext_in.
  intros [i j] Hin. apply in_pairs in Hin. cbn [fst snd]. apply pval_scale_wvl; lia.
Qed.

Theorem assemble_seq_scale_wvl D s ws ls :
  assemble_seq O D (map (scale_wvl s) ws) ls = mscal (s * s) (assemble_seq O D ws ls).
Proof.
  apply (mat_eq (total2 ws) (total2 ws)).
  - rewrite <- (total2_scale_wvl s ws). apply assemble_seq_wf.
  - apply mscal_wf, assemble_seq_wf.
  - intros i j Hi Hj. rewrite ent_mscal. apply assemble_seq_scale_wvl_ent; assumption.
Qed.

(* ---- R3, bilinear form: sensor p scaled by ss p; the block (i, j) is scaled by ss i * ss j ---- *)

Lemma bval_zero_outside h w (blk : mat) r0 c0 s i j :
  wf_mat h w blk -> ~ ((r0 <= i < r0 + h)%nat /\ (c0 <= j < c0 + w)%nat) -> bval blk r0 c0 s i j = 0.
Proof.
  intros [Hl Hf] Hn. unfold bval.
  destruct (r0 <=? i)%nat eqn:E1; cbn [andb]; [|reflexivity].
  destruct (c0 <=? j)%nat eqn:E2; [|reflexivity].
  apply Nat.leb_le in E1. apply Nat.leb_le in E2. unfold ent.
  destruct (Nat.lt_ge_cases (i - r0) h) as [Hi|Hi].
  - rewrite Forall_forall in Hf.
    rewrite (nth_overflow (nth (i - r0) blk [])); [lra|].
    rewrite (Hf (nth (i - r0) blk [])) by (apply nth_In; lia). lia.
  - rewrite (nth_overflow blk) by lia. rewrite nth_nil. lra.
Qed.

Lemma pval_zero_outside ws l p q res r c : (p < length ws)%nat -> (q < length ws)%nat ->
  shape3 (n_subaps (nth p ws dwfs)) (n_subaps (nth q ws dwfs)) res ->
  ~ ((offset ws p <= r < offset ws (S p))%nat /\ (offset ws q <= c < offset ws (S q))%nat) ->
  pval ws l p q res r c = 0.
Proof.
  intros Hp Hq [Hxx [Hyy Hxy]] Hn. pose proof (flip2_wf _ _ _ Hxy) as Hfl.
  rewrite (offset_S ws p dwfs Hp), (offset_S ws q dwfs Hq) in Hn.
  unfold pval. cbv zeta.
  rewrite (bval_zero_outside _ _ _ _ _ _ _ _ Hxx) by lia.
  rewrite (bval_zero_outside _ _ _ _ _ _ _ _ Hxy) by lia.
  rewrite (bval_zero_outside _ _ _ _ _ _ _ _ Hfl) by lia.
  rewrite (bval_zero_outside _ _ _ _ _ _ _ _ Hyy) by lia.
  lra.
Qed.

Lemma r0_scale_wvl2 a b wi wj l :
  r0_scale O (scale_wvl a wi) (scale_wvl b wj) l = (a * b) * r0_scale O wi wj l.
Proof.
  unfold r0_scale, layer_diam, scale_factor, scale_wvl. cbn [w_wvl w_d w_alt]. rops. unfold Rdiv. ring.
Qed.

Section Bilinear.
Variables (ss : nat -> R) (ws ws' : list wfsR).
Hypothesis Hlen : length ws' = length ws.
Hypothesis Hnth : forall p, (p < length ws)%nat -> nth p ws' dwfs = scale_wvl (ss p) (nth p ws dwfs).

Lemma bil_nsubs : map n_subaps ws' = map n_subaps ws.
Proof.
  apply (nth_ext _ _ (n_subaps dwfs) (n_subaps dwfs)); [rewrite !map_length; exact Hlen|].
  intros n Hn. rewrite map_length, Hlen in Hn. rewrite !map_nth, (Hnth n Hn). reflexivity.
Qed.

Lemma bil_offset k : offset ws' k = offset ws k.
Proof. unfold offset. rewrite <- !firstn_map, bil_nsubs. reflexivity. Qed.

Lemma bil_total2 : total2 ws' = total2 ws.
Proof. unfold total2. rewrite Hlen. apply bil_offset. Qed.

Lemma bil_pval D l p q r c : (p < length ws)%nat -> (q < length ws)%nat ->
  pval ws' l p q (pair_result O D ws' l (p, q)) r c
  = (ss p * ss q) * pval ws l p q (pair_result O D ws l (p, q)) r c.
Proof.
  intros Hp Hq.
  assert (E : pair_result O D ws' l (p, q) = pair_result O D ws l (p, q)).
  { unfold pair_result. cbn [fst snd]. rewrite (Hnth p Hp), (Hnth q Hq). reflexivity. }
  rewrite E. unfold pval. cbv zeta. rewrite !bil_offset, (Hnth p Hp), (Hnth q Hq).
  rewrite r0_scale_wvl2, !bval_scal.
  change (n_subaps (scale_wvl (ss p) (nth p ws dwfs))) with (n_subaps (nth p ws dwfs)).
  change (n_subaps (scale_wvl (ss q) (nth q ws dwfs))) with (n_subaps (nth q ws dwfs)).
  ring.
Qed.

Theorem assemble_seq_scale_wvl_bilinear D ls i j r c :
  (i < length ws)%nat -> (j < length ws)%nat ->
  (offset ws i <= r < offset ws (S i))%nat -> (offset ws j <= c < offset ws (S j))%nat ->
  ent (assemble_seq O D ws' ls) r c = (ss i * ss j) * ent (assemble_seq O D ws ls) r c.
Proof.
  intros Hi Hj Hr Hc.
  assert (Hrt : (r < total2 ws)%nat) by (pose proof (offset_le_total ws (S i)); lia).
  assert (Hct : (c < total2 ws)%nat) by (pose proof (offset_le_total ws (S j)); lia).
  rewrite !assemble_seq_ent by (rewrite ?bil_total2; assumption).
  rewrite <- lsum_map_scal. f_equal. apply map_ext. intros l. unfold layer_val.
  rewrite Hlen, <- lsum_map_scal. apply lsum_map_ext_in.
  intros [p q] Hin. apply in_pairs in Hin. destruct Hin as [Hqp Hp]. cbn [fst snd].
  assert (Hq : (q < length ws)%nat) by lia.
  rewrite (bil_pval D l p q r c Hp Hq).
  destruct (Nat.eq_dec p i) as [->|Hpi]; [destruct (Nat.eq_dec q j) as [->|Hqj]; [reflexivity|]|].
  - rewrite pval_zero_outside; [ring | exact Hi | exact Hq | apply (pair_result_shape O D ws l (i, q)) |].
    intros [_ Hc']. apply Hqj. apply (offset_locate_unique ws c); lia.
  - rewrite pval_zero_outside; [ring | exact Hp | exact Hq | apply (pair_result_shape O D ws l (p, q)) |].
    intros [Hr' _]. apply Hpi. apply (offset_locate_unique ws r); lia.
Qed.
End Bilinear.

(* ---- R4: r0 scaling ---- *)

Definition scale_r0 (s : R) (l : layerR) : layerR := Build_layer (l_h l) (s * l_r0 l) (l_L0 l).

Lemma cov_xx_scales_r0 u d1 d2 r0 L0 s : 0 < r0 -> 0 < L0 -> 0 < s ->
  compute_covariance_xx O u d1 d2 (s * r0) L0 = Rpower s (-5/3) * compute_covariance_xx O u d1 d2 r0 L0.
Proof.
  intros. unfold compute_covariance_xx. cbv zeta. rewrite !vk_scales_r0 by assumption. rops. ring.
Qed.
Lemma cov_yy_scales_r0 u d1 d2 r0 L0 s : 0 < r0 -> 0 < L0 -> 0 < s ->
  compute_covariance_yy O u d1 d2 (s * r0) L0 = Rpower s (-5/3) * compute_covariance_yy O u d1 d2 r0 L0.
Proof.
  intros. unfold compute_covariance_yy. cbv zeta. rewrite !vk_scales_r0 by assumption. rops. ring.
Qed.
Lemma cov_xy_scales_r0 u d1 d2 r0 L0 s : 0 < r0 -> 0 < L0 -> 0 < s ->
  compute_covariance_xy O u d1 d2 (s * r0) L0 = Rpower s (-5/3) * compute_covariance_xy O u d1 d2 r0 L0.
Proof.
  intros. unfold compute_covariance_xy. cbv zeta. rewrite !vk_scales_r0 by assumption. rops. ring.
Qed.

Lemma wfs_cov_scales_r0 p1 p2 d1 d2 r0 L0 s : 0 < r0 -> 0 < L0 -> 0 < s ->
  wfs_cov O p1 p2 d1 d2 (s * r0) L0 =
  (mscal (Rpower s (-5/3)) (fst (fst (wfs_cov O p1 p2 d1 d2 r0 L0))),
   mscal (Rpower s (-5/3)) (snd (fst (wfs_cov O p1 p2 d1 d2 r0 L0))),
   mscal (Rpower s (-5/3)) (snd (wfs_cov O p1 p2 d1 d2 r0 L0))).
Proof.
  intros H1 H2 H3. unfold wfs_cov. cbv zeta. cbn [fst snd]. f_equal; [f_equal|]; apply map_map_mscal; intros u.
  - apply cov_xx_scales_r0; assumption.
  - apply cov_yy_scales_r0; assumption.
  - apply cov_xy_scales_r0; assumption.
Qed.

Lemma pval_scale_r0 D s ws l ij r c : 0 < s -> 0 < l_r0 l -> 0 < l_L0 l ->
  pval ws (scale_r0 s l) (fst ij) (snd ij) (pair_result O D ws (scale_r0 s l) ij) r c
  = Rpower s (-5/3) * pval ws l (fst ij) (snd ij) (pair_result O D ws l ij) r c.
Proof.
  intros Hs Hr0 HL0.
  change (pair_result O D ws (scale_r0 s l) ij) with
    (wfs_cov O (layer_positions O D (nth (fst ij) ws dwfs) l) (layer_positions O D (nth (snd ij) ws dwfs) l)
       (layer_diam O (nth (fst ij) ws dwfs) l) (layer_diam O (nth (snd ij) ws dwfs) l) (s * l_r0 l) (l_L0 l)).
  rewrite wfs_cov_scales_r0 by assumption.
  change (wfs_cov O (layer_positions O D (nth (fst ij) ws dwfs) l) (layer_positions O D (nth (snd ij) ws dwfs) l)
       (layer_diam O (nth (fst ij) ws dwfs) l) (layer_diam O (nth (snd ij) ws dwfs) l) (l_r0 l) (l_L0 l))
    with (pair_result O D ws l ij).
  unfold pval. cbv zeta. cbn [fst snd].
  change (r0_scale O (nth (fst ij) ws dwfs) (nth (snd ij) ws dwfs) (scale_r0 s l))
    with (r0_scale O (nth (fst ij) ws dwfs) (nth (snd ij) ws dwfs) l).
  rewrite flip2_mscal, !bval_mscal. rewrite <- !Rmult_plus_distr_l. reflexivity.
Qed.

Theorem assemble_seq_scale_r0_ent D s ws ls r c :
  0 < s -> Forall (fun l => 0 < l_r0 l /\ 0 < l_L0 l) ls ->
  (r < total2 ws)%nat -> (c < total2 ws)%nat ->
  ent (assemble_seq O D ws (map (scale_r0 s) ls)) r c
  = Rpower s (-5/3) * ent (assemble_seq O D ws ls) r c.
Proof.
  intros Hs Hls Hr Hc. rewrite !assemble_seq_ent by assumption.
  rewrite map_map, <- lsum_map_scal. apply lsum_map_ext_in. intros l Hl.
  rewrite Forall_forall in Hls. destruct (Hls l Hl) as [Hr0 HL0].
  unfold layer_val. rewrite <- lsum_map_scal. apply lsum_map_ext_in. intros ij _.
  apply pval_scale_r0; assumption.
Qed.

Theorem assemble_seq_scale_r0 D s ws ls :
  0 < s -> Forall (fun l => 0 < l_r0 l /\ 0 < l_L0 l) ls ->
  assemble_seq O D ws (map (scale_r0 s) ls) = mscal (Rpower s (-5/3)) (assemble_seq O D ws ls).
Proof.
  intros Hs Hls. apply (mat_eq (total2 ws) (total2 ws)).
  - apply assemble_seq_wf.
  - apply mscal_wf, assemble_seq_wf.
  - intros i j Hi Hj. rewrite ent_mscal. apply assemble_seq_scale_r0_ent; assumption.
Qed.

(* ---- R5: mirroring ---- *)

Theorem mirror_wf n (M : mat) : wf_mat n n M -> wf_mat n n (mirror O M).
Proof.
  intros HM. destruct (Nat.eq_dec n 0) as [->|Hn].
  - destruct HM as [Hl _]. destruct M; [|discriminate]. split; [reflexivity | constructor].
  - unfold mirror. apply wf_map2; [exact HM | apply wf_transpose; [exact HM | lia]].
Qed.

Theorem mirror_ent n (M : mat) i j : wf_mat n n M -> (i < n)%nat -> (j < n)%nat ->
  ent (mirror O M) i j = if Req_EM_T (ent M i j) 0 then ent M j i else ent M i j.
Proof.
  intros HM Hi Hj. unfold mirror.
  rewrite (ent_map2 _ n n) by (try apply wf_transpose; try assumption; lia).
  rewrite (ent_transpose' n n) by assumption. reflexivity.
Qed.

Theorem mirror_sym n (M : mat) : wf_mat n n M ->
  (forall i j, (i < n)%nat -> (j < n)%nat -> ent M i j = 0 \/ ent M j i = 0 \/ ent M i j = ent M j i) ->
  msym (mirror O M).
Proof.
  intros HM HP. destruct (Nat.eq_dec n 0) as [->|Hn].
  - destruct HM as [Hl _]. destruct M; [reflexivity | discriminate].
  - apply (msym_ent n); [apply mirror_wf; exact HM | lia |].
    intros i j Hi Hj. rewrite !(mirror_ent n) by assumption.
    destruct (Req_EM_T (ent M i j) 0) as [E1|E1], (Req_EM_T (ent M j i) 0) as [E2|E2]; try lra.
    destruct (HP i j Hi Hj) as [H|[H|H]]; lra.
Qed.

(* without the proviso the result need not be symmetric *)
Definition mirror_ce : mat := [[0; 1]; [2; 0]].

Theorem mirror_not_sym_without_proviso :
  wf_mat 2 2 mirror_ce /\ ent mirror_ce 0 1 <> 0 /\ ent mirror_ce 1 0 <> 0 /\
  ent mirror_ce 0 1 <> ent mirror_ce 1 0 /\ ~ msym (mirror O mirror_ce).
Proof.
  assert (HW : wf_mat 2 2 mirror_ce) by (split; [reflexivity | repeat constructor]).
  assert (E01 : ent mirror_ce 0 1 = 1) by reflexivity.
  assert (E10 : ent mirror_ce 1 0 = 2) by reflexivity.
  split; [exact HW|]. rewrite E01, E10. repeat split; try lra.
  intros HS0.
  pose proof (proj1 (msym_ent 2 (mirror O mirror_ce) (mirror_wf 2 mirror_ce HW) ltac:(lia)) HS0
                0%nat 1%nat ltac:(lia) ltac:(lia)) as HS.
  rewrite !(mirror_ent 2) in HS by (try exact HW; lia). rewrite E01, E10 in HS.
  destruct (Req_EM_T 1 0), (Req_EM_T 2 0); lra.
Qed.

(* across two different sensors the mirrored matrix is symmetric and carries the lower block (L5 + R5) *)
Theorem make_covariance_matrix_offdiag D ws ls i j r c :
  (i < j)%nat -> (j < length ws)%nat ->
  (offset ws i <= r < offset ws (S i))%nat -> (offset ws j <= c < offset ws (S j))%nat ->
  ent (make_covariance_matrix O D ws ls) r c = ent (assemble_seq O D ws ls) c r /\
  ent (make_covariance_matrix O D ws ls) c r = ent (assemble_seq O D ws ls) c r.
Proof.
  intros Hij Hj Hr Hc.
  assert (Hrt : (r < total2 ws)%nat) by (pose proof (offset_le_total ws (S i)); lia).
  assert (Hct : (c < total2 ws)%nat) by (pose proof (offset_le_total ws (S j)); lia).
  pose proof (assemble_seq_block_triangular O D ws ls i j r c Hij Hj Hr Hc) as Z.
  change (ent (assemble_seq O D ws ls) r c = 0) in Z.
  unfold make_covariance_matrix.
  rewrite !(mirror_ent (total2 ws)) by (try apply assemble_seq_wf; assumption). rewrite Z.
  destruct (Req_EM_T 0 0) as [_|N]; [|lra].
  destruct (Req_EM_T (ent (assemble_seq O D ws ls) c r) 0) as [E|E]; split; try reflexivity. symmetry; exact E.
Qed.

(* ---- R7: the xx / yy formulas for equal diameters ---- *)

Definition vnorm (a b : R) : R := sqrt (a * a + b * b).

Theorem cov_xx_equal_diam ux uy d r0 L0 :
  compute_covariance_xx O (ux, uy) d d r0 L0 =
  structure_function_vk O (vnorm (ux - d) uy) r0 L0 + structure_function_vk O (vnorm (ux + d) uy) r0 L0
  - 2 * structure_function_vk O (vnorm ux uy) r0 L0.
Proof.
  unfold compute_covariance_xx, vnorm. cbv zeta. cbn [fst snd].
  generalize (@structure_function_vk R O). intros f. rops.
  replace (ux + (d - d) * (5 / 10)) with ux by field.
  replace (ux - (d + d) * (5 / 10)) with (ux - d) by field.
  replace (ux + (d + d) * (5 / 10)) with (ux + d) by field.
  ring.
Qed.

Theorem cov_yy_equal_diam ux uy d r0 L0 :
  compute_covariance_yy O (ux, uy) d d r0 L0 =
  structure_function_vk O (vnorm ux (uy - d)) r0 L0 + structure_function_vk O (vnorm ux (uy + d)) r0 L0
  - 2 * structure_function_vk O (vnorm ux uy) r0 L0.
Proof.
  unfold compute_covariance_yy, vnorm. cbv zeta. cbn [fst snd].
  generalize (@structure_function_vk R O). intros f. rops.
  replace (uy + (d - d) * (5 / 10)) with uy by field.
  replace (uy - (d + d) * (5 / 10)) with (uy - d) by field.
  replace (uy + (d + d) * (5 / 10)) with (uy + d) by field.
  ring.
Qed.

End SlopeCovR.

(* ---- R6: polarisation in a pre-inner-product space ---- *)

Section Polarisation.
Variables (H : Type) (ip : H -> H -> R) (hsub : H -> H -> H).
Hypothesis ip_sym : forall a b, ip a b = ip b a.
Hypothesis ip_sub_l : forall a b c, ip (hsub a b) c = ip a c - ip b c.
Variables (P : Type) (phi : P -> H).

Definition Dfun (a b : P) : R := ip (hsub (phi a) (phi b)) (hsub (phi a) (phi b)).

Lemma ip_sub_r a b c : ip c (hsub a b) = ip c a - ip c b.
Proof. rewrite ip_sym, ip_sub_l, (ip_sym a c), (ip_sym b c). reflexivity. Qed.

Theorem polarisation a b c d :
  ip (hsub (phi a) (phi b)) (hsub (phi c) (phi d)) = (Dfun a d + Dfun b c - Dfun a c - Dfun b d) / 2.
Proof.
  unfold Dfun. rewrite !ip_sub_l, !ip_sub_r.
  rewrite (ip_sym (phi c) (phi a)), (ip_sym (phi d) (phi a)), (ip_sym (phi c) (phi b)), (ip_sym (phi d) (phi b)).
  lra.
Qed.
End Polarisation.

(* ---- assumptions ---- *)
Print Assumptions block_decomp.
Print Assumptions add_block_ent.
Print Assumptions assemble_seq_block_triangular.
Print Assumptions assemble_seq_app.
Print Assumptions assemble_seq_scale_wvl.
Print Assumptions assemble_seq_scale_wvl_bilinear.
Print Assumptions assemble_seq_scale_r0.
Print Assumptions mirror_sym.
Print Assumptions polarisation.
