(* C15: centroiders.  Centre of gravity of a single pixel, invariance under intensity scaling (plain,
   thresholded 2-D path, thresholded N-D path, brightest pixel), equivariance under translation by
   zero padding, stack = per-frame, the 2-D / N-D threshold disagreement (binary64 witness), quad-cell
   mirror antisymmetry, and the half-pixel offset of the correlation centroid at even padding
   (binary64 witness). *)
From Coq Require Import Reals Lra Lia ZArith List Arith Bool Psatz.
Require Import AOV.base.Num AOV.base.NumR AOV.base.RpowTac AOV.base.Cplx AOV.model.Centroid
               AOV.proofs.Dft_proofs AOV.proofs.Mat_proofs.
Import ListNotations.
Local Open Scope R_scope.

(* generic list facts *)
Lemma mapi_from_map {A B C} (f : nat -> B -> C) (g : A -> B) k l :
  mapi_from f k (map g l) = mapi_from (fun j v => f j (g v)) k l.
Proof. revert k; induction l as [|x l IH]; intros k; cbn [map mapi_from]; [reflexivity|]. rewrite IH. reflexivity. Qed.
Lemma mapi_from_app {A B} (f : nat -> A -> B) k a b :
  mapi_from f k (a ++ b) = mapi_from f k a ++ mapi_from f (k + length a) b.
Proof. revert k; induction a as [|x a IH]; intros k; cbn [app mapi_from length].
  - rewrite Nat.add_0_r. reflexivity.
  - rewrite IH. do 3 f_equal. lia. Qed.
Lemma mapi_from_map_seq {A B} (g : nat -> A -> B) (f : nat -> A) n : forall k,
  mapi_from g k (map f (seq k n)) = map (fun j => g j (f j)) (seq k n).
Proof. induction n as [|n IH]; intros k; cbn [seq map mapi_from]; [reflexivity|]. rewrite IH. reflexivity. Qed.

Section C15R.
Variables (G : R -> R) (K : R -> R -> R).
Local Notation O := (ROps G K).
Local Notation img := (list (list R)).

Lemma cn_R n : cn O n = INR n.
Proof. unfold cn; rops. symmetry; apply INR_IZR_INZ. Qed.

(* ------------------------------------------------------------------------------------------ *)
(* first moment of a row, and the three sums of cog_plain in terms of it                       *)
(* ------------------------------------------------------------------------------------------ *)
Definition rowmom (l : list R) : R := nsum O (mapi (fun j v => nmul O (cn O j) v) l).

Lemma rowmom_from l : forall k,
  nsum O (mapi_from (fun j v => nmul O (cn O j) v) k l) = rowmom l + INR k * nsum O l.
Proof. unfold rowmom, mapi. induction l as [|x l IH]; intros k; cbn [mapi_from].
  - rewrite !nsum_R_nil. lra.
  - rewrite !nsum_R_cons, (IH (S k)), (IH 1%nat), !cn_R. cbv [nmul ROps]. rewrite S_INR. simpl INR. lra. Qed.
Lemma rowmom_nil : rowmom [] = 0.
Proof. reflexivity. Qed.
Lemma rowmom_cons x l : rowmom (x :: l) = rowmom l + nsum O l.
Proof. unfold rowmom at 1, mapi. cbn [mapi_from]. rewrite nsum_R_cons, rowmom_from, cn_R. cbv [nmul ROps]. simpl INR. lra. Qed.
Lemma rowmom_app a b : rowmom (a ++ b) = rowmom a + rowmom b + INR (length a) * nsum O b.
Proof. unfold rowmom at 1, mapi. rewrite mapi_from_app, nsum_R_app, !rowmom_from. cbn [Nat.add]. simpl INR. lra. Qed.
Lemma rowmom_repeat0 n : rowmom (repeat 0 n) = 0.
Proof. induction n as [|n IH]; [reflexivity|]. cbn [repeat]. rewrite rowmom_cons, IH, nsum_R_repeat. lra. Qed.
Lemma rowmom_scal s l : rowmom (map (fun v => s * v) l) = s * rowmom l.
Proof. induction l as [|x l IH]; cbn [map]; [rewrite rowmom_nil; lra|]. rewrite !rowmom_cons, IH, nsum_R_scal. lra. Qed.

Lemma tsum_eq (m : img) : tsum O m = nsum O (map (nsum O) m).
Proof. reflexivity. Qed.
Lemma xmoment_eq (m : img) : xmoment O m = nsum O (map rowmom m).
Proof. reflexivity. Qed.
Lemma ymoment_eq (m : img) : ymoment O m = rowmom (map (nsum O) m).
Proof. unfold ymoment, rowmom, mapi. rewrite mapi_from_map. reflexivity. Qed.

Lemma tsum_nil : tsum O [] = 0. Proof. reflexivity. Qed.
Lemma tsum_cons row (m : img) : tsum O (row :: m) = nsum O row + tsum O m.
Proof. rewrite !tsum_eq. cbn [map]. apply nsum_R_cons. Qed.
Lemma tsum_app (a b : img) : tsum O (a ++ b) = tsum O a + tsum O b.
Proof. rewrite !tsum_eq, map_app. apply nsum_R_app. Qed.
Lemma xmoment_cons row (m : img) : xmoment O (row :: m) = rowmom row + xmoment O m.
Proof. rewrite !xmoment_eq. cbn [map]. apply nsum_R_cons. Qed.
Lemma xmoment_app (a b : img) : xmoment O (a ++ b) = xmoment O a + xmoment O b.
Proof. rewrite !xmoment_eq, map_app. apply nsum_R_app. Qed.
Lemma ymoment_cons row (m : img) : ymoment O (row :: m) = ymoment O m + tsum O m.
Proof. rewrite !ymoment_eq. cbn [map]. rewrite rowmom_cons. reflexivity. Qed.
Lemma ymoment_app (a b : img) : ymoment O (a ++ b) = ymoment O a + ymoment O b + INR (length a) * tsum O b.
Proof. rewrite !ymoment_eq, map_app, rowmom_app, map_length. reflexivity. Qed.

(* ------------------------------------------------------------------------------------------ *)
(* images given by a function of the indices                                                   *)
(* ------------------------------------------------------------------------------------------ *)
Definition mk (r c : nat) (f : nat -> nat -> R) : img :=
  map (fun i => map (fun j => f i j) (seq 0 c)) (seq 0 r).

Lemma nsum_map_seq (f : nat -> R) n : nsum O (map f (seq 0 n)) = rsum f n.
Proof. induction n as [|n IH]; [reflexivity|]. rewrite seq_S, map_app, nsum_R_app, IH. cbn [map Nat.add rsum].
  rewrite nsum_R_cons, nsum_R_nil. lra. Qed.
Lemma rowmom_map_seq (f : nat -> R) n : rowmom (map f (seq 0 n)) = rsum (fun j => INR j * f j) n.
Proof. unfold rowmom, mapi. rewrite mapi_from_map_seq, nsum_map_seq. apply rsum_ext. intros j _.
  rewrite cn_R. reflexivity. Qed.
Lemma tsum_mk r c f : tsum O (mk r c f) = rsum (fun i => rsum (fun j => f i j) c) r.
Proof. rewrite tsum_eq. unfold mk. rewrite map_map, nsum_map_seq. apply rsum_ext. intros i _. apply nsum_map_seq. Qed.
Lemma xmoment_mk r c f : xmoment O (mk r c f) = rsum (fun i => rsum (fun j => INR j * f i j) c) r.
Proof. rewrite xmoment_eq. unfold mk. rewrite map_map, nsum_map_seq. apply rsum_ext. intros i _. apply rowmom_map_seq. Qed.
Lemma ymoment_mk r c f : ymoment O (mk r c f) = rsum (fun i => INR i * rsum (fun j => f i j) c) r.
Proof. rewrite ymoment_eq. unfold mk. rewrite map_map, rowmom_map_seq. apply rsum_ext. intros i _.
  rewrite nsum_map_seq. reflexivity. Qed.
Lemma mk_wf r c f : wf_mat r c (mk r c f).
Proof. apply wf_map_seq. intros. rewrite map_length, seq_length. reflexivity. Qed.
Lemma mk_ent r c f i j : (i < r)%nat -> (j < c)%nat -> ent (mk r c f) i j = f i j.
Proof. intros Hi Hj. unfold ent, mk. rewrite (nth_map_seq _ r i [] Hi), (nth_map_seq _ c j 0 Hj). reflexivity. Qed.

(* P1: a single bright pixel *)
Definition spike (r c py px : nat) (a : R) : img :=
  mk r c (fun i j => if (Nat.eqb i py && Nat.eqb j px)%bool then a else 0).

Lemma spike_ent r c py px a i j : (i < r)%nat -> (j < c)%nat ->
  ent (spike r c py px a) i j = if (Nat.eqb i py && Nat.eqb j px)%bool then a else 0.
Proof. apply mk_ent. Qed.

Lemma rsum_spike (w : nat -> nat -> R) r c py px a : (py < r)%nat -> (px < c)%nat ->
  rsum (fun i => rsum (fun j => w i j * (if (Nat.eqb i py && Nat.eqb j px)%bool then a else 0)) c) r = w py px * a.
Proof. intros Hy Hx.
  rewrite (rsum_single _ r py Hy).
  - rewrite (rsum_single _ c px Hx).
    + rewrite !Nat.eqb_refl. reflexivity.
    + intros k _ Hk. apply Nat.eqb_neq in Hk. rewrite Hk, andb_false_r. lra.
  - intros k _ Hk. apply Nat.eqb_neq in Hk. rewrite Hk. apply rsum_zero_ext. intros. cbn [andb]. lra. Qed.

Theorem cog_single_pixel : forall r c py px a, (py < r)%nat -> (px < c)%nat -> a <> 0 ->
  cog_plain O (spike r c py px a) = (INR px, INR py).
Proof. intros r c py px a Hy Hx Ha. unfold cog_plain, spike.
  rewrite tsum_mk, xmoment_mk, ymoment_mk.
  assert (T : rsum (fun i => rsum (fun j => if (Nat.eqb i py && Nat.eqb j px)%bool then a else 0) c) r = a).
  { transitivity (1 * a); [|lra]. rewrite <- (rsum_spike (fun _ _ => 1) r c py px a Hy Hx).
    apply rsum_ext; intros; apply rsum_ext; intros; lra. }
  rewrite T. rewrite (rsum_spike (fun _ j => INR j) r c py px a Hy Hx).
  assert (Y : rsum (fun i => INR i * rsum (fun j => if (Nat.eqb i py && Nat.eqb j px)%bool then a else 0) c) r = INR py * a).
  { rewrite <- (rsum_spike (fun i _ => INR i) r c py px a Hy Hx).
    apply rsum_ext; intros. rewrite <- rsum_scal_l. reflexivity. }
  rewrite Y. cbv [ndiv ROps]. f_equal; field; exact Ha. Qed.

(* ------------------------------------------------------------------------------------------ *)
(* P3: translation by zero padding                                                             *)
(* ------------------------------------------------------------------------------------------ *)
(* ky zero rows above, kb below, kx zero columns left, kr right; c = row length of m (only used for
   the width of the all-zero rows, which is immaterial for the result) *)
Definition pad_zeros (ky kx kb kr c : nat) (m : img) : img :=
  repeat (repeat 0 (kx + c + kr)) ky ++ map (fun row => repeat 0 kx ++ row ++ repeat 0 kr) m
    ++ repeat (repeat 0 (kx + c + kr)) kb.
Definition pad_tl (ky kx c : nat) (m : img) : img :=
  repeat (repeat 0 (kx + c)) ky ++ map (fun row => repeat 0 kx ++ row) m.

Lemma pad_tl_eq ky kx c m : pad_tl ky kx c m = pad_zeros ky kx 0 0 c m.
Proof. unfold pad_tl, pad_zeros. cbn [repeat]. rewrite Nat.add_0_r, app_nil_r. f_equal.
  apply map_ext. intros row. rewrite app_nil_r. reflexivity. Qed.
Lemma pad_zeros_wf r c ky kx kb kr (m : img) : wf_mat r c m ->
  wf_mat (ky + r + kb) (kx + c + kr) (pad_zeros ky kx kb kr c m).
Proof. intros [Hl Hf]. unfold pad_zeros. split.
  - rewrite !app_length, !repeat_length, map_length. lia.
  - rewrite !Forall_app. repeat split.
    + apply Forall_forall. intros x Hx. apply repeat_spec in Hx. subst x. apply repeat_length.
    + apply Forall_forall. intros x Hx. apply in_map_iff in Hx. destruct Hx as [row [<- Hrow]].
      rewrite Forall_forall in Hf. rewrite !app_length, !repeat_length, (Hf row Hrow). lia.
    + apply Forall_forall. intros x Hx. apply repeat_spec in Hx. subst x. apply repeat_length. Qed.

Lemma zeros_sums w k : tsum O (repeat (repeat 0 w) k) = 0 /\ xmoment O (repeat (repeat 0 w) k) = 0
  /\ ymoment O (repeat (repeat 0 w) k) = 0.
Proof. induction k as [|k [IH1 [IH2 IH3]]]; [repeat split; reflexivity|]. cbn [repeat].
  rewrite tsum_cons, xmoment_cons, ymoment_cons, IH1, IH2, IH3, rowmom_repeat0, nsum_R_repeat. repeat split; lra. Qed.
Lemma padrow_nsum kx kr row : nsum O (repeat 0 kx ++ row ++ repeat 0 kr) = nsum O row.
Proof. rewrite !nsum_R_app, !nsum_R_repeat. lra. Qed.
Lemma padrow_rowmom kx kr row : rowmom (repeat 0 kx ++ row ++ repeat 0 kr) = rowmom row + INR kx * nsum O row.
Proof. rewrite !rowmom_app, !rowmom_repeat0, !nsum_R_app, !nsum_R_repeat, repeat_length. lra. Qed.
Lemma padrows_sums kx kr (m : img) : let m' := map (fun row => repeat 0 kx ++ row ++ repeat 0 kr) m in
  tsum O m' = tsum O m /\ xmoment O m' = xmoment O m + INR kx * tsum O m /\ ymoment O m' = ymoment O m.
Proof. cbv zeta. induction m as [|row m [IH1 [IH2 IH3]]]; cbn [map].
  - rewrite !tsum_nil. repeat split; try reflexivity. rewrite xmoment_eq. cbn [map]. rewrite nsum_R_nil. lra.
  - rewrite !tsum_cons, !xmoment_cons, !ymoment_cons, IH1, IH2, IH3, padrow_nsum, padrow_rowmom. repeat split; lra. Qed.

Lemma pad_zeros_sums ky kx kb kr c (m : img) : let m' := pad_zeros ky kx kb kr c m in
  tsum O m' = tsum O m /\ xmoment O m' = xmoment O m + INR kx * tsum O m
  /\ ymoment O m' = ymoment O m + INR ky * tsum O m.
Proof. cbv zeta. unfold pad_zeros.
  destruct (zeros_sums (kx + c + kr) ky) as [A1 [A2 A3]]. destruct (zeros_sums (kx + c + kr) kb) as [B1 [B2 B3]].
  destruct (padrows_sums kx kr m) as [C1 [C2 C3]].
  rewrite !tsum_app, !xmoment_app, !ymoment_app, !tsum_app, A1, A2, A3, B1, B2, B3, C1, C2, C3, repeat_length, map_length.
  repeat split; lra. Qed.

Theorem cog_shift_general : forall ky kx kb kr c (m : img), tsum O m <> 0 ->
  cog_plain O (pad_zeros ky kx kb kr c m) = (fst (cog_plain O m) + INR kx, snd (cog_plain O m) + INR ky).
Proof. intros ky kx kb kr c m HT. destruct (pad_zeros_sums ky kx kb kr c m) as [E1 [E2 E3]].
  unfold cog_plain. rewrite E1, E2, E3. cbn [fst snd]. cbv [ndiv ROps]. f_equal; field; exact HT. Qed.
Theorem cog_shift : forall ky kx c (m : img), tsum O m <> 0 ->
  cog_plain O (pad_tl ky kx c m) = (fst (cog_plain O m) + INR kx, snd (cog_plain O m) + INR ky).
Proof. intros. rewrite pad_tl_eq. apply cog_shift_general. assumption. Qed.
(* pad_tl is what its name says: entries *)
Lemma pad_tl_ent r c ky kx (m : img) i j : wf_mat r c m -> (i < ky + r)%nat -> (j < kx + c)%nat ->
  ent (pad_tl ky kx c m) i j = if (Nat.ltb i ky || Nat.ltb j kx)%bool then 0 else ent m (i - ky) (j - kx).
Proof. intros [Hl Hf] Hi Hj. unfold ent, pad_tl.
  destruct (Nat.ltb_spec i ky) as [Hlt|Hge].
  - rewrite app_nth1 by (rewrite repeat_length; exact Hlt). cbn [orb].
    rewrite (nth_indep _ [] (repeat 0 (kx + c))) by (rewrite repeat_length; exact Hlt).
    rewrite nth_repeat. apply nth_repeat.
  - rewrite app_nth2 by (rewrite repeat_length; exact Hge). rewrite repeat_length. cbn [orb].
    rewrite (nth_map_lt _ m (i - ky) [] []) by lia.
    destruct (Nat.ltb_spec j kx) as [Hlt|Hge'].
    + rewrite app_nth1 by (rewrite repeat_length; exact Hlt). apply nth_repeat.
    + rewrite app_nth2 by (rewrite repeat_length; exact Hge'). rewrite repeat_length. reflexivity. Qed.

(* ------------------------------------------------------------------------------------------ *)
(* P2: invariance under intensity scaling                                                      *)
(* ------------------------------------------------------------------------------------------ *)
Definition scal (s : R) (m : img) : img := map (map (fun v => s * v)) m.
Definition nonneg (m : img) : Prop := Forall (Forall (fun v => 0 <= v)) m.

Lemma scal_sums s (m : img) :
  tsum O (scal s m) = s * tsum O m /\ xmoment O (scal s m) = s * xmoment O m /\ ymoment O (scal s m) = s * ymoment O m.
Proof. unfold scal. induction m as [|row m [IH1 [IH2 IH3]]]; cbn [map].
  - rewrite ymoment_eq, xmoment_eq, tsum_eq. cbn [map]. rewrite rowmom_nil, nsum_R_nil. repeat split; lra.
  - rewrite !tsum_cons, !xmoment_cons, !ymoment_cons, IH1, IH2, IH3, nsum_R_scal, rowmom_scal. repeat split; lra. Qed.

Theorem cog_scale : forall s (m : img), s <> 0 -> tsum O m <> 0 ->
  cog_plain O (map (map (fun v => s * v)) m) = cog_plain O m.
Proof. intros s m Hs HT. destruct (scal_sums s m) as [E1 [E2 E3]]. unfold scal in *.
  unfold cog_plain. rewrite E1, E2, E3. cbv [ndiv ROps]. f_equal; field; split; assumption. Qed.

(* without the hypothesis on the total, for non-negative images (0/0 on both sides when the image vanishes) *)
Lemma nsum_nonneg l : Forall (fun v => 0 <= v) l -> 0 <= nsum O l.
Proof. induction 1 as [|x l Hx Hl IH]; [rewrite nsum_R_nil; lra|]. rewrite nsum_R_cons. lra. Qed.
Lemma rowmom_zero l : Forall (fun v => 0 <= v) l -> nsum O l = 0 -> rowmom l = 0.
Proof. induction 1 as [|x l Hx Hl IH]; intros H0; [reflexivity|]. rewrite nsum_R_cons in H0.
  pose proof (nsum_nonneg l Hl). rewrite rowmom_cons, IH by lra. lra. Qed.
Lemma tsum_nonneg (m : img) : nonneg m -> 0 <= tsum O m.
Proof. induction 1 as [|row m Hr Hm IH]; [rewrite tsum_nil; lra|]. rewrite tsum_cons.
  pose proof (nsum_nonneg row Hr). lra. Qed.
Lemma moments_zero (m : img) : nonneg m -> tsum O m = 0 -> xmoment O m = 0 /\ ymoment O m = 0.
Proof. intros Hn H0. split.
  - induction Hn as [|row m Hr Hm IH]; [reflexivity|]. rewrite tsum_cons in H0.
    pose proof (nsum_nonneg row Hr). pose proof (tsum_nonneg m Hm).
    rewrite xmoment_cons, IH, (rowmom_zero row Hr) by lra. lra.
  - rewrite ymoment_eq. apply rowmom_zero; [|exact H0].
    apply Forall_forall. intros x Hx. apply in_map_iff in Hx. destruct Hx as [row [<- Hrow]].
    apply nsum_nonneg. unfold nonneg in Hn. rewrite Forall_forall in Hn. apply Hn. exact Hrow. Qed.
Theorem cog_scale_nonneg : forall s (m : img), s <> 0 -> nonneg m -> cog_plain O (scal s m) = cog_plain O m.
Proof. intros s m Hs Hn. destruct (Req_EM_T (tsum O m) 0) as [H0|HT]; [|apply cog_scale; assumption].
  destruct (scal_sums s m) as [E1 [E2 E3]]. destruct (moments_zero m Hn H0) as [X0 Y0].
  unfold cog_plain. rewrite E1, E2, E3, H0, X0, Y0, !Rmult_0_r. reflexivity. Qed.

(* maximum under positive scaling *)
Lemma nmax_scal s a b : 0 < s -> nmax O (s * a) (s * b) = s * nmax O a b.
Proof. intros Hs. unfold nmax. cbv [nltb ROps]. unfold Rltb.
  destruct (Rlt_dec (s * a) (s * b)) as [H|H], (Rlt_dec a b) as [H'|H']; try reflexivity; exfalso; nra. Qed.
Lemma fold_nmax_scal s l : 0 < s -> forall a,
  fold_left (nmax O) (map (fun v => s * v) l) (s * a) = s * fold_left (nmax O) l a.
Proof. intros Hs. induction l as [|x l IH]; intros a; cbn [map fold_left]; [reflexivity|].
  rewrite nmax_scal by exact Hs. apply IH. Qed.
Lemma concat_scal s (m : img) : concat (scal s m) = map (fun v => s * v) (concat m).
Proof. unfold scal. symmetry. apply concat_map. Qed.
Lemma max2_scal s (m : img) : 0 < s -> max2 O (scal s m) = s * max2 O m.
Proof. intros Hs. unfold max2. rewrite concat_scal. destruct (concat m) as [|x l].
  - cbn. rops. lra.
  - cbn [map hd]. apply (fold_nmax_scal s (x :: l) Hs x). Qed.
Lemma thresh_scal s thr mt M : 0 < s -> nmax O (nmul O thr (s * M)) (s * mt) = s * nmax O (nmul O thr M) mt.
Proof. intros Hs. rewrite <- nmax_scal by exact Hs. f_equal. cbv [nmul ROps]. ring. Qed.

Lemma thr2d_scal s thr mt (m : img) : 0 < s -> thr2d O thr (s * mt) (scal s m) = scal s (thr2d O thr mt m).
Proof. intros Hs. unfold thr2d. rewrite max2_scal, thresh_scal by exact Hs.
  set (t := nmax O (nmul O thr (max2 O m)) mt). unfold scal. rewrite !map_map. apply map_ext. intros row.
  rewrite !map_map. apply map_ext. intros v. cbv [nltb nsub nzero nofZ ROps]. unfold Rltb.
  destruct (Rlt_dec (s * t) (s * v)) as [H|H], (Rlt_dec t v) as [H'|H']; try lra; exfalso; nra. Qed.
Lemma thrNd_scal s thr mt (m : img) : 0 < s -> thrNd O thr (s * mt) (scal s m) = scal s (thrNd O thr mt m).
Proof. intros Hs. unfold thrNd. rewrite max2_scal, thresh_scal by exact Hs.
  set (t := nmax O (nmul O thr (max2 O m)) mt). unfold scal. rewrite !map_map. apply map_ext. intros row.
  rewrite !map_map. apply map_ext. intros v. cbv [nltb nsub nzero nofZ ROps]. unfold Rltb.
  destruct (Rlt_dec (s * v - s * t) 0) as [H|H], (Rlt_dec (v - t) 0) as [H'|H']; try lra; exfalso; nra. Qed.

Lemma nonneg_mapmap (f : R -> R) (m : img) : (forall v, 0 <= f v) -> nonneg (map (map f) m).
Proof. intros Hf. apply Forall_forall. intros row Hrow. apply in_map_iff in Hrow. destruct Hrow as [x [<- _]].
  apply Forall_forall. intros v Hv. apply in_map_iff in Hv. destruct Hv as [y [<- _]]. apply Hf. Qed.
(* the output of the 2-D threshold is always non-negative; that of the N-D one if min_threshold >= 0 *)
Lemma thr2d_nonneg thr mt (m : img) : nonneg (thr2d O thr mt m).
Proof. unfold thr2d. apply nonneg_mapmap. intros v. cbv [nltb nsub nzero nofZ ROps]. unfold Rltb.
  destruct (Rlt_dec _ v); lra. Qed.
Lemma nmax_ge_r a b : b <= nmax O a b.
Proof. unfold nmax. cbv [nltb ROps]. unfold Rltb. destruct (Rlt_dec a b); lra. Qed.
Lemma thrNd_nonneg thr mt (m : img) : 0 <= mt -> nonneg (thrNd O thr mt m).
Proof. intros Hmt. unfold thrNd. apply nonneg_mapmap. intros v.
  pose proof (nmax_ge_r (nmul O thr (max2 O m)) mt) as Ht. set (t := nmax O _ mt) in *.
  cbv [nltb nsub nzero nofZ ROps]. unfold Rltb. destruct (Rlt_dec _ 0); lra. Qed.

(* 2-D path: any threshold; min_threshold scales with the image (in particular min_threshold = 0) *)
Theorem cog2d_scale_gen : forall s thr mt (m : img), 0 < s -> (thr = 0 -> nonneg m \/ tsum O m <> 0) ->
  cog2d O thr (s * mt) (scal s m) = cog2d O thr mt m.
Proof. intros s thr mt m Hs H0. unfold cog2d. cbv [neqb nzero nofZ ROps].
  destruct (Reqb thr 0) eqn:E.
  - apply Reqb_true in E. destruct (H0 E) as [Hn|HT]; [apply cog_scale_nonneg; [lra|exact Hn]|apply cog_scale; [lra|exact HT]].
  - rewrite thr2d_scal by exact Hs. apply cog_scale_nonneg; [lra|apply thr2d_nonneg]. Qed.
Theorem cog2d_scale : forall s thr (m : img), 0 < s -> nonneg m ->
  cog2d O thr 0 (map (map (fun v => s * v)) m) = cog2d O thr 0 m.
Proof. intros s thr m Hs Hn. rewrite <- (Rmult_0_r s) at 1. apply cog2d_scale_gen; [exact Hs|]. intros _. left. exact Hn. Qed.

(* N-D path, per frame *)
Theorem cogNd_scale_gen : forall s thr mt (frames : list img), 0 < s -> 0 <= mt ->
  (thr = 0 -> Forall (fun m => nonneg m \/ tsum O m <> 0) frames) ->
  cogNd O thr (s * mt) (map (scal s) frames) = cogNd O thr mt frames.
Proof. intros s thr mt frames Hs Hmt H0. unfold cogNd. cbv [neqb nzero nofZ ROps].
  destruct (Reqb thr 0) eqn:E; rewrite map_map.
  - apply Reqb_true in E. specialize (H0 E). rewrite Forall_forall in H0. apply map_ext_in. intros m Hm.
    destruct (H0 m Hm) as [Hn|HT]; [apply cog_scale_nonneg; [lra|exact Hn]|apply cog_scale; [lra|exact HT]].
  - apply map_ext. intros m. rewrite thrNd_scal by exact Hs. apply cog_scale_nonneg; [lra|apply thrNd_nonneg; exact Hmt]. Qed.
Theorem cogNd_scale : forall s thr (frames : list img), 0 < s -> Forall nonneg frames ->
  cogNd O thr 0 (map (map (map (fun v => s * v))) frames) = cogNd O thr 0 frames.
Proof. intros s thr frames Hs Hn. rewrite <- (Rmult_0_r s) at 1. apply cogNd_scale_gen; [exact Hs|lra|].
  intros _. eapply Forall_impl; [|exact Hn]. intros m Hm. left. exact Hm. Qed.

(* brightest pixel: the sort is order preserving under positive scaling *)
Lemma insert_scal s x l : 0 < s ->
  insert_sorted O (s * x) (map (fun v => s * v) l) = map (fun v => s * v) (insert_sorted O x l).
Proof. intros Hs. induction l as [|y l IH]; [reflexivity|]. cbn [map insert_sorted]. cbv [nleb ROps]. unfold Rleb.
  destruct (Rle_dec (s * x) (s * y)) as [H|H], (Rle_dec x y) as [H'|H']; try (exfalso; nra).
  - reflexivity.
  - cbn [map]. f_equal. exact IH. Qed.
Lemma sort_scal s l : 0 < s -> sort_asc O (map (fun v => s * v) l) = map (fun v => s * v) (sort_asc O l).
Proof. intros Hs. unfold sort_asc. induction l as [|x l IH]; [reflexivity|]. cbn [map fold_right].
  rewrite IH. apply insert_scal. exact Hs. Qed.
Lemma npxls_scal s thr (m : img) : npxls O thr (scal s m) = npxls O thr m.
Proof. unfold npxls, scal. rewrite map_length. destruct m as [|row m]; cbn [map hd]; [reflexivity|].
  rewrite map_length. reflexivity. Qed.
Lemma nth_scal s k l : nth k (map (fun v => s * v) l) (nzero O) = s * nth k l (nzero O).
Proof. rewrite <- (map_nth (fun v => s * v)). f_equal. rops. lra. Qed.
Lemma bp_frame_scal s thr (m : img) : 0 < s -> bp_frame O thr (scal s m) = scal s (bp_frame O thr m).
Proof. intros Hs. unfold bp_frame. rewrite npxls_scal, concat_scal, sort_scal by exact Hs.
  rewrite map_length, nth_scal.
  set (v := nth _ (sort_asc O (concat m)) (nzero O)). unfold scal. rewrite !map_map. apply map_ext. intros row.
  rewrite !map_map. apply map_ext. intros p. cbv [nltb nsub nzero nofZ ROps]. unfold Rltb.
  destruct (Rlt_dec (s * p - s * v) 0) as [H|H], (Rlt_dec (p - v) 0) as [H'|H']; try lra; exfalso; nra. Qed.
Lemma bp_frame_nonneg thr (m : img) : nonneg (bp_frame O thr m).
Proof. unfold bp_frame. apply nonneg_mapmap. intros p. cbv [nltb nsub nzero nofZ ROps]. unfold Rltb.
  destruct (Rlt_dec _ 0); lra. Qed.
Theorem brightest_pixel_scale : forall s thr (m : img), 0 < s ->
  brightest_pixel2d O thr (map (map (fun v => s * v)) m) = brightest_pixel2d O thr m.
Proof. intros s thr m Hs. unfold brightest_pixel2d. fold (scal s m). rewrite bp_frame_scal by exact Hs.
  apply cog_scale_nonneg; [lra|apply bp_frame_nonneg]. Qed.

(* ------------------------------------------------------------------------------------------ *)
(* P4 (real instance): at threshold 0 the N-D path is the 2-D path frame by frame              *)
(* ------------------------------------------------------------------------------------------ *)
Theorem cogNd_cog2d_thr0 : forall mt (frames : list img),
  cogNd O 0 mt frames = map (cog2d O 0 mt) frames.
Proof. intros mt frames. unfold cogNd, cog2d. cbv [neqb nzero nofZ ROps].
  assert (E : Reqb 0 0 = true) by (apply Reqb_true; reflexivity). rewrite E. reflexivity. Qed.

(* ------------------------------------------------------------------------------------------ *)
(* P6: quad cell                                                                               *)
(* ------------------------------------------------------------------------------------------ *)
Lemma quadcell_val a b c d : quadcell O [[a; b]; [c; d]] = ((b + d) - (a + c), (c + d) - (a + b)).
Proof. unfold quadcell. cbn [map nth]. rewrite !nsum_R_cons, !nsum_R_nil. cbv [nsub ROps]. f_equal; ring. Qed.
Theorem quadcell_mirror : forall a b c d, let m := [[a; b]; [c; d]] in
  fst (quadcell O (map (@rev R) m)) = - fst (quadcell O m) /\ snd (quadcell O (map (@rev R) m)) = snd (quadcell O m) /\
  snd (quadcell O (rev m)) = - snd (quadcell O m) /\ fst (quadcell O (rev m)) = fst (quadcell O m).
Proof. intros a b c d m. subst m. cbn [map rev app]. rewrite !quadcell_val. cbn [fst snd]. repeat split; ring. Qed.

End C15R.

(* ------------------------------------------------------------------------------------------ *)
(* P4: a stack is processed frame by frame -- for every carrier                                *)
(* ------------------------------------------------------------------------------------------ *)
Theorem cogNd_per_frame : forall {T} (O : NumOps T) (d : T * T) thr mt (frames : list (list (list T))),
  cogNd O thr mt frames = map (fun f => hd d (cogNd O thr mt [f])) frames.
Proof. intros T O d thr mt frames. unfold cogNd. destruct (neqb O thr (nzero O)); apply map_ext; reflexivity. Qed.
Theorem brightest_pixel3d_per_frame : forall {T} (O : NumOps T) thr (frames : list (list (list T))),
  brightest_pixel3d O thr frames = map (brightest_pixel2d O thr) frames.
Proof. reflexivity. Qed.
Theorem cogNd_app : forall {T} (O : NumOps T) thr mt (f1 f2 : list (list (list T))),
  cogNd O thr mt (f1 ++ f2) = cogNd O thr mt f1 ++ cogNd O thr mt f2.
Proof. intros. unfold cogNd. destruct (neqb O thr (nzero O)); apply map_app. Qed.

(* ------------------------------------------------------------------------------------------ *)
(* binary64 witnesses (executed by the VM on the PrimFloat instance)                           *)
(* ------------------------------------------------------------------------------------------ *)
From Coq Require Import PrimFloat.
Require Import AOV.base.NumF AOV.base.FloatFun.
Module C15F.
Local Open Scope float_scope.
Definition OF := FOps [].
Local Notation fimg := (list (list float)).

(* P5: with a threshold, the 2-D path (subtracts the threshold) and the N-D path (only zeroes below it)
   give different centroids for the same frame: x = 8/6 against 17/12 *)
Definition f5 : fimg := [[0;1;2];[1;5;3];[0;2;1]].
Theorem cog_frame_stack_disagree :
  fclose 1e-3 1 (fst (cog2d OF 0.3 0 f5)) (fst (hd (0, 0) (cogNd OF 0.3 0 [f5]))) = false.
Proof. vm_compute. reflexivity. Qed.
(* the two values, to 1e-12 *)
Theorem cog_frame_stack_values :
  (fclose 1e-12 1 (fst (cog2d OF 0.3 0 f5)) (8 / 6) && fclose 1e-12 1 (fst (hd (0, 0) (cogNd OF 0.3 0 [f5]))) (17 / 12))%bool = true.
Proof. vm_compute. reflexivity. Qed.
(* ... and the y coordinates agree (both 1: the frame is symmetric in y after thresholding) *)
Theorem cog_frame_stack_y_agree :
  fclose 1e-12 1 (snd (cog2d OF 0.3 0 f5)) (snd (hd (0, 0) (cogNd OF 0.3 0 [f5]))) = true.
Proof. vm_compute. reflexivity. Qed.
(* without threshold they agree, bit for bit *)
Theorem cog_frame_stack_agree_thr0 :
  (let a := cog2d OF 0 0 f5 in let b := hd (0, 0) (cogNd OF 0 0 [f5]) in
   (fst a =? fst b) && (snd a =? snd b) && fclose 1e-12 1 (fst a) (fst b) && fclose 1e-12 1 (snd a) (snd b))%bool = true.
Proof. vm_compute. reflexivity. Qed.

(* P7: correlation centroid of a centred 9x9 spot against itself.  The centre pixel is 4; paddings 1 and 3
   return 4, padding 2 returns 4.5: the offset n/2*(padding-1) = 4.5 is subtracted from a peak at 18/2 = 9. *)
Definition prof9 : list float := [0;0;1;4;8;4;1;0;0].
Definition spot9 : fimg := map (fun a => map (fun b => a * b) prof9) prof9.
(* (vm_cast_no_check: the VM evaluation is done once, by the kernel at Qed, instead of twice) *)
Definition both_close (c : float * float) (v : float) : bool := fclose 1e-6 1 (fst c) v && fclose 1e-6 1 (snd c) v.
Theorem corr_centroid_pad2_half_pixel :
  (let c := correlation_centroid1 OF spot9 spot9 0.3 2 in
   both_close c 4.5 && negb (fclose 1e-6 1 (fst c) 4) && negb (fclose 1e-6 1 (snd c) 4))%bool = true.
Proof. vm_cast_no_check (eq_refl true). Qed.
Theorem corr_centroid_pad1 : both_close (correlation_centroid1 OF spot9 spot9 0.3 1) 4 = true.
Proof. vm_cast_no_check (eq_refl true). Qed.
Theorem corr_centroid_pad3 : both_close (correlation_centroid1 OF spot9 spot9 0.3 3) 4 = true.
Proof. vm_cast_no_check (eq_refl true). Qed.
(* the plain centre of gravity of the spot itself is the centre pixel *)
Theorem spot9_cog : both_close (cog_plain OF spot9) 4 = true.
Proof. vm_cast_no_check (eq_refl true). Qed.
End C15F.

Print Assumptions cog_single_pixel.
Print Assumptions cog_scale.
Print Assumptions cog_scale_nonneg.
Print Assumptions cog2d_scale_gen.
Print Assumptions cog2d_scale.
Print Assumptions cogNd_scale_gen.
Print Assumptions cogNd_scale.
Print Assumptions brightest_pixel_scale.
Print Assumptions cog_shift_general.
Print Assumptions cog_shift.
Print Assumptions cogNd_per_frame.
Print Assumptions brightest_pixel3d_per_frame.
Print Assumptions cogNd_cog2d_thr0.
Print Assumptions quadcell_mirror.
Print Assumptions C15F.cog_frame_stack_disagree.
Print Assumptions C15F.cog_frame_stack_agree_thr0.
Print Assumptions C15F.corr_centroid_pad2_half_pixel.
Print Assumptions C15F.corr_centroid_pad1.
Print Assumptions C15F.corr_centroid_pad3.
