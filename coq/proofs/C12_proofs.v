(* C12: Zernike modes -- Noll indexing, orthonormality, gamma (derivative) matrices.  Top-level file.
   Part A (Noll indexing, all j, integer arithmetic)     : C12_A.v
   Part B (orthonormality, exact in Q, bounded)          : C12_B1.v (radial inner product and its check), C12_B.v
   Part C (gamma matrices = gradients, exact, bounded)   : C12_C.v
   Real-valued corollaries (square roots put back in,
   derivatives as derivable_pt_lim, polar form of P_j)   : C12_R.v *)
From Coq Require Import ZArith QArith Reals List.
Require Export AOV.model.Zernike.
Require Export AOV.proofs.C12_A AOV.proofs.C12_B1 AOV.proofs.C12_B AOV.proofs.C12_C AOV.proofs.C12_R.

(* Part A *)
Check zern_index_valid. Check noll_zern. Check zern_noll. Check zern_index_parity. Check zern_index_order.
Check gam_nm_noll_check. Check gam_nm_noll_bounded. Check gam_nm_length_bounded.
(* Part B *)
Check rad_orthogonal_bounded. Check zern_core_spec. Check noll_orthonormal_bounded.
Check noll_orthonormal_R_bounded.
(* Part C *)
Check gamma_x_check. Check gamma_y_check. Check gamma_x_bounded. Check gamma_y_bounded.
Check gamma_ratio_R. Check peq_ev. Check pev_deriv_x. Check pev_deriv_y.
Check zpoly_nm_ev. Check zpoly_nm_polar.
Check gamma_x_R_bounded. Check gamma_y_R_bounded.

Print Assumptions noll_zern.
Print Assumptions zern_noll.
Print Assumptions noll_orthonormal_bounded.
Print Assumptions gamma_x_bounded.
(* further ones *)
Print Assumptions zern_index_order.
Print Assumptions rad_orthogonal_bounded.
Print Assumptions gamma_y_bounded.
Print Assumptions gamma_x_R_bounded.   (* the classical real-number axioms of the standard library only *)
