(* C17: conversions are mutually inverse and scale right -- lemmas about the GENERATED definitions
   (coq/gen/Gen_atmos.v, Gen_astro.v), real-number reading. *)
From Coq Require Import Reals Lra ZArith List Psatz String.
From Interval Require Import Tactic.
Require Import AOV.base.Num AOV.base.NumR AOV.base.RpowTac AOV.gen.Gen_atmos AOV.gen.Gen_astro.
Import ListNotations.
Local Open Scope R_scope.

Section C17.
Variables (G : R -> R) (K : R -> R -> R).
Let O := ROps G K.

Ltac unf := unfold photons_per_band, photons_per_mag, cn2_to_seeing, seeing_to_cn2;
  unfold cn2_to_r0, r0_to_cn2, r0_to_seeing, seeing_to_r0,
  slope_variance_from_r0, r0_from_slopes, magnitude_to_flux, flux_to_magnitude,
  coherenceTime, isoplanaticAngle, rytov_variance, nmean, O; rops.

(* ---- inverse pairs ---- *)
Lemma cn2_r0_inv cn2 lam : 0 < cn2 -> 0 < lam -> r0_to_cn2 O (cn2_to_r0 O cn2 lam) lam = cn2.
Proof. intros; unf. lnify. Qed.
Lemma r0_cn2_inv r0 lam : 0 < r0 -> 0 < lam -> cn2_to_r0 O (r0_to_cn2 O r0 lam) lam = r0.
Proof. intros; unf. lnify. Qed.
Lemma r0_seeing_inv r0 lam : 0 < r0 -> 0 < lam -> seeing_to_r0 O (r0_to_seeing O r0 lam) lam = r0.
Proof. intros; unf. fieldp. Qed.
Lemma seeing_r0_inv s lam : 0 < s -> 0 < lam -> r0_to_seeing O (seeing_to_r0 O s lam) lam = s.
Proof. intros; unf. fieldp. Qed.
Lemma cn2_seeing_inv cn2 lam : 0 < cn2 -> 0 < lam -> seeing_to_cn2 O (cn2_to_seeing O cn2 lam) lam = cn2.
Proof. intros; unf. lnify. Qed.
Lemma seeing_cn2_inv s lam : 0 < s -> 0 < lam -> cn2_to_seeing O (seeing_to_cn2 O s lam) lam = s.
Proof. intros; unf. lnify. Qed.

(* ---- composites are the compositions ---- *)
Lemma cn2_to_seeing_comp cn2 lam : cn2_to_seeing O cn2 lam = r0_to_seeing O (cn2_to_r0 O cn2 lam) lam.
Proof. reflexivity. Qed.
Lemma seeing_to_cn2_comp s lam : seeing_to_cn2 O s lam = r0_to_cn2 O (seeing_to_r0 O s lam) lam.
Proof. reflexivity. Qed.

(* ---- scaling laws ---- *)
Lemma r0_scales_lambda cn2 lam s : 0 < cn2 -> 0 < lam -> 0 < s ->
  cn2_to_r0 O cn2 (s * lam) = Rpower s (6/5) * cn2_to_r0 O cn2 lam.
Proof. intros; unf. lnify. Qed.
Lemma r0_scales_cn2 cn2 lam s : 0 < cn2 -> 0 < lam -> 0 < s ->
  cn2_to_r0 O (s * cn2) lam = Rpower s (-3/5) * cn2_to_r0 O cn2 lam.
Proof. intros; unf. lnify. Qed.
Lemma seeing_scales_lambda cn2 lam s : 0 < cn2 -> 0 < lam -> 0 < s ->
  cn2_to_seeing O cn2 (s * lam) = Rpower s (-1/5) * cn2_to_seeing O cn2 lam.
Proof. intros; unf. lnify. Qed.
Lemma slopevar_scales_r0 r0 w d s : 0 < r0 -> 0 < w -> 0 < d -> 0 < s ->
  slope_variance_from_r0 O (s * r0) w d = Rpower s (-5/3) * slope_variance_from_r0 O r0 w d.
Proof. intros; unf. lnify. Qed.

(* ---- magnitudes and photons ---- *)
Lemma mag_flux_inv m e : 0 < ent1 e -> 0 < ent2 e ->
  flux_to_magnitude O (magnitude_to_flux O m e) e = m.
Proof. intros; unf. ln_push. field. apply ln_10_neq_0. Qed.
Lemma flux_mag_inv f e : 0 < f -> 0 < ent1 e -> 0 < ent2 e ->
  magnitude_to_flux O (flux_to_magnitude O f e) e = f.
Proof. intros; unf. lnify10. Qed.
Lemma five_mag_factor_100 m e : 0 < ent1 e -> 0 < ent2 e ->
  magnitude_to_flux O (m + 5) e = magnitude_to_flux O m e / 100.
Proof. intros; unf. replace 100 with (10 * 10) by lra. lnify10. Qed.
Lemma flux_table_positive :
  Forall (fun be => 0 < ent0 (snd be) /\ 0 < ent1 (snd be) /\ 0 < ent2 (snd be)) (FLUX_DICTIONARY O).
Proof. unfold FLUX_DICTIONARY, O, ent0, ent1, ent2; rops.
  repeat (apply Forall_cons; [cbn [fst snd]; repeat split; lra|]). apply Forall_nil. Qed.
Lemma flux_table_twelve : List.length (FLUX_DICTIONARY O) = 12%nat.
Proof. reflexivity. Qed.
Lemma mag_flux_inv_all_bands : forall be m f, In be (FLUX_DICTIONARY O) -> 0 < f ->
  flux_to_magnitude O (magnitude_to_flux O m (snd be)) (snd be) = m /\
  magnitude_to_flux O (flux_to_magnitude O f (snd be)) (snd be) = f.
Proof. intros be m f Hin Hf. pose proof flux_table_positive as HP.
  rewrite Forall_forall in HP. destruct (HP _ Hin) as (_ & H1 & H2).
  split; [apply mag_flux_inv|apply flux_mag_inv]; assumption. Qed.
Lemma photons_band_linear_time m mask p t e s :
  photons_per_band O m mask p (s * t) e = s * photons_per_band O m mask p t e.
Proof. unf. ring. Qed.
Lemma photons_band_area m mask p t e :
  photons_per_band O m mask p t e = magnitude_to_flux O m e * t * (nsum O mask * (p * p)).
Proof. unf. ring. Qed.
Lemma photons_mag_linear_time m mask p w t s :
  photons_per_mag O m mask p w (s * t) = s * photons_per_mag O m mask p w t.
Proof. unf. ring. Qed.
Lemma photons_mag_area m mask p w t :
  photons_per_mag O m mask p w t
  = 1000 * Rpower 10 (- m / (25/10)) * w * 10 * t * (nsum O mask * (p * p) * (100 * 100)).
Proof. unf. ring. Qed.

(* ---- slope variance <-> r0 ---- *)
Lemma slopevar_r0_inv r0 w d n : 0 < r0 -> 0 < w -> 0 < d -> (0 < n)%nat ->
  r0_from_slopes O (repeat (slope_variance_from_r0 O r0 w d) n) w d = r0.
Proof. intros Hr Hw Hd Hn. unfold r0_from_slopes, nmean.
  rewrite !map_repeat', repeat_length. fold O.
  unfold O at 1 2. rewrite nsum_R_repeat. rops. rewrite <- INR_IZR_INZ.
  assert (0 < INR n) by (apply lt_0_INR; assumption).
  match goal with |- INR n * ?x / INR n = _ => replace (INR n * x / INR n) with x by (field; lra) end.
  unf. lnify. Qed.

(* ---- single layer ---- *)
Definition kappa : R := (581/10000) * Rpower (423/1000 * ((2 * PI) * (2 * PI))) (3/5).
Lemma kappa_is_0314 : Rabs (kappa / (314/1000) - 1) <= 3/1000.
Proof. unfold kappa. interval with (i_prec 40). Qed.
Lemma coherence_single cn2 v lam : 0 < cn2 -> 0 < v -> 0 < lam ->
  coherenceTime O [cn2] [v] lam = kappa * cn2_to_r0 O cn2 lam / v.
Proof. intros. unfold coherenceTime, O. cbn [map map2].
  rewrite nsum_R_cons, nsum_R_nil, Rplus_0_r. unfold kappa. unf. lnify. Qed.
Lemma isoplanatic_single cn2 h lam : 0 < cn2 -> 0 < h -> 0 < lam ->
  isoplanaticAngle O [cn2] [h] lam = kappa * cn2_to_r0 O cn2 lam / h * (180 * 3600 / PI).
Proof. intros. unfold isoplanaticAngle, O. cbn [map map2].
  rewrite nsum_R_cons, nsum_R_nil, Rplus_0_r. unfold kappa. unf. lnify. Qed.
End C17.
