(* C06 -- isolation and reproducibility of seeded screen objects, for every history: proofs over model/SeededObjs.v *)
From Coq Require Import List ZArith Bool Arith Lia.
Require Import AOV.model.SeededObjs.
Import ListNotations.

Section Proofs.
  Variables G V S P : Type.
  Variable mk : Z -> G.
  Variable draw : G -> nat -> G * V.
  Variables n_init n_row n_ft : P -> nat.
  Variable init_scr : P -> V -> S.
  Variable row : P -> S -> V -> S.
  Variable ft : P -> V -> S.

  Notation obj := (obj G S P).
  Notation world := (world G S P).
  Notation op := (op P).
  Notation step := (step G V S P mk draw n_init n_row n_ft init_scr row ft).
  Notation run := (run G V S P mk draw n_init n_row n_ft init_scr row ft).
  Notation trace := (trace G V S P mk draw n_init n_row n_ft init_scr row ft).
  Notation ft_trace := (ft_trace G V S P mk draw n_init n_row n_ft init_scr row ft).
  Notation make := (make G V S P mk draw n_init init_scr).
  Notation grow := (grow G V S P draw n_row row).
  Notation lookup := (lookup G S P).
  Notation update := (update G S P).

  (* what one object does, seen from the object alone *)
  Inductive okind := KNew (p : P) (seed : Z) | KAdd | KReinit | KRead.
  Definition kind (o : op) : option okind :=
    match o with New _ p s => Some (KNew p s) | AddRow _ => Some KAdd | Reinit _ => Some KReinit | Read _ => Some KRead | _ => None end.
  Fixpoint kinds (id : nat) (ops : list op) : list okind :=
    match ops with
    | [] => []
    | o :: r => if target P id o then match kind o with Some k => k :: kinds id r | None => kinds id r end else kinds id r
    end.
  Definition ostep (x : option obj) (k : okind) : option obj * option S :=
    match k, x with
    | KNew p s, _ => let ob := make p s in (Some ob, Some (o_scr G S P ob))
    | KAdd, Some ob => let ob' := grow ob in (Some ob', Some (o_scr G S P ob'))
    | KReinit, Some ob => let ob' := make (o_par G S P ob) (o_seed G S P ob) in (Some ob', Some (o_scr G S P ob'))
    | KRead, Some ob => (x, Some (o_scr G S P ob))
    | _, None => (None, None)
    end.
  Fixpoint otrace (x : option obj) (ks : list okind) : list (option S) :=
    match ks with [] => [] | k :: r => let xs := ostep x k in snd xs :: otrace (fst xs) r end.
  Fixpoint ofinal (x : option obj) (ks : list okind) : option obj :=
    match ks with [] => x | k :: r => ofinal (fst (ostep x k)) r end.

  Lemma lookup_update_same id o l : lookup id (update id o l) = Some o.
  Proof.
    induction l as [|[k x] r IH]; simpl.
    - now rewrite Nat.eqb_refl.
    - destruct (Nat.eqb k id) eqn:E; simpl; rewrite E; auto.
  Qed.
  Lemma lookup_update_other id id' o l : id' <> id -> lookup id' (update id o l) = lookup id' l.
  Proof.
    intros Hne. induction l as [|[k x] r IH]; simpl.
    - destruct (Nat.eqb id id') eqn:E; auto. apply Nat.eqb_eq in E. congruence.
    - destruct (Nat.eqb k id) eqn:E; simpl.
      + apply Nat.eqb_eq in E. subst k. destruct (Nat.eqb id id') eqn:E2; auto. apply Nat.eqb_eq in E2. congruence.
      + destruct (Nat.eqb k id'); auto.
  Qed.

  Lemma step_other id w o : target P id o = false -> lookup id (objs G S P (fst (step w o))) = lookup id (objs G S P w).
  Proof.
    destruct o as [k p s|k|k|k|p s|z|n]; simpl; intros Ht; auto.
    - apply lookup_update_other. intros ->. now rewrite Nat.eqb_refl in Ht.
    - destruct (lookup k (objs G S P w)); simpl; auto. apply lookup_update_other. intros ->. now rewrite Nat.eqb_refl in Ht.
    - destruct (lookup k (objs G S P w)); simpl; auto. apply lookup_update_other. intros ->. now rewrite Nat.eqb_refl in Ht.
  Qed.

  Lemma step_own id w o k : target P id o = true -> kind o = Some k ->
    lookup id (objs G S P (fst (step w o))) = fst (ostep (lookup id (objs G S P w)) k) /\ snd (step w o) = snd (ostep (lookup id (objs G S P w)) k).
  Proof.
    destruct o as [j p s|j|j|j|p s|z|n]; simpl; intros Ht Hk; try discriminate;
      apply Nat.eqb_eq in Ht; subst j; inversion Hk; subst k; simpl.
    - split; auto. apply lookup_update_same.
    - destruct (lookup id (objs G S P w)) eqn:E; simpl; [split; auto; apply lookup_update_same | rewrite E; auto].
    - destruct (lookup id (objs G S P w)) eqn:E; simpl; [split; auto; apply lookup_update_same | rewrite E; auto].
    - destruct (lookup id (objs G S P w)) eqn:E; simpl; auto.
  Qed.

  Lemma target_kind id o : target P id o = true -> exists k, kind o = Some k.
  Proof. destruct o; simpl; intros; try discriminate; eauto. Qed.

  (* the outputs of an object are a function of that object's own history alone *)
  Theorem own_history : forall ops w id, trace id w ops = otrace (lookup id (objs G S P w)) (kinds id ops).
  Proof.
    induction ops as [|o r IH]; intros w id; [reflexivity|].
    cbn [SeededObjs.trace kinds]. destruct (target P id o) eqn:Ht.
    - destruct (target_kind id o Ht) as [k Hk]. rewrite Hk. destruct (step_own id w o k Ht Hk) as [H1 H2].
      cbn [otrace]. rewrite <- H2. f_equal. rewrite IH. now rewrite H1.
    - rewrite IH. now rewrite step_other.
  Qed.

  Theorem own_state : forall ops w id, lookup id (objs G S P (fst (run w ops))) = ofinal (lookup id (objs G S P w)) (kinds id ops).
  Proof.
    induction ops as [|o r IH]; intros w id; [reflexivity|].
    cbn [SeededObjs.run kinds fst]. destruct (target P id o) eqn:Ht.
    - destruct (target_kind id o Ht) as [k Hk]. rewrite Hk. destruct (step_own id w o k Ht Hk) as [H1 H2].
      cbn [ofinal]. rewrite IH. now rewrite H1.
    - rewrite IH. now rewrite step_other.
  Qed.

  (* irrespective of what is interleaved, and of the rest of the world *)
  Theorem interleaving_irrelevant : forall ops1 ops2 w1 w2 a b,
    lookup a (objs G S P w1) = lookup b (objs G S P w2) -> kinds a ops1 = kinds b ops2 -> trace a w1 ops1 = trace b w2 ops2.
  Proof. intros. rewrite !own_history. congruence. Qed.

  (* parameters and seed of an object never change except by construction *)
  Definition no_new (ks : list okind) : Prop := forall p s, ~ In (KNew p s) ks.
  Lemma ofinal_keeps ks : no_new ks -> forall ob, exists ob', ofinal (Some ob) ks = Some ob' /\ o_par G S P ob' = o_par G S P ob /\ o_seed G S P ob' = o_seed G S P ob.
  Proof.
    induction ks as [|k r IH]; intros Hn ob; [exists ob; auto|].
    assert (Hr : no_new r) by (intros p s Hi; apply (Hn p s); now right).
    destruct k as [p s| | |]; cbn [ofinal ostep fst].
    - exfalso. apply (Hn p s). now left.
    - destruct (IH Hr (grow ob)) as [ob' [H1 [H2 H3]]]. exists ob'. auto.
    - destruct (IH Hr (make (o_par G S P ob) (o_seed G S P ob))) as [ob' [H1 [H2 H3]]]. exists ob'. auto.
    - apply IH; auto.
  Qed.

  Lemma otrace_app x ks1 ks2 : otrace x (ks1 ++ ks2) = otrace x ks1 ++ otrace (ofinal x ks1) ks2.
  Proof. revert x; induction ks1 as [|k r IH]; intros x; cbn [app otrace ofinal]; [reflexivity|]. now rewrite IH. Qed.

  (* make_initial_screen() again restarts from the seed: what follows equals what followed the construction *)
  Theorem reinit_restarts : forall x p s ks1 ks2, no_new ks1 ->
    otrace x (KNew p s :: ks1 ++ KReinit :: ks2) = otrace x (KNew p s :: ks1) ++ otrace None (KNew p s :: ks2).
  Proof.
    intros x p s ks1 ks2 Hn. change (KNew p s :: ks1 ++ KReinit :: ks2) with ((KNew p s :: ks1) ++ KReinit :: ks2).
    rewrite otrace_app. f_equal. cbn [ofinal ostep fst].
    destruct (ofinal_keeps ks1 Hn (make p s)) as [ob' [H1 [H2 H3]]]. rewrite H1.
    cbn [otrace ostep fst snd]. rewrite H2, H3. reflexivity.
  Qed.

  (* the process-global generator is moved by the global operations only *)
  Lemma step_glob_other w o : is_global P o = false -> glob G S P (fst (step w o)) = glob G S P w.
  Proof.
    destruct o as [k p s|k|k|k|p s|z|n]; simpl; intros Hg; try discriminate; auto;
      destruct (lookup k (objs G S P w)); reflexivity.
  Qed.
  Lemma step_glob_own w w' o : is_global P o = true -> glob G S P w = glob G S P w' ->
    glob G S P (fst (step w o)) = glob G S P (fst (step w' o)).
  Proof. destruct o; simpl; intros Hg He; try discriminate; congruence. Qed.
  Theorem global_cell_separate : forall ops w w', glob G S P w = glob G S P w' ->
    glob G S P (fst (run w ops)) = glob G S P (fst (run w' (filter (is_global P) ops))).
  Proof.
    induction ops as [|o r IH]; intros w w' He; [exact He|].
    cbn [SeededObjs.run filter fst]. destruct (is_global P o) eqn:Hg.
    - cbn [SeededObjs.run fst]. apply IH. now apply step_glob_own.
    - apply IH. now rewrite step_glob_other.
  Qed.

  (* the seeded FFT screens are functions of (parameters, seed) alone: their outputs ignore the world altogether *)
  Definition is_ft (o : op) : bool := match o with Ft _ _ => true | _ => false end.
  Theorem ft_calls_stateless : forall ops w w', ft_trace w ops = ft_trace w' (filter is_ft ops).
  Proof.
    induction ops as [|o r IH]; intros w w'; [reflexivity|].
    destruct o as [k p s|k|k|k|p s|z|n]; cbn [SeededObjs.ft_trace filter is_ft]; try apply IH.
    cbn [SeededObjs.ft_trace]. f_equal. apply IH.
  Qed.
End Proofs.
