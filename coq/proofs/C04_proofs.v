(* C04: the infinite phase screen of model/InfScreen.v at the real instance: A and B matrices,
   the joint covariance identity, (affine-)linearity of the row synthesis, the shift law of the
   Fried variant, covariance blocks, separations, and find_allowed_size. *)
From Coq Require Import ZArith Reals Bool List Arith Lra Lia.
Require Import AOV.base.Num AOV.base.NumR AOV.base.RpowTac AOV.base.Cplx AOV.model.Mat
               AOV.model.InfScreen AOV.proofs.Dft_proofs AOV.proofs.Mat_proofs.
Import ListNotations.

(* ------------------------------------------------------------------------------------------ *)
(* find_allowed_size: pure nat                                                                 *)
(* ------------------------------------------------------------------------------------------ *)

Lemma fas_loop_spec nx : forall f n,
  nx <= 2 ^ (n + f) + 1 -> (n = 0 \/ 2 ^ (n - 1) + 1 < nx) ->
  nx <= 2 ^ (fas_loop f n nx) + 1 /\ n <= fas_loop f n nx /\
  (0 < fas_loop f n nx -> 2 ^ (fas_loop f n nx - 1) + 1 < nx).
Proof.
  induction f as [|f IH]; intros n H1 H2; cbn [fas_loop].
  - rewrite Nat.add_0_r in H1. split; [exact H1|]. split; [lia|]. intros Hk.
    destruct H2 as [H2|H2]; [lia | exact H2].
  - destruct (Nat.ltb_spec (2 ^ n + 1) nx) as [Hlt|Hge].
    + destruct (IH (S n)) as [Ha [Hb Hc]].
      * replace (S n + f) with (n + S f) by lia. exact H1.
      * right. replace (S n - 1) with n by lia. exact Hlt.
      * split; [exact Ha|]. split; [lia | exact Hc].
    + split; [exact Hge|]. split; [lia|]. intros Hk.
      destruct H2 as [H2|H2]; [lia | exact H2].
Qed.

Theorem C04_allowed_size : forall nx, 1 <= nx ->
  exists k, find_allowed_size nx = 2 ^ k + 1 /\ nx <= 2 ^ k + 1 /\ (0 < k -> 2 ^ (k - 1) + 1 < nx).
Proof.
  intros nx _. exists (fas_loop nx 0 nx). split; [reflexivity|].
  destruct (fas_loop_spec nx nx 0) as [Ha [_ Hc]].
  - cbn [Nat.add]. pose proof (Nat.pow_gt_lin_r 2 nx). lia.
  - left. reflexivity.
  - split; assumption.
Qed.

(* the result is the least admissible size: every smaller 2^j+1 is too small *)
Theorem C04_allowed_size_least : forall nx j, 1 <= nx -> nx <= 2 ^ j + 1 ->
  find_allowed_size nx <= 2 ^ j + 1.
Proof.
  intros nx j Hnx Hj. destruct (C04_allowed_size nx Hnx) as [k [Hk [_ Hlow]]]. rewrite Hk.
  destruct (Nat.le_gt_cases k j) as [Hkj|Hkj].
  - pose proof (Nat.pow_le_mono_r 2 k j). lia.
  - assert (Hk0 : 0 < k) by lia. specialize (Hlow Hk0).
    pose proof (Nat.pow_le_mono_r 2 j (k - 1)). lia.
Qed.

Local Open Scope R_scope.

Section C04.
Variables (G : R -> R) (K : R -> R -> R).
Local Notation O := (ROps G K).
Local Notation mat := (list (list R)).

(* ------------------------------------------------------------------------------------------ *)
(* A matrix                                                                                    *)
(* ------------------------------------------------------------------------------------------ *)

Theorem C04_A : forall (ns nx : nat) (Czz Cxz Inv : mat),
  (0 < ns)%nat -> wf_mat ns ns Czz -> wf_mat nx ns Cxz -> wf_mat ns ns Inv ->
  mmul O Inv Czz = mident O ns ->
  mmul O (A_mat O Cxz Inv) Czz = Cxz.
Proof.
  intros ns nx Czz Cxz Inv Hns HCzz HCxz HInv Hinv. unfold A_mat.
  rewrite (mmul_assoc G K nx ns ns ns Cxz Inv Czz) by assumption.
  rewrite Hinv. apply (mmul_ident_r G K nx ns); assumption.
Qed.

Lemma wf_A_mat ns nx (Cxz Inv : mat) :
  (0 < ns)%nat -> wf_mat nx ns Cxz -> wf_mat ns ns Inv -> wf_mat nx ns (A_mat O Cxz Inv).
Proof. intros. unfold A_mat. apply (wf_mmul G K nx ns ns); assumption. Qed.

(* ------------------------------------------------------------------------------------------ *)
(* B matrix                                                                                    *)
(* ------------------------------------------------------------------------------------------ *)

Lemma sqrt_sq_list W : Forall (fun w => 0 <= w) W -> map2 Rmult (map sqrt W) (map sqrt W) = W.
Proof.
  induction 1 as [|w W Hw HW IH]; [reflexivity|]. cbn [map map2]. rewrite IH, sqrt_sqrt by exact Hw.
  reflexivity.
Qed.

Lemma wf_B_mat nx (u : mat) W :
  (0 < nx)%nat -> wf_mat nx nx u -> length W = nx -> wf_mat nx nx (B_mat O u W).
Proof.
  intros Hnx Hu HW. unfold B_mat. apply (wf_mmul G K nx nx nx); try assumption.
  apply wf_mdiag. rewrite map_length. exact HW.
Qed.

Theorem C04_B : forall (nx : nat) (u : mat) (W : list R) (M : mat),
  (0 < nx)%nat -> wf_mat nx nx u -> length W = nx -> Forall (fun w => 0 <= w) W ->
  mmul O (mmul O u (mdiag O W)) (transpose u) = M ->
  mmul O (B_mat O u W) (transpose (B_mat O u W)) = M.
Proof.
  intros nx u W M Hnx Hu HW Hpos HM. unfold B_mat.
  set (D := mdiag O (map (nsqrt O) W)).
  assert (HlD : length (map (nsqrt O) W) = nx) by (rewrite map_length; exact HW).
  assert (HD : wf_mat nx nx D) by (apply wf_mdiag; exact HlD).
  pose proof (wf_transpose nx nx u Hu Hnx) as Hut.
  rewrite (transpose_mmul G K nx nx nx u D) by assumption.
  replace (transpose D) with D by (symmetry; apply (msym_mdiag G K)).
  rewrite (mmul_assoc G K nx nx nx nx u D (mmul O D (transpose u)))
    by (try assumption; apply (wf_mmul G K nx nx nx); assumption).
  rewrite <- (mmul_assoc G K nx nx nx nx D D (transpose u)) by assumption.
  assert (HDD : mmul O D D = mdiag O W).
  { unfold D. rewrite (mdiag_mmul G K) by (try reflexivity; rewrite HlD; exact Hnx).
    change (nsqrt O) with sqrt. rewrite sqrt_sq_list by exact Hpos. reflexivity. }
  rewrite HDD.
  rewrite <- (mmul_assoc G K nx nx nx nx u (mdiag O W) (transpose u))
    by (try assumption; apply wf_mdiag; exact HW).
  exact HM.
Qed.

(* ------------------------------------------------------------------------------------------ *)
(* joint covariance of (stencil, new row)                                                      *)
(* ------------------------------------------------------------------------------------------ *)

(* A Czz A^T = A Czx, needing only a left inverse of the symmetric Czz *)
Lemma A_Czz_At ns nx (Czz Cxz Czx Inv : mat) :
  (0 < ns)%nat -> (0 < nx)%nat ->
  wf_mat ns ns Czz -> wf_mat nx ns Cxz -> wf_mat ns nx Czx -> wf_mat ns ns Inv ->
  mmul O Inv Czz = mident O ns -> msym Czz -> transpose Cxz = Czx ->
  mmul O (mmul O (A_mat O Cxz Inv) Czz) (transpose (A_mat O Cxz Inv)) = mmul O (A_mat O Cxz Inv) Czx.
Proof.
  intros Hns Hnx HCzz HCxz HCzx HInv Hinv Hsym Ht.
  set (A := A_mat O Cxz Inv).
  pose proof (wf_A_mat ns nx Cxz Inv Hns HCxz HInv) as HA. fold A in HA.
  pose proof (wf_transpose nx ns A HA Hnx) as HAt.
  pose proof (C04_A ns nx Czz Cxz Inv Hns HCzz HCxz HInv Hinv) as HACzz. fold A in HACzz.
  pose proof (wf_mmul G K nx ns ns A Czz HA HCzz Hns) as HwACzz.
  set (S := mmul O (mmul O A Czz) (transpose A)).
  (* S is symmetric *)
  assert (HS : transpose S = S).
  { unfold S. rewrite (transpose_mmul G K nx ns nx (mmul O A Czz) (transpose A)) by assumption.
    rewrite (transpose_transpose nx ns A) by assumption.
    rewrite (transpose_mmul G K nx ns ns A Czz) by assumption.
    unfold msym in Hsym. rewrite Hsym.
    symmetry. apply (mmul_assoc G K nx ns ns nx A Czz (transpose A)); assumption. }
  (* and S = Cxz A^T, whose transpose is A Czx *)
  rewrite <- HS. unfold S. rewrite HACzz.
  rewrite (transpose_mmul G K nx ns nx Cxz (transpose A)) by assumption.
  rewrite (transpose_transpose nx ns A) by assumption. rewrite Ht. reflexivity.
Qed.

Theorem C04_joint : forall (ns nx : nat) (Czz Cxz Czx Cxx Inv u : mat) (W : list R) (M : mat),
  (0 < ns)%nat -> (0 < nx)%nat ->
  wf_mat ns ns Czz -> wf_mat nx ns Cxz -> wf_mat ns nx Czx -> wf_mat nx nx Cxx -> wf_mat ns ns Inv ->
  mmul O Inv Czz = mident O ns ->
  wf_mat nx nx u -> length W = nx -> Forall (fun w => 0 <= w) W ->
  mmul O (mmul O u (mdiag O W)) (transpose u) = M ->
  msym Czz -> transpose Cxz = Czx ->
  M = BBt O Cxx (A_mat O Cxz Inv) Czx ->
  let A := A_mat O Cxz Inv in
  let B := B_mat O u W in
  madd O (mmul O (mmul O A Czz) (transpose A)) (mmul O B (transpose B)) = Cxx.
Proof.
  intros ns nx Czz Cxz Czx Cxx Inv u W M Hns Hnx HCzz HCxz HCzx HCxx HInv Hinv Hu HW Hpos HM
         Hsym Ht HBBt A B.
  unfold A, B.
  rewrite (C04_B nx u W M) by assumption.
  rewrite (A_Czz_At ns nx Czz Cxz Czx Inv) by assumption.
  rewrite HBBt. unfold BBt.
  apply (madd_msub_cancel G K nx nx); [|exact HCxx].
  apply (wf_mmul G K nx ns nx); try assumption. apply wf_A_mat; assumption.
Qed.

(* ------------------------------------------------------------------------------------------ *)
(* row synthesis                                                                               *)
(* ------------------------------------------------------------------------------------------ *)

Lemma vadd_swap4 n (a b c d : list R) :
  length a = n -> length b = n -> length c = n -> length d = n ->
  vadd O (vadd O a b) (vadd O c d) = vadd O (vadd O a c) (vadd O b d).
Proof.
  intros Ha Hb Hc Hd.
  apply (vec_ext n); try (rewrite !(vadd_length G K); rewrite ?(vadd_length G K); lia).
  intros i Hi. rewrite !(nth_vadd G K) by (rewrite ?(vadd_length G K); lia). lra.
Qed.

Lemma vscale_vadd s (a b : list R) : vscale O s (vadd O a b) = vadd O (vscale O s a) (vscale O s b).
Proof.
  revert b; induction a as [|x a IH]; intros [|y b]; try reflexivity.
  unfold vscale, vadd in *. cbn [map map2]. rewrite IH. rops. f_equal. lra.
Qed.

Theorem C04_affine_linear : forall (ns nx : nat) (A B : mat) (Z1 Z2 b1 b2 : list R),
  wf_mat nx ns A -> wf_mat nx nx B ->
  length Z1 = ns -> length Z2 = ns -> length b1 = nx -> length b2 = nx ->
  new_row_vk O A B (vadd O Z1 Z2) (vadd O b1 b2)
  = vadd O (new_row_vk O A B Z1 b1) (new_row_vk O A B Z2 b2).
Proof.
  intros ns nx A B Z1 Z2 b1 b2 HA HB HZ1 HZ2 Hb1 Hb2. unfold new_row_vk.
  rewrite (mvec_vadd G K nx ns A) by assumption. rewrite (mvec_vadd G K nx nx B) by assumption.
  assert (HlA : length A = nx) by (destruct HA; assumption).
  assert (HlB : length B = nx) by (destruct HB; assumption).
  apply (vadd_swap4 nx); rewrite (mvec_length G K); assumption.
Qed.

Theorem C04_affine_homogeneous : forall (A B : mat) (s : R) (Z b : list R),
  new_row_vk O A B (vscale O s Z) (vscale O s b) = vscale O s (new_row_vk O A B Z b).
Proof.
  intros A B s Z b. unfold new_row_vk. rewrite !(mvec_vscale G K). symmetry. apply vscale_vadd.
Qed.

(* Fried variant: shifting the stencil data and the reference by c shifts the new row by c.
   No property of A or B is used, not even their shapes. *)
Theorem C04_fried_shift_gen : forall (A B : mat) (Z b : list R) (ref c : R),
  new_row_fried O A B (map (fun z => z + c) Z) (ref + c) b
  = map (fun v => v + c) (new_row_fried O A B Z ref b).
Proof.
  intros A B Z b ref c. unfold new_row_fried. rewrite !map_map.
  rewrite (map_ext (fun z => nsub O (z + c) (ref + c)) (fun z => nsub O z ref))
    by (intros z; rops; lra).
  apply map_ext. intros v. rops. lra.
Qed.

Theorem C04_fried_shift : forall (ns nx : nat) (A B : mat) (Z b : list R) (ref c : R),
  wf_mat nx ns A -> wf_mat nx nx B -> length Z = ns -> length b = nx ->
  new_row_fried O A B (map (fun z => z + c) Z) (ref + c) b
  = map (fun v => v + c) (new_row_fried O A B Z ref b).
Proof. intros. apply C04_fried_shift_gen. Qed.

(* the von Karman variant has no such law in general: it shifts by (A 1) c instead *)
Theorem C04_vk_shift : forall (ns nx : nat) (A B : mat) (Z b : list R) (c : R),
  wf_mat nx ns A -> wf_mat nx nx B -> length Z = ns -> length b = nx ->
  new_row_vk O A B (vadd O Z (repeat c ns)) b
  = vadd O (new_row_vk O A B Z b) (mvec O A (repeat c ns)).
Proof.
  intros ns nx A B Z b c HA HB HZ Hb. unfold new_row_vk.
  assert (HlA : length A = nx) by (destruct HA; assumption).
  assert (HlB : length B = nx) by (destruct HB; assumption).
  rewrite (mvec_vadd G K nx ns A) by (try assumption; apply repeat_length).
  assert (HX : length (mvec O A Z) = nx) by (rewrite (mvec_length G K); exact HlA).
  assert (HY : length (mvec O A (repeat c ns)) = nx) by (rewrite (mvec_length G K); exact HlA).
  assert (HW : length (mvec O B b) = nx) by (rewrite (mvec_length G K); exact HlB).
  revert HX HY HW. generalize (mvec O A Z) (mvec O A (repeat c ns)) (mvec O B b). intros X Y W HX HY HW.
  assert (H1 : length (vadd O X Y) = nx) by (rewrite (vadd_length G K); lia).
  assert (H2 : length (vadd O X W) = nx) by (rewrite (vadd_length G K); lia).
  apply (vec_ext nx); [rewrite (vadd_length G K); lia | rewrite (vadd_length G K); lia |].
  intros i Hi. rewrite !(nth_vadd G K) by lia. lra.
Qed.

(* ------------------------------------------------------------------------------------------ *)
(* covariance blocks                                                                           *)
(* ------------------------------------------------------------------------------------------ *)

Theorem C04_blocks_wf : forall (ns nx : nat) (C : mat),
  wf_mat (ns + nx) (ns + nx) C ->
  wf_mat ns ns (cov_zz C ns) /\ wf_mat nx nx (cov_xx C ns) /\
  wf_mat ns nx (cov_zx C ns) /\ wf_mat nx ns (cov_xz C ns).
Proof.
  intros ns nx C HC. unfold cov_zz, cov_xx, cov_zx, cov_xz.
  assert (H1 : wf_mat ns (ns + nx) (firstn ns C)) by (apply (wf_firstn (ns + nx)); [exact HC | lia]).
  assert (H2 : wf_mat nx (ns + nx) (skipn ns C)).
  { replace nx with (ns + nx - ns)%nat at 1 by lia. apply wf_skipn. exact HC. }
  split; [|split; [|split]].
  - apply (wf_map_firstn ns (ns + nx)); [exact H1 | lia].
  - pose proof (wf_map_skipn nx (ns + nx) ns _ H2) as H.
    replace (ns + nx - ns)%nat with nx in H by lia. exact H.
  - pose proof (wf_map_skipn ns (ns + nx) ns _ H1) as H.
    replace (ns + nx - ns)%nat with nx in H by lia. exact H.
  - apply (wf_map_firstn nx (ns + nx)); [exact H2 | lia].
Qed.

Theorem C04_blocks_ent : forall (ns nx : nat) (C : mat),
  wf_mat (ns + nx) (ns + nx) C ->
  (forall i j, (i < ns)%nat -> (j < ns)%nat -> ent (cov_zz C ns) i j = ent C i j) /\
  (forall i j, (i < nx)%nat -> (j < nx)%nat -> ent (cov_xx C ns) i j = ent C (ns + i) (ns + j)) /\
  (forall i j, (i < ns)%nat -> (j < nx)%nat -> ent (cov_zx C ns) i j = ent C i (ns + j)) /\
  (forall i j, (i < nx)%nat -> (j < ns)%nat -> ent (cov_xz C ns) i j = ent C (ns + i) j).
Proof.
  intros ns nx C [Hl _]. unfold cov_zz, cov_xx, cov_zx, cov_xz. repeat split; intros i j Hi Hj.
  - rewrite ent_map_firstn by (try rewrite firstn_length; lia). apply ent_firstn_rows. exact Hi.
  - rewrite ent_map_skipn by (rewrite skipn_length; lia). apply ent_skipn_rows.
  - rewrite ent_map_skipn by (rewrite firstn_length; lia). apply ent_firstn_rows. exact Hi.
  - rewrite ent_map_firstn by (try rewrite skipn_length; lia). apply ent_skipn_rows.
Qed.

Theorem C04_blocks_transpose : forall (ns nx : nat) (C : mat),
  (0 < ns)%nat -> (0 < nx)%nat -> wf_mat (ns + nx) (ns + nx) C -> msym C ->
  transpose (cov_xz C ns) = cov_zx C ns.
Proof.
  intros ns nx C Hns Hnx HC Hs.
  destruct (C04_blocks_wf ns nx C HC) as [_ [_ [Hzx Hxz]]].
  destruct (C04_blocks_ent ns nx C HC) as [_ [_ [Ezx Exz]]].
  apply (mat_eq ns nx); [apply wf_transpose; assumption | exact Hzx |].
  intros i j Hi Hj. rewrite (ent_transpose' nx ns) by assumption.
  rewrite Exz, Ezx by assumption.
  apply (msym_ent (ns + nx) C HC); [lia | exact Hs | lia | lia].
Qed.

Theorem C04_blocks_sym : forall (ns nx : nat) (C : mat),
  (0 < ns)%nat -> (0 < nx)%nat -> wf_mat (ns + nx) (ns + nx) C -> msym C ->
  msym (cov_zz C ns) /\ msym (cov_xx C ns).
Proof.
  intros ns nx C Hns Hnx HC Hs.
  destruct (C04_blocks_wf ns nx C HC) as [Hzz [Hxx _]].
  destruct (C04_blocks_ent ns nx C HC) as [Ezz [Exx _]].
  pose proof (proj1 (msym_ent (ns + nx) C HC ltac:(lia)) Hs) as HsC.
  split.
  - apply (msym_ent ns); [exact Hzz | exact Hns |]. intros i j Hi Hj.
    rewrite !Ezz by assumption. apply HsC; lia.
  - apply (msym_ent nx); [exact Hxx | exact Hnx |]. intros i j Hi Hj.
    rewrite !Exx by assumption. apply HsC; lia.
Qed.

(* ------------------------------------------------------------------------------------------ *)
(* separations                                                                                 *)
(* ------------------------------------------------------------------------------------------ *)

Lemma wf_separations (pts : list (R * R)) : wf_mat (length pts) (length pts) (separations O pts).
Proof.
  unfold separations. split; [apply map_length|].
  apply Forall_forall. intros row Hrow. apply in_map_iff in Hrow. destruct Hrow as [p [<- _]].
  apply map_length.
Qed.

Lemma ent_separations (pts : list (R * R)) i j : (i < length pts)%nat -> (j < length pts)%nat ->
  ent (separations O pts) i j
  = sqrt ((fst (nth j pts (0, 0)) - fst (nth i pts (0, 0))) ^ 2
          + (snd (nth j pts (0, 0)) - snd (nth i pts (0, 0))) ^ 2).
Proof.
  intros Hi Hj. unfold ent, separations.
  rewrite (nth_map_lt _ pts i [] (0, 0)) by exact Hi.
  rewrite (nth_map_lt _ pts j 0 (0, 0)) by exact Hj.
  rops. f_equal. ring.
Qed.

Theorem C04_separations_sym : forall (pts : list (R * R)),
  msym (separations O pts) /\
  (forall i, (i < length pts)%nat -> ent (separations O pts) i i = 0) /\
  (forall i j, (i < length pts)%nat -> (j < length pts)%nat ->
     ent (separations O pts) i j
     = sqrt ((fst (nth j pts (0, 0)) - fst (nth i pts (0, 0))) ^ 2
             + (snd (nth j pts (0, 0)) - snd (nth i pts (0, 0))) ^ 2)).
Proof.
  intros pts. split; [|split].
  - destruct pts as [|p pts]; [reflexivity|].
    apply (msym_ent (length (p :: pts))); [apply wf_separations | simpl; lia |].
    intros i j Hi Hj. rewrite !ent_separations by assumption. f_equal. ring.
  - intros i Hi. rewrite ent_separations by assumption.
    replace (_ + _) with 0 by ring. apply sqrt_0.
  - intros i j Hi Hj. apply ent_separations; assumption.
Qed.

Theorem C04_separations_nonneg : forall (pts : list (R * R)) i j,
  (i < length pts)%nat -> (j < length pts)%nat -> 0 <= ent (separations O pts) i j.
Proof. intros pts i j Hi Hj. rewrite ent_separations by assumption. apply sqrt_pos. Qed.

End C04.

Print Assumptions C04_joint.
Print Assumptions C04_fried_shift.
Print Assumptions C04_allowed_size.
