(* C16, zoom: the coordinates at which zoom_rbs evaluates the spline, and what follows from a spline that
   reproduces a function P on the samples' grid (FITPACK: polynomials of degree <= order). *)
From Coq Require Import Reals Lra Lia ZArith List Arith Bool.
Require Import AOV.base.Num AOV.base.NumR AOV.base.Cplx AOV.model.Interp AOV.proofs.Dft_proofs AOV.proofs.Mat_proofs
               AOV.proofs.C16_proofs.
Import ListNotations.
Local Open Scope R_scope.

Section ZoomPoly.
Variables (G : R -> R) (K : R -> R -> R).
Local Notation O := (ROps G K).

(* numpy.linspace(0, n-1, num)[i] = i (n-1)/(num-1), the last sample included *)
Lemma linspace_nth stop num i : (1 < num)%nat -> (i < num)%nat ->
  nth i (linspace O stop num) 0 = INR i * stop / INR (num - 1).
Proof.
  intros Hn Hi. unfold linspace. rewrite nth_map_seq by exact Hi.
  assert (Hd : INR (num - 1) <> 0) by (apply not_0_INR; lia).
  destruct (Nat.eqb_spec (S i) num) as [E|E].
  - replace i with (num - 1)%nat by lia. field. exact Hd.
  - rewrite !(zn_INR G K). rops. field. exact Hd.
Qed.

Theorem zoom_entry_coordinates (spline : list (list R) -> nat -> R -> R -> R) N (m : list (list R)) k new i j :
  wf_mat N N m -> (0 < N)%nat -> (1 < new)%nat -> (i < new)%nat -> (j < new)%nat ->
  ent (zoom_rbs O spline m new new k) i j
  = spline m k (INR i * INR (N - 1) / INR (new - 1)) (INR j * INR (N - 1) / INR (new - 1)).
Proof.
  intros [Hl Hr] HN Hnew Hi Hj.
  unfold ent, zoom_rbs. cbv zeta.
  rewrite (nth_map_lt _ _ i [] 0) by (rewrite (linspace_length G K); exact Hi).
  rewrite (nth_map_lt _ _ j 0 0) by (rewrite (linspace_length G K); exact Hj).
  assert (Hh : length (hd [] m) = N).
  { destruct m as [|r0 m']; [cbn in Hl; lia|]. cbn [hd]. inversion Hr; assumption. }
  rewrite Hh, Hl, !linspace_nth by assumption. rewrite !(zn_INR G K). reflexivity.
Qed.

(* if the spline built on these samples reproduces P (e.g. the samples come from a polynomial of degree <= order
   in each variable), the zoomed array is P sampled on the new grid: exact for such polynomials *)
Theorem zoom_reproduces (spline : list (list R) -> nat -> R -> R -> R) (P : R -> R -> R) N (m : list (list R)) k new :
  wf_mat N N m -> (0 < N)%nat -> (1 < new)%nat ->
  (forall x y, spline m k x y = P x y) ->
  forall i j, (i < new)%nat -> (j < new)%nat ->
  ent (zoom_rbs O spline m new new k) i j = P (INR i * INR (N - 1) / INR (new - 1)) (INR j * INR (N - 1) / INR (new - 1)).
Proof. intros W HN Hn HP i j Hi Hj. rewrite (zoom_entry_coordinates spline N) by assumption. apply HP. Qed.

(* linear in the data whenever the spline is (complex input = real part + i * imaginary part, each zoomed) *)
Theorem zoom_linear (spline : list (list R) -> nat -> R -> R -> R) N (m1 m2 m12 : list (list R)) a b k new :
  wf_mat N N m1 -> wf_mat N N m2 -> wf_mat N N m12 -> (0 < N)%nat -> (1 < new)%nat ->
  (forall x y, spline m12 k x y = a * spline m1 k x y + b * spline m2 k x y) ->
  forall i j, (i < new)%nat -> (j < new)%nat ->
  ent (zoom_rbs O spline m12 new new k) i j
  = a * ent (zoom_rbs O spline m1 new new k) i j + b * ent (zoom_rbs O spline m2 new new k) i j.
Proof. intros W1 W2 W12 HN Hn HL i j Hi Hj. rewrite !(zoom_entry_coordinates spline N) by assumption. apply HL. Qed.
End ZoomPoly.
Print Assumptions zoom_reproduces.
