(* C15 (correlation centroider): the FFT cross-correlation of the model is the circular
   cross-correlation of the zero-padded images, read through fftshift.
     1. circular_correlation_1d      idft (dft x . conj (dft y)) is the circular cross-correlation
     2. circular_correlation_2d      the same for r x c matrices
     3. correlation_shift_equivariant, autocorrelation_peak_at_zero
     4. cross_correlate_entry        entry (k, l) of cross_correlate = | correlation at the rolled lag |
     5. cross_correlate_zero_lag_position   the zero-lag term sits at (R/2, C/2), floor division
   Everything at the real instance ROps G K. *)
From Coq Require Import Reals Lra Lia ZArith List Arith Bool Psatz.
Require Import AOV.base.Num AOV.base.NumR AOV.base.RpowTac AOV.base.Cplx AOV.model.Centroid
               AOV.proofs.Dft_proofs AOV.proofs.Mat_proofs.
Import ListNotations.
Local Open Scope R_scope.

Section C15Corr.
Variables (G : R -> R) (K : R -> R -> R).
Local Notation O := (ROps G K).
Local Notation img := (list (list R)).
Local Notation cmat := (list (list RC)).
Local Notation cz := (czero O).

(* ------------------------------------------------------------------------------------------ *)
(* roots of unity: periodicity and additivity of the exponent                                  *)
(* ------------------------------------------------------------------------------------------ *)
Lemma W_mod N a : (0 < N)%nat -> W N (a mod N) = W N a.
Proof.
  intros HN. rewrite <- !(root_W G K) by exact HN. unfold root.
  rewrite Nat.mod_mod by lia. reflexivity.
Qed.

Lemma W_add N a b : W N (a + b) = cmul O (W N a) (W N b).
Proof.
  unfold W. rewrite <- (E_add G K), plus_INR. f_equal. unfold Rdiv. ring.
Qed.

Lemma W_corr_kernel N n m k : (0 < N)%nat ->
  cmul O (cconj O (W N (n * m))) (cconj O (W N (m * k)))
  = cconj O (W N (m * ((n + k) mod N))).
Proof.
  intros HN.
  rewrite <- (W_mod N (m * ((n + k) mod N))) by exact HN.
  rewrite Nat.mul_mod_idemp_r by lia. rewrite W_mod by exact HN.
  replace (m * (n + k))%nat with (n * m + m * k)%nat by lia.
  rewrite W_add. generalize (W N (n * m)) (W N (m * k)). cring.
Qed.

(* ------------------------------------------------------------------------------------------ *)
(* 1. the correlation theorem, on functions of the index                                       *)
(* ------------------------------------------------------------------------------------------ *)
(* forward transform of a function on Z/N, evaluated at m *)
Definition ftr (N : nat) (f : nat -> RC) (m : nat) : RC :=
  bigsum (fun n => cmul O (f n) (Kdft N n m)) N.

(* inversion, in the form used below *)
Lemma ftr_inv N (f : nat -> RC) j : (j < N)%nat ->
  bigsum (fun m => cmul O (ftr N f m) (Kidft G K N m j)) N = f j.
Proof.
  intros Hj. assert (HN : 0 < INR N) by (apply lt_0_INR; lia).
  rewrite (bigsum_ext G K _ (fun m => cscale O (1 / INR N)
     (cmul O (bigsum (fun n => cmul O (f n) (Kdft N n m)) N) (cconj O (W N (m * j)))))).
  2:{ intros m _. unfold Kidft, ftr. cring. }
  rewrite (bigsum_scale G K).
  rewrite (inv_core2 G K (-1) f N j (fun n k => Kdft N n k) (fun k => cconj O (W N (k * j)))).
  - apply (cscale_cancel G K). exact HN.
  - right; reflexivity.
  - exact Hj.
  - intros n k. unfold Kdft, W. f_equal. ring.
  - intros k. unfold W. rewrite <- (E_neg G K). f_equal. ring.
Qed.

Lemma corr_fun N (f g : nat -> RC) k : (k < N)%nat ->
  bigsum (fun m => cmul O (cmul O (ftr N f m) (cconj O (ftr N g m))) (Kidft G K N m k)) N
  = bigsum (fun n => cmul O (f ((n + k) mod N)%nat) (cconj O (g n))) N.
Proof.
  intros Hk. assert (HN : (0 < N)%nat) by lia.
  transitivity (bigsum (fun m => bigsum (fun n =>
      cmul O (cconj O (g n)) (cmul O (ftr N f m) (Kidft G K N m ((n + k) mod N)))) N) N).
  { apply (bigsum_ext G K). intros m _.
    unfold ftr at 2. rewrite <- (bigsum_conj G K).
    rewrite <- (bigsum_mul_l G K), <- (bigsum_mul_r G K).
    apply (bigsum_ext G K). intros n _. cbv beta.
    unfold Kidft. rewrite <- (W_corr_kernel N n m k HN). unfold Kdft.
    generalize (ftr N f m) (g n) (W N (n * m)) (W N (m * k)) (1 / INR N). cring. }
  rewrite (bigsum_exch G K). apply (bigsum_ext G K). intros n _.
  rewrite (bigsum_mul_l G K), ftr_inv by (apply Nat.mod_upper_bound; lia).
  generalize (f ((n + k) mod N)%nat) (g n). cring.
Qed.

(* entries of the transform of a list are the transform of its index function *)
Lemma nth_dft_ftr (x : list RC) N m : length x = N -> (m < N)%nat ->
  nth m (dft O x) cz = ftr N (fun n => nth n x cz) m.
Proof.
  intros Hl Hm. rewrite (dft_ktr G K), (nth_ktr G K) by (rewrite Hl; exact Hm).
  rewrite Hl. reflexivity.
Qed.

Lemma nth_idft_sum (z : list RC) N k : length z = N -> (k < N)%nat ->
  nth k (idft O z) cz = bigsum (fun m => cmul O (nth m z cz) (Kidft G K N m k)) N.
Proof.
  intros Hl Hk. rewrite (idft_ktr G K), (nth_ktr G K) by (rewrite Hl; exact Hk).
  rewrite Hl. reflexivity.
Qed.

Theorem circular_correlation_1d : forall (x y : list RC) N k,
  length x = N -> length y = N -> (k < N)%nat ->
  nth k (idft O (map2 (cmul O) (dft O x) (map (cconj O) (dft O y)))) cz
  = bigsum (fun n => cmul O (nth ((n + k) mod N) x cz) (cconj O (nth n y cz))) N.
Proof.
  intros x y N k Hx Hy Hk.
  assert (Lx : length (dft O x) = N) by (rewrite (dft_length G K); exact Hx).
  assert (Ly0 : length (dft O y) = N) by (rewrite (dft_length G K); exact Hy).
  assert (Ly : length (map (cconj O) (dft O y)) = N) by (rewrite map_length; exact Ly0).
  rewrite (nth_idft_sum _ N k) by (try exact Hk; rewrite map2_length, Lx, Ly; apply Nat.min_id).
  rewrite <- (corr_fun N (fun n => nth n x cz) (fun n => nth n y cz) k Hk).
  apply (bigsum_ext G K). intros m Hm. f_equal.
  rewrite (nth_map2 (cmul O) _ _ m cz cz cz) by (rewrite ?Lx, ?Ly; exact Hm).
  rewrite (nth_map_lt (cconj O) (dft O y) m cz cz) by (rewrite Ly0; exact Hm).
  rewrite (nth_dft_ftr x N m Hx Hm), (nth_dft_ftr y N m Hy Hm). reflexivity.
Qed.

(* ------------------------------------------------------------------------------------------ *)
(* 2. two dimensions                                                                           *)
(* ------------------------------------------------------------------------------------------ *)
Definition cent (M : cmat) (i j : nat) : RC := nth j (nth i M []) cz.

(* circular cross-correlation of two r x c matrices at lag (k, l) *)
Definition ccorr2 (r c : nat) (X Y : cmat) (k l : nat) : RC :=
  bigsum (fun i => bigsum (fun j =>
    cmul O (cent X ((i + k) mod r) ((j + l) mod c)) (cconj O (cent Y i j))) c) r.

Definition ftr2 (r c : nat) (f : nat -> nat -> RC) (u v : nat) : RC :=
  ftr r (fun i => ftr c (f i) v) u.

Lemma corr_fun2 r c (f g : nat -> nat -> RC) k l : (k < r)%nat -> (l < c)%nat ->
  bigsum (fun u => cmul O
     (bigsum (fun v => cmul O (cmul O (ftr2 r c f u v) (cconj O (ftr2 r c g u v)))
                              (Kidft G K c v l)) c)
     (Kidft G K r u k)) r
  = bigsum (fun i => bigsum (fun j =>
      cmul O (f ((i + k) mod r) ((j + l) mod c))%nat (cconj O (g i j))) c) r.
Proof.
  intros Hk Hl.
  (* columns first: for every v, the 1-D theorem in u *)
  transitivity (bigsum (fun v => cmul O
      (bigsum (fun i => cmul O (ftr c (f ((i + k) mod r)%nat) v) (cconj O (ftr c (g i) v))) r)
      (Kidft G K c v l)) c).
  { rewrite (bigsum_ext G K _ (fun u => bigsum (fun v =>
       cmul O (cmul O (cmul O (ftr2 r c f u v) (cconj O (ftr2 r c g u v))) (Kidft G K r u k))
              (Kidft G K c v l)) c)).
    2:{ intros u _. rewrite <- (bigsum_mul_r G K). apply (bigsum_ext G K). intros v _.
        generalize (ftr2 r c f u v) (ftr2 r c g u v) (Kidft G K c v l) (Kidft G K r u k). cring. }
    rewrite (bigsum_exch G K). apply (bigsum_ext G K). intros v _.
    rewrite (bigsum_mul_r G K). f_equal.
    exact (corr_fun r (fun i => ftr c (f i) v) (fun i => ftr c (g i) v) k Hk). }
  (* then rows *)
  rewrite (bigsum_ext G K _ (fun v => bigsum (fun i =>
     cmul O (cmul O (ftr c (f ((i + k) mod r)%nat) v) (cconj O (ftr c (g i) v)))
            (Kidft G K c v l)) r)).
  2:{ intros v _. rewrite (bigsum_mul_r G K). reflexivity. }
  rewrite (bigsum_exch G K). apply (bigsum_ext G K). intros i _.
  exact (corr_fun c (f ((i + k) mod r)%nat) (g i) l Hl).
Qed.

(* entries of a separable 2-D kernel transform *)
Lemma ent_tr2 Kf r c (m : cmat) i j :
  wf_mat r c m -> (i < r)%nat -> (j < c)%nat ->
  cent (transpose (map (ktr G K Kf) (transpose (map (ktr G K Kf) m)))) i j
  = bigsum (fun a => cmul O
      (bigsum (fun b => cmul O (cent m a b) (Kf c b j)) c) (Kf r a i)) r.
Proof.
  intros Hwf Hi Hj. unfold cent.
  assert (Hr : (0 < r)%nat) by lia.
  assert (W1 : wf_mat r c (map (ktr G K Kf) m)) by (apply wf_map_ktr; exact Hwf).
  assert (W2 : wf_mat c r (transpose (map (ktr G K Kf) m))) by (apply wf_transpose; assumption).
  assert (W3 : wf_mat c r (map (ktr G K Kf) (transpose (map (ktr G K Kf) m))))
    by (apply wf_map_ktr; exact W2).
  rewrite (@ent_transpose RC cz c r _ j i W3 Hj Hi).
  rewrite (ent_map_ktr G K Kf c r _ j i W2 Hj Hi).
  apply (bigsum_ext G K). intros a Ha. f_equal.
  rewrite (@ent_transpose RC cz r c _ a j W1 Ha Hj).
  apply (ent_map_ktr G K Kf r c m a j Hwf Ha Hj).
Qed.

Lemma ent_dft2 r c (X : cmat) u v : wf_mat r c X -> (u < r)%nat -> (v < c)%nat ->
  cent (dft2 O X) u v = ftr2 r c (cent X) u v.
Proof. intros Hwf Hu Hv. rewrite (dft2_ktr G K). apply (ent_tr2 Kdft r c X u v Hwf Hu Hv). Qed.

Lemma ent_idft2 r c (Z : cmat) k l : wf_mat r c Z -> (k < r)%nat -> (l < c)%nat ->
  cent (idft2 O Z) k l
  = bigsum (fun u => cmul O (bigsum (fun v => cmul O (cent Z u v) (Kidft G K c v l)) c)
                            (Kidft G K r u k)) r.
Proof. intros Hwf Hk Hl. rewrite (idft2_ktr G K). apply (ent_tr2 (Kidft G K) r c Z k l Hwf Hk Hl). Qed.

Lemma wf_map2_gen {A B C} (f : A -> B -> C) r c (a : list (list A)) (b : list (list B)) :
  wf_mat r c a -> wf_mat r c b -> wf_mat r c (map2 (map2 f) a b).
Proof.
  intros Ha Hb. pose proof Ha as [La _]. pose proof Hb as [Lb _]. split.
  - rewrite map2_length, La, Lb. apply Nat.min_id.
  - apply Forall_forall. intros row Hin.
    destruct (In_nth _ _ [] Hin) as [i [Hi <-]].
    rewrite map2_length, La, Lb, Nat.min_id in Hi.
    rewrite (nth_map2 (map2 f) a b i [] [] []) by lia.
    rewrite map2_length, (wf_nth_length r c a i Ha Hi), (wf_nth_length r c b i Hb Hi).
    apply Nat.min_id.
Qed.

Lemma ent_map2_gen (f : RC -> RC -> RC) r c (a b : cmat) i j :
  wf_mat r c a -> wf_mat r c b -> (i < r)%nat -> (j < c)%nat ->
  cent (map2 (map2 f) a b) i j = f (cent a i j) (cent b i j).
Proof.
  intros Ha Hb Hi Hj. pose proof Ha as [La _]. pose proof Hb as [Lb _]. unfold cent.
  rewrite (nth_map2 (map2 f) a b i [] [] []) by lia.
  apply nth_map2; [rewrite (wf_nth_length r c a i Ha Hi) | rewrite (wf_nth_length r c b i Hb Hi)];
    exact Hj.
Qed.

Lemma ent_map_map (f : RC -> RC) r c (a : cmat) i j :
  wf_mat r c a -> (i < r)%nat -> (j < c)%nat ->
  cent (map (map f) a) i j = f (cent a i j).
Proof.
  intros Ha Hi Hj. pose proof Ha as [La _]. unfold cent.
  rewrite (nth_map_lt (map f) a i [] []) by lia.
  apply nth_map_lt. rewrite (wf_nth_length r c a i Ha Hi). exact Hj.
Qed.

(* the correlation map computed by the transforms *)
Definition fcorr2 (X Y : cmat) : cmat :=
  idft2 O (cmul_m O (dft2 O X) (map (map (cconj O)) (dft2 O Y))).

Lemma wf_fcorr_arg r c (X Y : cmat) : wf_mat r c X -> wf_mat r c Y -> (0 < r)%nat -> (0 < c)%nat ->
  wf_mat r c (cmul_m O (dft2 O X) (map (map (cconj O)) (dft2 O Y))).
Proof.
  intros HX HY Hr Hc. unfold cmul_m. apply wf_map2_gen.
  - apply (wf_dft2 G K); assumption.
  - apply wf_map_map. apply (wf_dft2 G K); assumption.
Qed.

Lemma wf_fcorr2 r c (X Y : cmat) : wf_mat r c X -> wf_mat r c Y -> (0 < r)%nat -> (0 < c)%nat ->
  wf_mat r c (fcorr2 X Y).
Proof. intros. unfold fcorr2. apply (wf_idft2 G K); try assumption. apply wf_fcorr_arg; assumption. Qed.

Theorem circular_correlation_2d : forall r c (X Y : cmat) k l,
  wf_mat r c X -> wf_mat r c Y -> (k < r)%nat -> (l < c)%nat ->
  nth l (nth k (idft2 O (cmul_m O (dft2 O X) (map (map (cconj O)) (dft2 O Y)))) []) cz
  = bigsum (fun i => bigsum (fun j =>
      cmul O (nth ((j + l) mod c) (nth ((i + k) mod r) X []) cz)
             (cconj O (nth j (nth i Y []) cz))) c) r.
Proof.
  intros r c X Y k l HX HY Hk Hl.
  assert (Hr : (0 < r)%nat) by lia. assert (Hc : (0 < c)%nat) by lia.
  assert (DX : wf_mat r c (dft2 O X)) by (apply (wf_dft2 G K); assumption).
  assert (DY : wf_mat r c (dft2 O Y)) by (apply (wf_dft2 G K); assumption).
  change (cent (idft2 O (cmul_m O (dft2 O X) (map (map (cconj O)) (dft2 O Y)))) k l
          = ccorr2 r c X Y k l).
  rewrite (ent_idft2 r c _ k l (wf_fcorr_arg r c X Y HX HY Hr Hc) Hk Hl).
  unfold ccorr2. rewrite <- (corr_fun2 r c (cent X) (cent Y) k l Hk Hl).
  apply (bigsum_ext G K). intros u Hu. f_equal.
  apply (bigsum_ext G K). intros v Hv. f_equal.
  unfold cmul_m.
  pose proof (wf_map_map (cconj O) r c _ DY) as DY'. ncx.
  rewrite (ent_map2_gen (cmul O) r c _ _ u v DX DY' Hu Hv).
  rewrite (ent_map_map (cconj O) r c _ u v DY Hu Hv).
  rewrite (ent_dft2 r c X u v HX Hu Hv), (ent_dft2 r c Y u v HY Hu Hv). reflexivity.
Qed.

Corollary fcorr2_entry r c (X Y : cmat) k l :
  wf_mat r c X -> wf_mat r c Y -> (k < r)%nat -> (l < c)%nat ->
  cent (fcorr2 X Y) k l = ccorr2 r c X Y k l.
Proof. intros HX HY Hk Hl. exact (circular_correlation_2d r c X Y k l HX HY Hk Hl). Qed.

(* ------------------------------------------------------------------------------------------ *)
(* 3. shift equivariance, and the peak of the auto-correlation                                 *)
(* ------------------------------------------------------------------------------------------ *)
Lemma mod_shift_idx r s i k : (0 < r)%nat -> (s <= r)%nat ->
  (((i + k) mod r + r - s) mod r = (i + (k + r - s) mod r) mod r)%nat.
Proof.
  intros Hr Hs. replace ((i + k) mod r + r - s)%nat with ((i + k) mod r + (r - s))%nat by lia.
  rewrite Nat.add_mod_idemp_l, Nat.add_mod_idemp_r by lia. f_equal. lia.
Qed.

(* X' is X rolled cyclically by (s, t): X'[i][j] = X[i - s][j - t], indices modulo (r, c) *)
Definition rolled_by (r c s t : nat) (X X' : cmat) : Prop :=
  forall i j, (i < r)%nat -> (j < c)%nat ->
    nth j (nth i X' []) cz = nth ((j + c - t) mod c) (nth ((i + r - s) mod r) X []) cz.

Theorem correlation_shift_equivariant : forall r c s t (X X' Y : cmat) k l,
  wf_mat r c X -> wf_mat r c X' -> wf_mat r c Y ->
  (s <= r)%nat -> (t <= c)%nat -> rolled_by r c s t X X' ->
  (k < r)%nat -> (l < c)%nat ->
  nth l (nth k (fcorr2 X' Y) []) cz
  = nth ((l + c - t) mod c) (nth ((k + r - s) mod r) (fcorr2 X Y) []) cz.
Proof.
  intros r c s t X X' Y k l HX HX' HY Hs Ht Hroll Hk Hl.
  assert (Hr : (0 < r)%nat) by lia. assert (Hc : (0 < c)%nat) by lia.
  change (cent (fcorr2 X' Y) k l = cent (fcorr2 X Y) ((k + r - s) mod r) ((l + c - t) mod c)).
  rewrite (fcorr2_entry r c X' Y k l HX' HY Hk Hl).
  rewrite (fcorr2_entry r c X Y _ _ HX HY) by (apply Nat.mod_upper_bound; lia).
  unfold ccorr2. apply (bigsum_ext G K). intros i Hi. apply (bigsum_ext G K). intros j Hj.
  f_equal. unfold cent.
  rewrite (Hroll ((i + k) mod r) ((j + l) mod c))%nat by (apply Nat.mod_upper_bound; lia).
  rewrite (mod_shift_idx r s i k Hr Hs), (mod_shift_idx c t j l Hc Ht). reflexivity.
Qed.

(* a concrete roll, so that the hypothesis above is inhabited for every X, s, t *)
Definition croll2 (r c s t : nat) (X : cmat) : cmat :=
  map (fun i => map (fun j => cent X ((i + r - s) mod r) ((j + c - t) mod c)) (seq 0 c)) (seq 0 r).

Lemma croll2_wf r c s t X : wf_mat r c (croll2 r c s t X).
Proof. apply wf_map_seq. intros. rewrite map_length, seq_length. reflexivity. Qed.

Lemma croll2_rolled r c s t X : rolled_by r c s t X (croll2 r c s t X).
Proof.
  intros i j Hi Hj. unfold croll2.
  rewrite (nth_map_seq _ r i [] Hi), (nth_map_seq _ c j cz Hj). reflexivity.
Qed.

Corollary correlation_of_rolled_image : forall r c s t (X Y : cmat) k l,
  wf_mat r c X -> wf_mat r c Y -> (s <= r)%nat -> (t <= c)%nat -> (k < r)%nat -> (l < c)%nat ->
  nth l (nth k (fcorr2 (croll2 r c s t X) Y) []) cz
  = nth ((l + c - t) mod c) (nth ((k + r - s) mod r) (fcorr2 X Y) []) cz.
Proof.
  intros r c s t X Y k l HX HY Hs Ht Hk Hl.
  apply (correlation_shift_equivariant r c s t X (croll2 r c s t X) Y k l); try assumption.
  - apply croll2_wf.
  - apply croll2_rolled.
Qed.

(* in particular the zero-lag term of (X, Y) is found at lag (s, t) of (rolled X, Y) *)
Corollary correlation_peak_moves : forall r c s t (X Y : cmat),
  wf_mat r c X -> wf_mat r c Y -> (s < r)%nat -> (t < c)%nat ->
  nth t (nth s (fcorr2 (croll2 r c s t X) Y) []) cz = nth 0 (nth 0 (fcorr2 X Y) []) cz.
Proof.
  intros r c s t X Y HX HY Hs Ht.
  rewrite (correlation_of_rolled_image r c s t X Y s t) by (try assumption; lia).
  replace (s + r - s)%nat with r by lia. replace (t + c - t)%nat with c by lia.
  rewrite !Nat.mod_same by lia. reflexivity.
Qed.

(* ---- real sums ---- *)
Lemma bigsum_real (f : nat -> R) n : bigsum (fun i => (f i, 0)) n = (rsum f n, 0).
Proof.
  induction n as [|n IH]; [reflexivity|]. cbn [bigsum rsum]. rewrite IH. cbn [fst snd].
  f_equal. ring.
Qed.

Lemma rsum_cyclic_shift (f : nat -> R) N s :
  rsum (fun n => f ((n + s) mod N)%nat) N = rsum f N.
Proof.
  pose proof (bigsum_cyclic_shift G K (fun n => (f n, 0)) N s) as H. cbv beta in H.
  rewrite (bigsum_real f N), (bigsum_real (fun n => f ((n + s) mod N)%nat) N) in H.
  apply (f_equal fst) in H. exact H.
Qed.

Definition dsum (f : nat -> nat -> R) (r c : nat) : R := rsum (fun i => rsum (fun j => f i j) c) r.

Lemma dsum_ext f g r c : (forall i j, (i < r)%nat -> (j < c)%nat -> f i j = g i j) ->
  dsum f r c = dsum g r c.
Proof. intros H. apply rsum_ext. intros i Hi. apply rsum_ext. intros j Hj. apply H; assumption. Qed.

Lemma dsum_add f g r c : dsum (fun i j => f i j + g i j) r c = dsum f r c + dsum g r c.
Proof.
  unfold dsum. rewrite <- rsum_add. apply rsum_ext. intros i _. apply rsum_add.
Qed.

Lemma dsum_scal a f r c : dsum (fun i j => a * f i j) r c = a * dsum f r c.
Proof.
  unfold dsum. rewrite <- rsum_scal_l. apply rsum_ext. intros i _. apply rsum_scal_l.
Qed.

Lemma dsum_nonneg f r c : (forall i j, (i < r)%nat -> (j < c)%nat -> 0 <= f i j) -> 0 <= dsum f r c.
Proof. intros H. apply rsum_nonneg. intros i Hi. apply rsum_nonneg. intros j Hj. apply H; assumption. Qed.

Lemma dsum_cyclic_shift f r c k l :
  dsum (fun i j => f ((i + k) mod r)%nat ((j + l) mod c)%nat) r c = dsum f r c.
Proof.
  unfold dsum.
  rewrite (rsum_ext _ (fun i => (fun i' => rsum (fun j => f i' j) c) ((i + k) mod r)%nat) r).
  2:{ intros i _. apply (rsum_cyclic_shift (fun j => f ((i + k) mod r)%nat j) c l). }
  apply (rsum_cyclic_shift (fun i' => rsum (fun j => f i' j) c) r k).
Qed.

Lemma bigsum2_real (f : nat -> nat -> R) r c :
  bigsum (fun i => bigsum (fun j => (f i j, 0)) c) r = (dsum f r c, 0).
Proof.
  rewrite (bigsum_ext G K _ (fun i => (rsum (fun j => f i j) c, 0))).
  - apply bigsum_real.
  - intros i _. apply bigsum_real.
Qed.

Definition real_valued (r c : nat) (X : cmat) : Prop :=
  forall i j, (i < r)%nat -> (j < c)%nat -> snd (cent X i j) = 0.

(* the correlation of real matrices is real: a plain double sum of products *)
Lemma ccorr2_real r c (X Y : cmat) k l :
  real_valued r c X -> real_valued r c Y -> (0 < r)%nat -> (0 < c)%nat ->
  ccorr2 r c X Y k l
  = (dsum (fun i j => fst (cent X ((i + k) mod r) ((j + l) mod c)) * fst (cent Y i j)) r c, 0).
Proof.
  intros RX RY Hr Hc. unfold ccorr2. rewrite <- bigsum2_real.
  apply (bigsum_ext G K). intros i Hi. apply (bigsum_ext G K). intros j Hj.
  pose proof (RX ((i + k) mod r) ((j + l) mod c))%nat as Hx.
  pose proof (RY i j Hi Hj) as Hy.
  destruct (cent X ((i + k) mod r) ((j + l) mod c)) as [a b].
  destruct (cent Y i j) as [a' b']. cbn [fst snd] in *.
  rewrite Hx, Hy by (apply Nat.mod_upper_bound; lia).
  cunf. f_equal; ring.
Qed.

Lemma cabs_real s : cabs O (s, 0) = Rabs s.
Proof.
  unfold cabs, cabs2. rops. cbn [fst snd].
  replace (s * s + 0 * 0) with (Rsqr s) by (unfold Rsqr; ring). apply sqrt_Rsqr_abs.
Qed.

(* | sum a(i+k, j+l) a(i, j) | <= sum a(i, j)^2 : the two factors have the same energy *)
Lemma auto_dsum_bound (a : nat -> nat -> R) r c k l :
  Rabs (dsum (fun i j => a ((i + k) mod r)%nat ((j + l) mod c)%nat * a i j) r c)
  <= dsum (fun i j => a i j * a i j) r c.
Proof.
  set (S := dsum (fun i j => a ((i + k) mod r)%nat ((j + l) mod c)%nat * a i j) r c).
  set (A := dsum (fun i j => a i j * a i j) r c).
  assert (HA' : dsum (fun i j => a ((i + k) mod r)%nat ((j + l) mod c)%nat
                              * a ((i + k) mod r)%nat ((j + l) mod c)%nat) r c = A).
  { apply (dsum_cyclic_shift (fun i j => a i j * a i j) r c k l). }
  assert (Hlin : forall sg,
     dsum (fun i j => (a ((i + k) mod r)%nat ((j + l) mod c)%nat + sg * a i j)
                      * (a ((i + k) mod r)%nat ((j + l) mod c)%nat + sg * a i j)) r c
     = A + (sg * sg) * A + (2 * sg) * S).
  { intros sg. unfold S. rewrite <- HA' at 1. unfold A.
    rewrite <- !dsum_scal, <- !dsum_add. apply dsum_ext. intros i j _ _. ring. }
  assert (H1 : 0 <= A + (1 * 1) * A + (2 * 1) * S).
  { rewrite <- Hlin. apply dsum_nonneg. intros i j _ _. apply Rle_0_sqr. }
  assert (H2 : 0 <= A + (-1 * -1) * A + (2 * -1) * S).
  { rewrite <- Hlin. apply dsum_nonneg. intros i j _ _. apply Rle_0_sqr. }
  apply Rabs_le. lra.
Qed.

Theorem autocorrelation_peak_at_zero : forall r c (X : cmat) k l,
  wf_mat r c X -> real_valued r c X -> (k < r)%nat -> (l < c)%nat ->
  cabs O (nth l (nth k (fcorr2 X X) []) cz) <= cabs O (nth 0 (nth 0 (fcorr2 X X) []) cz).
Proof.
  intros r c X k l HX RX Hk Hl.
  assert (Hr : (0 < r)%nat) by lia. assert (Hc : (0 < c)%nat) by lia.
  change (cabs O (cent (fcorr2 X X) k l) <= cabs O (cent (fcorr2 X X) 0 0)).
  rewrite (fcorr2_entry r c X X k l HX HX Hk Hl), (fcorr2_entry r c X X 0 0 HX HX Hr Hc).
  rewrite !(ccorr2_real r c X X) by assumption. rewrite !cabs_real.
  eapply Rle_trans; [apply (auto_dsum_bound (fun i j => fst (cent X i j)) r c k l)|].
  eapply Rle_trans; [|apply Rle_abs]. apply Req_le. apply dsum_ext. intros i j Hi Hj.
  rewrite !Nat.add_0_r, !Nat.mod_small by assumption. reflexivity.
Qed.

(* ------------------------------------------------------------------------------------------ *)
(* 4. the model: cross_correlate                                                               *)
(* ------------------------------------------------------------------------------------------ *)
Lemma pad_wf (x : img) R C : wf_mat R C (pad O x R C).
Proof. unfold pad. apply wf_map_seq. intros. rewrite map_length, seq_length. reflexivity. Qed.

(* zero padding: outside the image the default of nth supplies the zeros *)
Lemma pad_ent (x : img) R C i j : (i < R)%nat -> (j < C)%nat ->
  cent (pad O x R C) i j = (ent x i j, 0).
Proof.
  intros Hi Hj. unfold cent, pad, ent.
  rewrite (nth_map_seq _ R i [] Hi), (nth_map_seq _ C j cz Hj). reflexivity.
Qed.

Lemma ent_outside r c (x : img) i j : wf_mat r c x -> (r <= i)%nat \/ (c <= j)%nat -> ent x i j = 0.
Proof.
  intros Hwf Hor. unfold ent. destruct (Nat.lt_ge_cases i r) as [Hi|Hi].
  - apply nth_overflow. rewrite (wf_nth_length r c x i Hwf Hi). lia.
  - rewrite (nth_overflow x []) by (destruct Hwf as [-> _]; exact Hi). apply nth_nil.
Qed.

Lemma pad_real (x : img) R C : real_valued R C (pad O x R C).
Proof. intros i j Hi Hj. rewrite (pad_ent x R C i j Hi Hj). reflexivity. Qed.

(* fftshift over both axes, read by index: valid for every R, C (even or odd) *)
Lemma ent_fftshift2 {A} (d : A) R C (M : list (list A)) k l :
  wf_mat R C M -> (k < R)%nat -> (l < C)%nat ->
  nth l (nth k (fftshift2 M) []) d
  = nth ((l + (C - C / 2)) mod C) (nth ((k + (R - R / 2)) mod R) M []) d.
Proof.
  intros Hwf Hk Hl. pose proof Hwf as [HL _]. unfold fftshift2.
  rewrite nth_fftshift by (rewrite map_length, HL; exact Hk). rewrite map_length, HL.
  assert (Hk' : ((k + (R - R / 2)) mod R < R)%nat) by (apply Nat.mod_upper_bound; lia).
  rewrite (nth_map_lt fftshift M _ [] []) by (rewrite HL; exact Hk').
  pose proof (wf_nth_length R C M _ Hwf Hk') as HC.
  rewrite nth_fftshift by (rewrite HC; exact Hl). rewrite HC. reflexivity.
Qed.

Lemma hd_length {A} r c (x : list (list A)) : wf_mat r c x -> (0 < r)%nat -> length (hd [] x) = c.
Proof.
  intros [Hl Hf] Hr. destruct x as [|row x]; [simpl in Hl; lia|].
  apply Forall_cons_iff in Hf. destruct Hf as [Hrow _]. exact Hrow.
Qed.

Lemma ent_map_map_cabs R C (M : cmat) i j : wf_mat R C M -> (i < R)%nat -> (j < C)%nat ->
  nth j (nth i (map (map (cabs O)) M) []) 0 = cabs O (cent M i j).
Proof.
  intros Hwf Hi Hj. pose proof Hwf as [HL _]. unfold cent.
  rewrite (nth_map_lt (map (cabs O)) M i [] []) by (ncx; lia).
  apply nth_map_lt. ncx. rewrite (wf_nth_length R C M i Hwf Hi). exact Hj.
Qed.

(* cross_correlate is fftshift2 of the moduli of the transform-domain correlation map *)
Lemma cross_correlate_unfold ny nx p (x y : img) :
  wf_mat ny nx x -> wf_mat ny nx y -> (0 < ny)%nat ->
  cross_correlate O x y p
  = fftshift2 (map (map (cabs O))
      (fcorr2 (pad O x (ny * p) (nx * p)) (pad O y (ny * p) (nx * p)))).
Proof.
  intros Hx Hy Hny. unfold cross_correlate, fcorr2. cbv zeta.
  rewrite (hd_length ny nx x Hx Hny), (hd_length ny nx y Hy Hny).
  destruct Hx as [-> _], Hy as [-> _]. reflexivity.
Qed.

(* entry (k, l) of the output is the modulus of the circular correlation of the zero-padded
   images at the lag obtained by rolling the index by R - R/2 (resp. C - C/2) *)
Theorem cross_correlate_entry : forall ny nx p (x y : img) k l,
  wf_mat ny nx x -> wf_mat ny nx y -> (1 <= p)%nat ->
  let R := (ny * p)%nat in let C := (nx * p)%nat in
  (k < R)%nat -> (l < C)%nat ->
  nth l (nth k (cross_correlate O x y p) []) 0
  = cabs O (ccorr2 R C (pad O x R C) (pad O y R C)
              ((k + (R - R / 2)) mod R) ((l + (C - C / 2)) mod C)).
Proof.
  intros ny nx p x y k l Hx Hy Hp R C Hk Hl.
  assert (Hny : (0 < ny)%nat) by (subst R; destruct ny; simpl in Hk; lia).
  assert (HR : (0 < R)%nat) by lia. assert (HC : (0 < C)%nat) by lia.
  rewrite (cross_correlate_unfold ny nx p x y Hx Hy Hny). fold R C.
  pose proof (wf_fcorr2 R C _ _ (pad_wf x R C) (pad_wf y R C) HR HC) as Wf. ncx.
  assert (Hk' : ((k + (R - R / 2)) mod R < R)%nat) by (apply Nat.mod_upper_bound; lia).
  assert (Hl' : ((l + (C - C / 2)) mod C < C)%nat) by (apply Nat.mod_upper_bound; lia).
  pose proof (wf_map_map (cabs O) R C _ Wf) as Wa. ncx.
  rewrite (ent_fftshift2 0 R C _ k l Wa Hk Hl).
  etransitivity; [exact (ent_map_map_cabs R C _ _ _ Wf Hk' Hl')|].
  rewrite (fcorr2_entry R C _ _ _ _ (pad_wf x R C) (pad_wf y R C) Hk' Hl'). reflexivity.
Qed.

(* sums whose terms vanish beyond n *)
Lemma rsum_trunc f n N : (n <= N)%nat -> (forall i, (n <= i < N)%nat -> f i = 0) ->
  rsum f N = rsum f n.
Proof.
  intros Hle Hz. induction N as [|N IH].
  - replace n with 0%nat by lia. reflexivity.
  - destruct (Nat.eq_dec n (S N)) as [->|Hne]; [reflexivity|].
    cbn [rsum]. rewrite IH by (try lia; intros; apply Hz; lia). rewrite (Hz N) by lia. ring.
Qed.

Lemma dsum_trunc f r c R C : (r <= R)%nat -> (c <= C)%nat ->
  (forall i j, (r <= i)%nat \/ (c <= j)%nat -> f i j = 0) -> dsum f R C = dsum f r c.
Proof.
  intros Hr Hc Hz. unfold dsum. rewrite (rsum_trunc _ r R Hr).
  - apply rsum_ext. intros i _. apply (rsum_trunc _ c C Hc). intros j Hj. apply Hz. lia.
  - intros i Hi. apply rsum_zero_ext. intros j _. apply Hz. lia.
Qed.

(* the same in real terms: (ent x) is 0 outside the ny x nx image, which is the zero padding *)
Theorem cross_correlate_entry_real : forall ny nx p (x y : img) k l,
  wf_mat ny nx x -> wf_mat ny nx y -> (1 <= p)%nat ->
  let R := (ny * p)%nat in let C := (nx * p)%nat in
  (k < R)%nat -> (l < C)%nat ->
  nth l (nth k (cross_correlate O x y p) []) 0
  = Rabs (dsum (fun i j =>
            ent x ((i + (k + (R - R / 2)) mod R) mod R) ((j + (l + (C - C / 2)) mod C) mod C)
            * ent y i j) ny nx).
Proof.
  intros ny nx p x y k l Hx Hy Hp R C Hk Hl.
  assert (HR : (0 < R)%nat) by lia. assert (HC : (0 < C)%nat) by lia.
  rewrite (cross_correlate_entry ny nx p x y k l Hx Hy Hp Hk Hl). fold R C.
  rewrite (ccorr2_real R C _ _ _ _ (pad_real x R C) (pad_real y R C) HR HC), cabs_real.
  f_equal.
  rewrite <- (dsum_trunc _ ny nx R C).
  - apply dsum_ext. intros i j Hi Hj.
    rewrite !pad_ent by (try assumption; apply Nat.mod_upper_bound; lia). reflexivity.
  - subst R. nia.
  - subst C. nia.
  - intros i j Hor. rewrite (ent_outside ny nx y i j Hy Hor). ring.
Qed.

(* ------------------------------------------------------------------------------------------ *)
(* 5. where the zero-lag term sits                                                             *)
(* ------------------------------------------------------------------------------------------ *)
Lemma half_lt n : (0 < n)%nat -> (n / 2 < n)%nat.
Proof. intros Hn. apply Nat.div_lt; lia. Qed.

Lemma shift_index_zero n k : (0 < n)%nat -> (k < n)%nat ->
  ((k + (n - n / 2)) mod n = 0 <-> k = n / 2)%nat.
Proof.
  intros Hn Hk. pose proof (half_lt n Hn) as Hh.
  destruct (Nat.lt_ge_cases (k + (n - n / 2)) n) as [Hlt|Hge].
  - rewrite Nat.mod_small by exact Hlt. lia.
  - replace (k + (n - n / 2))%nat with ((k + (n - n / 2) - n) + 1 * n)%nat by lia.
    rewrite Nat.mod_add by lia. rewrite Nat.mod_small by lia. lia.
Qed.

Theorem cross_correlate_zero_lag_position : forall ny nx p (x y : img),
  wf_mat ny nx x -> wf_mat ny nx y -> (0 < ny)%nat -> (0 < nx)%nat -> (1 <= p)%nat ->
  let R := (ny * p)%nat in let C := (nx * p)%nat in
  (* row R/2, column C/2 is a valid position and holds the zero-lag term ... *)
  (R / 2 < R)%nat /\ (C / 2 < C)%nat /\
  nth (C / 2) (nth (R / 2) (cross_correlate O x y p) []) 0
    = cabs O (ccorr2 R C (pad O x R C) (pad O y R C) 0 0) /\
  (* ... and it is the only position whose lag is (0, 0) *)
  (forall k l, (k < R)%nat -> (l < C)%nat ->
     (((k + (R - R / 2)) mod R = 0 /\ (l + (C - C / 2)) mod C = 0) <-> (k = R / 2 /\ l = C / 2))%nat).
Proof.
  intros ny nx p x y Hx Hy Hny Hnx Hp R C.
  assert (HR : (0 < R)%nat) by (subst R; nia). assert (HC : (0 < C)%nat) by (subst C; nia).
  pose proof (half_lt R HR) as HhR. pose proof (half_lt C HC) as HhC.
  split; [exact HhR|]. split; [exact HhC|]. split.
  - rewrite (cross_correlate_entry ny nx p x y (R / 2) (C / 2) Hx Hy Hp HhR HhC). fold R C.
    rewrite (proj2 (shift_index_zero R (R / 2) HR HhR) eq_refl).
    rewrite (proj2 (shift_index_zero C (C / 2) HC HhC) eq_refl). reflexivity.
  - intros k l Hk Hl.
    rewrite (shift_index_zero R k HR Hk), (shift_index_zero C l HC Hl). reflexivity.
Qed.

(* its value: | <x, y> |, the plain inner product of the two images *)
Theorem cross_correlate_zero_lag_value : forall ny nx p (x y : img),
  wf_mat ny nx x -> wf_mat ny nx y -> (0 < ny)%nat -> (0 < nx)%nat -> (1 <= p)%nat ->
  nth (nx * p / 2) (nth (ny * p / 2) (cross_correlate O x y p) []) 0
  = Rabs (dsum (fun i j => ent x i j * ent y i j) ny nx).
Proof.
  intros ny nx p x y Hx Hy Hny Hnx Hp.
  set (R := (ny * p)%nat). set (C := (nx * p)%nat).
  assert (HR : (0 < R)%nat) by (subst R; nia). assert (HC : (0 < C)%nat) by (subst C; nia).
  pose proof (half_lt R HR) as HhR. pose proof (half_lt C HC) as HhC.
  rewrite (cross_correlate_entry_real ny nx p x y (R / 2) (C / 2) Hx Hy Hp HhR HhC). fold R C.
  rewrite (proj2 (shift_index_zero R (R / 2) HR HhR) eq_refl).
  rewrite (proj2 (shift_index_zero C (C / 2) HC HhC) eq_refl).
  f_equal. apply dsum_ext. intros i j Hi Hj.
  rewrite !Nat.add_0_r, !Nat.mod_small by (subst R C; nia). reflexivity.
Qed.

(* auto-correlation (x = y): no entry of the output exceeds the one at (R/2, C/2) *)
Theorem cross_correlate_auto_peak : forall ny nx p (x : img) k l,
  wf_mat ny nx x -> (1 <= p)%nat ->
  let R := (ny * p)%nat in let C := (nx * p)%nat in
  (k < R)%nat -> (l < C)%nat ->
  nth l (nth k (cross_correlate O x x p) []) 0
  <= nth (C / 2) (nth (R / 2) (cross_correlate O x x p) []) 0.
Proof.
  intros ny nx p x k l Hx Hp R C Hk Hl.
  assert (HR : (0 < R)%nat) by lia. assert (HC : (0 < C)%nat) by lia.
  pose proof (half_lt R HR) as HhR. pose proof (half_lt C HC) as HhC.
  rewrite (cross_correlate_entry ny nx p x x k l Hx Hx Hp Hk Hl).
  rewrite (cross_correlate_entry ny nx p x x (R / 2) (C / 2) Hx Hx Hp HhR HhC). fold R C.
  rewrite (proj2 (shift_index_zero R (R / 2) HR HhR) eq_refl).
  rewrite (proj2 (shift_index_zero C (C / 2) HC HhC) eq_refl).
  assert (Hk' : ((k + (R - R / 2)) mod R < R)%nat) by (apply Nat.mod_upper_bound; lia).
  assert (Hl' : ((l + (C - C / 2)) mod C < C)%nat) by (apply Nat.mod_upper_bound; lia).
  rewrite <- (fcorr2_entry R C _ _ _ _ (pad_wf x R C) (pad_wf x R C) Hk' Hl').
  rewrite <- (fcorr2_entry R C _ _ 0%nat 0%nat (pad_wf x R C) (pad_wf x R C) HR HC).
  exact (autocorrelation_peak_at_zero R C (pad O x R C) _ _ (pad_wf x R C) (pad_real x R C) Hk' Hl').
Qed.

(* ------------------------------------------------------------------------------------------ *)
(* examples: the hypotheses are satisfiable and the statements say what they should            *)
(* ------------------------------------------------------------------------------------------ *)
(* 1-D: correlating (1, 2, 3) with the unit impulse at 0 reads the sequence back, lag by lag *)
Example corr1d_impulse :
  nth 1 (idft O (map2 (cmul O) (dft O [(1, 0); (2, 0); (3, 0)])
                      (map (cconj O) (dft O [(1, 0); (0, 0); (0, 0)])))) cz = (2, 0).
Proof.
  rewrite (circular_correlation_1d [(1, 0); (2, 0); (3, 0)] [(1, 0); (0, 0); (0, 0)] 3 1
             eq_refl eq_refl ltac:(lia)).
  cbv [bigsum]. change ((0 + 1) mod 3)%nat with 1%nat. change ((1 + 1) mod 3)%nat with 2%nat.
  change ((2 + 1) mod 3)%nat with 0%nat. cbv [nth]. cunf. f_equal; ring.
Qed.

(* 2-D, and the roll: the correlation with the unit impulse at (0, 0) reads the matrix back *)
Definition ex_X : cmat := [[(1, 0); (2, 0)]; [(3, 0); (4, 0)]; [(5, 0); (6, 0)]].
Definition ex_D : cmat := [[(1, 0); (0, 0)]; [(0, 0); (0, 0)]; [(0, 0); (0, 0)]].
Lemma ex_X_wf : wf_mat 3 2 ex_X. Proof. split; [reflexivity | repeat constructor]. Qed.
Lemma ex_D_wf : wf_mat 3 2 ex_D. Proof. split; [reflexivity | repeat constructor]. Qed.

Example corr2d_impulse : nth 1 (nth 2 (fcorr2 ex_X ex_D) []) cz = (6, 0).
Proof.
  etransitivity; [exact (circular_correlation_2d 3 2 ex_X ex_D 2 1 ex_X_wf ex_D_wf ltac:(lia) ltac:(lia))|].
  cbv [bigsum]. change ((0 + 2) mod 3)%nat with 2%nat. change ((1 + 2) mod 3)%nat with 0%nat.
  change ((2 + 2) mod 3)%nat with 1%nat. change ((0 + 1) mod 2)%nat with 1%nat.
  change ((1 + 1) mod 2)%nat with 0%nat. cbv [nth ex_X ex_D]. cunf. f_equal; ring.
Qed.

(* rolling ex_X by (1, 1) moves that entry to lag (0, 0) *)
Example corr2d_rolled :
  nth 0 (nth 0 (fcorr2 (croll2 3 2 1 1 ex_X) ex_D) []) cz = (6, 0).
Proof.
  rewrite (correlation_of_rolled_image 3 2 1 1 ex_X ex_D 0 0 ex_X_wf ex_D_wf)
    by lia.
  change ((0 + 3 - 1) mod 3)%nat with 2%nat. change ((0 + 2 - 1) mod 2)%nat with 1%nat.
  apply corr2d_impulse.
Qed.

(* the model, even size after padding: a 2 x 3 image, padding 2 -> 4 x 6 map, zero lag at (2, 3) *)
Definition x23 : img := [[1; 2; 3]; [4; 5; 6]].
Lemma x23_wf : wf_mat 2 3 x23. Proof. split; [reflexivity | repeat constructor]. Qed.

Example zero_lag_2x3_pad2 : nth 3 (nth 2 (cross_correlate O x23 x23 2) []) 0 = 91.
Proof.
  transitivity (Rabs (dsum (fun i j => ent x23 i j * ent x23 i j) 2 3)).
  - exact (cross_correlate_zero_lag_value 2 3 2 x23 x23 x23_wf x23_wf
             ltac:(lia) ltac:(lia) ltac:(lia)).
  - cbv [dsum rsum ent nth x23]. rewrite Rabs_pos_eq; lra.
Qed.

(* odd size: a 3 x 3 image, padding 1 -> zero lag at (1, 1) = (3/2, 3/2), floor *)
Definition x33 : img := [[1; 0; 2]; [0; 3; 0]; [1; 1; 1]].
Lemma x33_wf : wf_mat 3 3 x33. Proof. split; [reflexivity | repeat constructor]. Qed.

Example zero_lag_3x3_pad1 : nth 1 (nth 1 (cross_correlate O x33 x33 1) []) 0 = 17.
Proof.
  transitivity (Rabs (dsum (fun i j => ent x33 i j * ent x33 i j) 3 3)).
  - exact (cross_correlate_zero_lag_value 3 3 1 x33 x33 x33_wf x33_wf
             ltac:(lia) ltac:(lia) ltac:(lia)).
  - cbv [dsum rsum ent nth x33]. rewrite Rabs_pos_eq; lra.
Qed.

(* ... and every other entry of that auto-correlation is at most 17 *)
Example auto_peak_3x3 : forall k l, (k < 3)%nat -> (l < 3)%nat ->
  nth l (nth k (cross_correlate O x33 x33 1) []) 0 <= 17.
Proof.
  intros k l Hk Hl. rewrite <- zero_lag_3x3_pad1.
  exact (cross_correlate_auto_peak 3 3 1 x33 k l x33_wf ltac:(lia) Hk Hl).
Qed.

End C15Corr.

Print Assumptions circular_correlation_1d.
Print Assumptions circular_correlation_2d.
Print Assumptions correlation_shift_equivariant.
Print Assumptions correlation_of_rolled_image.
Print Assumptions autocorrelation_peak_at_zero.
Print Assumptions cross_correlate_entry.
Print Assumptions cross_correlate_entry_real.
Print Assumptions cross_correlate_zero_lag_position.
Print Assumptions cross_correlate_zero_lag_value.
Print Assumptions cross_correlate_auto_peak.
