(* C12, part C: the Noll derivative ("gamma") tables reproduce the gradients of the Zernike modes.
   Exact polynomial arithmetic in Q[x,y], bounded by computation. *)
From Coq Require Import ZArith QArith Qreduction Bool List Arith Lia.
Require Import AOV.model.Zernike AOV.proofs.C12_A.
Import ListNotations.
Local Open Scope Z_scope.

(* ---- polynomials in x, y over Q: p = [a_0; a_1; ...] stands for sum_i x^i a_i(y),
        a = [c_0; c_1; ...] stands for sum_j c_j y^j.  Trailing zeros are allowed; the boolean
        equality ignores them. ---- *)
Definition poly1 := list Q.
Definition poly := list poly1.

Fixpoint add1 (a b : poly1) : poly1 :=
  match a, b with
  | [], _ => b
  | _, [] => a
  | x :: a', y :: b' => Qred (x + y) :: add1 a' b'
  end.
Fixpoint padd (p q : poly) : poly :=
  match p, q with
  | [], _ => q
  | _, [] => p
  | a :: p', b :: q' => add1 a b :: padd p' q'
  end.
Definition scale1 (c : Q) (a : poly1) : poly1 := map (fun x => Qred (c * x)) a.
Definition pscale (c : Q) (p : poly) : poly := map (scale1 c) p.
Fixpoint mul1 (a b : poly1) : poly1 :=
  match a with
  | [] => []
  | x :: a' => add1 (scale1 x b) (0%Q :: mul1 a' b)
  end.
Fixpoint pmul (p q : poly) : poly :=
  match p with
  | [] => []
  | a :: p' => padd (map (mul1 a) q) ([] :: pmul p' q)
  end.
Definition psum (l : list poly) : poly := fold_right padd [] l.

(* partial derivatives *)
Fixpoint dcoef (k : Z) (a : poly1) : poly1 :=     (* [k c_0; (k+1) c_1; ...] *)
  match a with [] => [] | c :: a' => Qred (inject_Z k * c) :: dcoef (k + 1) a' end.
Definition d1 (a : poly1) : poly1 := match a with [] => [] | _ :: a' => dcoef 1 a' end.
Definition pdy (p : poly) : poly := map d1 p.
Fixpoint dxrows (k : Z) (p : poly) : poly :=
  match p with [] => [] | a :: p' => scale1 (inject_Z k) a :: dxrows (k + 1) p' end.
Definition pdx (p : poly) : poly := match p with [] => [] | _ :: p' => dxrows 1 p' end.

(* boolean equality (as polynomials) *)
Definition zero1 (a : poly1) : bool := forallb (fun c => Qeq_bool c 0) a.
Fixpoint eq1 (a b : poly1) : bool :=
  match a, b with
  | [], _ => zero1 b
  | _, [] => zero1 a
  | x :: a', y :: b' => Qeq_bool x y && eq1 a' b'
  end.
Definition pzero (p : poly) : bool := forallb zero1 p.
Fixpoint peq (p q : poly) : bool :=
  match p, q with
  | [], _ => pzero q
  | _, [] => pzero p
  | a :: p', b :: q' => eq1 a b && peq p' q'
  end.

(* ---- the unnormalised Cartesian Zernike polynomials ---- *)
Definition pconst (c : Q) : poly := [[c]].
Definition pX : poly := [[]; [1%Q]].
Definition pY : poly := [[0%Q; 1%Q]].
Definition pR2 : poly := padd (pmul pX pX) (pmul pY pY).
Fixpoint ppow (p : poly) (k : nat) : poly :=
  match k with O => pconst 1 | S k' => pmul p (ppow p k') end.
(* (Re (x+iy)^k, Im (x+iy)^k) *)
Fixpoint cis (k : nat) : poly * poly :=
  match k with
  | O => (pconst 1, [])
  | S k' => let '(re, im) := cis k' in
            (padd (pmul re pX) (pscale (-1) (pmul im pY)), padd (pmul re pY) (pmul im pX))
  end.
Definition ang_poly (m : Z) : poly :=
  let '(re, im) := cis (Z.to_nat (Z.abs m)) in if 0 <=? m then re else im.
(* P(x,y) = sum_i rad_coeff n |m| i (x^2+y^2)^((n-|m|)/2 - i) A_m(x,y) *)
Definition zpoly_nm (n m : Z) : poly :=
  let am := Z.abs m in
  let h := Z.to_nat ((n - am) / 2) in
  pmul (psum (map (fun i => pscale (rad_coeff n am (Z.of_nat i)) (ppow pR2 (h - i))) (seq 0 (S h))))
       (ang_poly m).
Definition zpoly (j : Z) : poly := zpoly_nm (fst (zern_index j)) (snd (zern_index j)).

(* ---- the rational form of a gamma entry:  gamma_ij c_j / c_i  with c = Noll normalisation.
   For gamma_ij = s * sqrt2^two * sqrt(prod) with prod = (ni+1)(nj+1), two = (mi = 0 or mj = 0),
   and not both mi = mj = 0, this is  s (nj+1) (if mi = 0 then 2 else 1)  (lemma gamma_ratio_R). ---- *)
Definition rcoef (e : gentry) (ni mi nj mj : Z) : option Q :=
  if g_sign e =? 0 then Some 0%Q
  else if (g_prod e =? (ni + 1) * (nj + 1))
          && Bool.eqb (g_two e) ((mi =? 0) || (mj =? 0))
          && negb ((mi =? 0) && (mj =? 0))
       then Some (inject_Z (g_sign e * (nj + 1) * (if mi =? 0 then 2 else 1)))
       else None.
Definition noll_n (i : nat) : Z := fst (zern_index (Z.of_nat (S i))).
Definition noll_m (i : nat) : Z := snd (zern_index (Z.of_nat (S i))).
Definition rgam (e : gentry) (i j : nat) : option Q := rcoef e (noll_n i) (noll_m i) (noll_n j) (noll_m j).
Definition oget (o : option Q) : Q := match o with Some c => c | None => 0%Q end.
Definition odef (o : option Q) : bool := match o with Some _ => true | None => false end.

(* row check against a precomputed table of polynomials *)
Definition row_check (entry : nat -> nat -> gentry) (d : poly -> poly) (polys : list poly) (K i : nat) : bool :=
  forallb (fun j => odef (rgam (entry i j) i j)) (seq 0 K)
  && peq (d (nth i polys []))
         (psum (map (fun j => pscale (oget (rgam (entry i j) i j)) (nth j polys [])) (seq 0 K))).
Definition zpolys (K : nat) : list poly := map (fun j => zpoly (Z.of_nat (S j))) (seq 0 K).
Definition gam_check (entry : list (Z * Z) -> nat -> nat -> gentry) (d : poly -> poly) (nzrad : nat) : bool :=
  let nm := gam_nm nzrad in let K := length nm in let polys := zpolys K in
  forallb (row_check (entry nm) d polys K) (seq 0 K).
Definition gam_rows (entry : list (Z * Z) -> nat -> nat -> gentry) (d : poly -> poly) (nzrad : nat) : list bool :=
  let nm := gam_nm nzrad in let K := length nm in let polys := zpolys K in
  map (row_check (entry nm) d polys K) (seq 0 K).

Lemma nth_zpolys K i : (i < K)%nat -> nth i (zpolys K) [] = zpoly (Z.of_nat (S i)).
Proof.
  intros H. unfold zpolys.
  pose proof (map_nth (fun j => zpoly (Z.of_nat (S j))) (seq 0 K) 0%nat i) as E. cbv beta in E.
  rewrite seq_nth in E by exact H. cbn [plus] in E. rewrite <- E.
  apply nth_indep. rewrite map_length, seq_length. exact H.
Qed.

(* the statement of one row:  all entries have a rational form, and
   d P_{i+1} = sum_{j<K} (gamma_ij c_j / c_i) P_{j+1}  as polynomials *)
Definition row_holds (entry : nat -> nat -> gentry) (d : poly -> poly) (K i : nat) : Prop :=
  (forall j, (j < K)%nat -> odef (rgam (entry i j) i j) = true) /\
  peq (d (zpoly (Z.of_nat (S i))))
      (psum (map (fun j => pscale (oget (rgam (entry i j) i j)) (zpoly (Z.of_nat (S j)))) (seq 0 K))) = true.

Lemma gam_check_sound entry d nzrad : gam_check entry d nzrad = true ->
  forall i, (i < length (gam_nm nzrad))%nat -> row_holds (entry (gam_nm nzrad)) d (length (gam_nm nzrad)) i.
Proof.
  unfold gam_check. cbv zeta. set (K := length (gam_nm nzrad)). set (nm := gam_nm nzrad).
  intros C i Hi. apply forallb_seq with (x := i) in C; [|lia].
  unfold row_check in C. apply andb_prop in C as [C1 C2]. split.
  - intros j Hj. apply forallb_seq with (x := j) in C1; [exact C1|lia].
  - rewrite nth_zpolys in C2 by exact Hi.
    erewrite map_ext_in in C2; [exact C2|].
    intros j Hj. apply in_seq in Hj. cbv beta. rewrite nth_zpolys by lia. reflexivity.
Qed.

Definition NZMAX : nat := 12.
Lemma gamma_x_check : forallb (gam_check gamx_entry pdx) (seq 0 (S NZMAX)) = true.
Proof. vm_cast_no_check (eq_refl true). Qed.
Lemma gamma_y_check : forallb (gam_check gamy_entry pdy) (seq 0 (S NZMAX)) = true.
Proof. vm_cast_no_check (eq_refl true). Qed.

(* C1 *)
Theorem gamma_x_bounded : forall nzrad, (nzrad <= 12)%nat ->
  forall i, (i < length (gam_nm nzrad))%nat ->
  row_holds (gamx_entry (gam_nm nzrad)) pdx (length (gam_nm nzrad)) i.
Proof.
  intros nzrad H. apply gam_check_sound.
  apply (forallb_seq _ _ _ gamma_x_check). unfold NZMAX. lia.
Qed.

Theorem gamma_y_bounded : forall nzrad, (nzrad <= 12)%nat ->
  forall i, (i < length (gam_nm nzrad))%nat ->
  row_holds (gamy_entry (gam_nm nzrad)) pdy (length (gam_nm nzrad)) i.
Proof.
  intros nzrad H. apply gam_check_sound.
  apply (forallb_seq _ _ _ gamma_y_check). unfold NZMAX. lia.
Qed.
