(* C16: binning sums n x n blocks and preserves the flux (also frame by frame); zoom_rbs passes through
   the original samples under the interpolation contract of the spline; the azimuthal average is a
   weighted mean with 0/1 weights over non-empty rings (constants preserved, bounds kept); the
   encircled-energy curve is within [0,1], monotone in the radius and 0 for an empty mask. *)
From Coq Require Import Reals Lra Lia ZArith List Arith Bool Psatz.
Require Import AOV.base.Num AOV.base.NumR AOV.base.RpowTac AOV.base.Cplx AOV.model.Pupil AOV.model.Interp
               AOV.proofs.Dft_proofs AOV.proofs.Mat_proofs AOV.proofs.C14_proofs.
Import ListNotations.
Local Open Scope R_scope.

(* ------------------------------------------------------------------------------------------ *)
(* finite sums: order, splitting                                                               *)
(* ------------------------------------------------------------------------------------------ *)

Lemma rsum_le f g n : (forall i, (i < n)%nat -> f i <= g i) -> rsum f n <= rsum g n.
Proof.
  induction n as [|n IH]; intros H; cbn [rsum]; [lra|].
  assert (rsum f n <= rsum g n) by (apply IH; intros; apply H; lia).
  assert (f n <= g n) by (apply H; lia). lra.
Qed.

Lemma rsum_const c n : rsum (fun _ => c) n = INR n * c.
Proof. induction n as [|n IH]; [cbn [rsum]; simpl; lra|]. cbn [rsum]. rewrite IH, S_INR. lra. Qed.

Lemma rsum_app f a b : rsum f (a + b) = rsum f a + rsum (fun k => f (a + k)%nat) b.
Proof.
  induction b as [|b IH]; [rewrite Nat.add_0_r; cbn [rsum]; lra|].
  rewrite Nat.add_succ_r. cbn [rsum]. rewrite IH. lra.
Qed.

(* a sum over r*n indices, block by block *)
Lemma rsum_split_mul f r n : rsum f (r * n) = rsum (fun i => rsum (fun a => f (i * n + a)%nat) n) r.
Proof.
  induction r as [|r IH]; [reflexivity|].
  rewrite Nat.mul_succ_l, rsum_app, IH. reflexivity.
Qed.

Lemma rsum_ge_term f n m : (forall i, (i < n)%nat -> 0 <= f i) -> (m < n)%nat -> f m <= rsum f n.
Proof.
  induction n as [|n IH]; intros H Hm; [lia|]. cbn [rsum].
  assert (0 <= f n) by (apply H; lia).
  destruct (Nat.eq_dec m n) as [->|Hne].
  - assert (0 <= rsum f n) by (apply rsum_nonneg; intros; apply H; lia). lra.
  - assert (f m <= rsum f n) by (apply IH; [intros; apply H; lia|lia]). lra.
Qed.

Lemma rsum_le_extend f d n : (forall i, (i < n)%nat -> 0 <= f i) -> (d <= n)%nat -> rsum f d <= rsum f n.
Proof.
  induction n as [|n IH]; intros H Hd.
  - replace d with 0%nat by lia. lra.
  - destruct (Nat.eq_dec d (S n)) as [->|Hne]; [lra|]. cbn [rsum].
    assert (rsum f d <= rsum f n) by (apply IH; [intros; apply H; lia|lia]).
    assert (0 <= f n) by (apply H; lia). lra.
Qed.

Lemma hd_length {A} r c (m : list (list A)) : wf_mat r c m -> (0 < r)%nat -> length (hd [] m) = c.
Proof.
  intros [Hl Hf] Hr. destruct m as [|row m]; [simpl in Hl; lia|]. cbn [hd]. exact (Forall_inv Hf).
Qed.

Section C16R.
Variables (G : R -> R) (K : R -> R -> R).
Local Notation O := (ROps G K).
Local Notation mat := (list (list R)).

(* the accumulation loops are finite sums *)
Lemma fold_rsum (g : nat -> R) n :
  fold_left (fun acc i => nadd O acc (g i)) (seq 0 n) (nzero O) = rsum g n.
Proof. induction n as [|n IH]; [reflexivity|]. rewrite seq_S, fold_left_app, IH. reflexivity. Qed.

Lemma zn_INR n : zn O n = INR n.
Proof. unfold zn; rops. symmetry. apply INR_IZR_INZ. Qed.

(* sum of all entries as a double sum *)
Lemma sum2_rsum r c (m : mat) : wf_mat r c m ->
  sum2 O m = rsum (fun i => rsum (fun j => ent m i j) c) r.
Proof.
  intros Hwf. pose proof Hwf as [Hl _]. unfold sum2. rewrite nsum_rsum, map_length, Hl.
  apply rsum_ext; intros i Hi. rewrite (nth_map_lt _ m i 0 []) by lia.
  rewrite nsum_rsum, (wf_row_length r c m i Hwf Hi). reflexivity.
Qed.

(* ------------------------------------------------------------------------------------------ *)
(* Q1: binning = block sums                                                                    *)
(* ------------------------------------------------------------------------------------------ *)

Lemma bin_row_length n row : length (bin_row O n row) = (length row / n)%nat.
Proof. unfold bin_row. rewrite map_length, seq_length. reflexivity. Qed.

Lemma bin_row_nth n row c : (c < length row / n)%nat ->
  nth c (bin_row O n row) 0 = rsum (fun b => nth (c * n + b) row 0) n.
Proof.
  intros Hc. unfold bin_row. rewrite nth_map_seq by exact Hc.
  exact (fold_rsum (fun i => nth (c * n + i) row 0) n).
Qed.

Lemma bin_cols_ent n (m : mat) i j : (i < length m / n)%nat -> (j < length (hd [] m))%nat ->
  ent (bin_cols O n m) i j = rsum (fun a => nth j (nth (i * n + a) m []) 0) n.
Proof.
  intros Hi Hj. unfold ent, bin_cols. rewrite nth_map_seq by exact Hi. rewrite nth_map_seq by exact Hj.
  exact (fold_rsum (fun a => nth j (nth (i * n + a) m []) 0) n).
Qed.

Lemma bin_rows_wf r c (m : mat) n : wf_mat (r * n) (c * n) m -> (0 < n)%nat ->
  wf_mat (r * n) c (map (bin_row O n) m).
Proof.
  intros Hwf Hn. apply (wf_map_rows _ (r * n) (c * n) c); [|exact Hwf].
  intros x Hx. rewrite bin_row_length, Hx. apply Nat.div_mul. lia.
Qed.

Theorem bin2d_wf r c (m : mat) n : wf_mat (r * n) (c * n) m -> (0 < n)%nat ->
  wf_mat r c (bin2d O m n).
Proof.
  intros Hwf Hn. pose proof (bin_rows_wf r c m n Hwf Hn) as Hw1. pose proof Hw1 as [Hl1 _].
  unfold bin2d, bin_cols. rewrite Hl1, Nat.div_mul by lia.
  apply wf_map_seq. intros i Hi. rewrite map_length, seq_length.
  apply (hd_length (r * n) c); [exact Hw1|nia].
Qed.

Theorem bin2d_blocks r c (m : mat) n i j : wf_mat (r * n) (c * n) m -> (0 < n)%nat ->
  (i < r)%nat -> (j < c)%nat ->
  ent (bin2d O m n) i j = rsum (fun a => rsum (fun b => ent m (i * n + a) (j * n + b)) n) n.
Proof.
  intros Hwf Hn Hi Hj. pose proof (bin_rows_wf r c m n Hwf Hn) as Hw1. pose proof Hw1 as [Hl1 _].
  pose proof Hwf as [Hl _].
  unfold bin2d. rewrite bin_cols_ent.
  - apply rsum_ext; intros a Ha.
    assert (Hia : (i * n + a < r * n)%nat) by nia.
    rewrite (nth_map_lt _ m (i * n + a) [] []) by lia.
    rewrite bin_row_nth; [reflexivity|].
    rewrite (wf_row_length _ _ m _ Hwf Hia), Nat.div_mul by lia. exact Hj.
  - rewrite Hl1, Nat.div_mul by lia. exact Hi.
  - rewrite (hd_length (r * n) c _ Hw1) by nia. exact Hj.
Qed.

(* ------------------------------------------------------------------------------------------ *)
(* Q2: binning preserves the flux                                                              *)
(* ------------------------------------------------------------------------------------------ *)

Theorem bin_flux r c (m : mat) n : wf_mat (r * n) (c * n) m -> (0 < n)%nat ->
  sum2 O (bin2d O m n) = sum2 O m.
Proof.
  intros Hwf Hn.
  rewrite (sum2_rsum r c) by (apply bin2d_wf; assumption).
  rewrite (sum2_rsum (r * n) (c * n) m Hwf), rsum_split_mul.
  apply rsum_ext; intros i Hi.
  transitivity (rsum (fun j => rsum (fun a => rsum (fun b => ent m (i * n + a) (j * n + b)) n) n) c).
  - apply rsum_ext; intros j Hj. apply (bin2d_blocks r c); assumption.
  - rewrite (rsum_exch (fun j a => rsum (fun b => ent m (i * n + a) (j * n + b)) n) c n).
    apply rsum_ext; intros a Ha. symmetry.
    exact (rsum_split_mul (fun J => ent m (i * n + a) J) c n).
Qed.

(* ------------------------------------------------------------------------------------------ *)
(* Q3: stacks of frames                                                                        *)
(* ------------------------------------------------------------------------------------------ *)

Theorem bin_stack (frames : list mat) n : binNd O frames n = map (fun f => bin2d O f n) frames.
Proof. reflexivity. Qed.

Theorem bin_stack_flux r c (frames : list mat) n :
  Forall (wf_mat (r * n) (c * n)) frames -> (0 < n)%nat ->
  map (sum2 O) (binNd O frames n) = map (sum2 O) frames.
Proof.
  intros Hf Hn. unfold binNd. rewrite map_map. apply map_ext_in. intros f Hin.
  rewrite Forall_forall in Hf. apply (bin_flux r c); [apply Hf; exact Hin|exact Hn].
Qed.

Theorem bin_stack_wf r c (frames : list mat) n :
  Forall (wf_mat (r * n) (c * n)) frames -> (0 < n)%nat ->
  Forall (wf_mat r c) (binNd O frames n).
Proof.
  intros Hf Hn. unfold binNd. rewrite Forall_forall in *. intros x Hx.
  apply in_map_iff in Hx. destruct Hx as [f [<- Hin]]. apply bin2d_wf; [apply Hf; exact Hin|exact Hn].
Qed.

(* ------------------------------------------------------------------------------------------ *)
(* Q4: zoom_rbs from the interpolation contract of the spline                                  *)
(* ------------------------------------------------------------------------------------------ *)

Lemma linspace_length stop num : length (linspace O stop num) = num.
Proof. unfold linspace. rewrite map_length, seq_length. reflexivity. Qed.

(* linspace(0, N-1, N) = 0, 1, ..., N-1 *)
Lemma linspace_id N k : (k < N)%nat -> nth k (linspace O (zn O (N - 1)) N) 0 = INR k.
Proof.
  intros Hk. unfold linspace. rewrite nth_map_seq by exact Hk.
  destruct (Nat.eqb_spec (S k) N) as [E|E].
  - rewrite zn_INR. f_equal. lia.
  - rewrite !zn_INR. rops. field. apply not_0_INR. lia.
Qed.

(* linspace(0, N-1, q(N-1)+1) hits the integer a at position q*a *)
Lemma linspace_sub q N a : (1 <= q)%nat -> (a < N)%nat ->
  nth (q * a) (linspace O (zn O (N - 1)) (q * (N - 1) + 1)) 0 = INR a.
Proof.
  intros Hq Ha. destruct N as [|p]; [lia|]. replace (S p - 1)%nat with p by lia.
  assert (Hqa : (q * a <= q * p)%nat) by nia.
  unfold linspace. rewrite nth_map_seq by lia.
  destruct (Nat.eqb_spec (S (q * a)) (q * p + 1)) as [E|E].
  - rewrite zn_INR. f_equal. nia.
  - assert (Hp : (p <> 0)%nat) by (intros ->; assert (a = 0)%nat by lia; subst a; lia).
    replace (q * p + 1 - 1)%nat with (q * p)%nat by lia.
    rewrite !zn_INR, !mult_INR. rops. field. split; apply not_0_INR; lia.
Qed.

Section Zoom.
Variable spline : mat -> nat -> R -> R -> R.
Hypothesis interp : forall m k i j, (i < length m)%nat -> (j < length (hd [] m))%nat ->
  spline m k (INR i) (INR j) = ent m i j.

(* the result has ysize rows and xsize columns; row index <-> coordsY, bound to the FIRST spline argument *)
Lemma zoom_rbs_wf (m : mat) xs ys k : wf_mat ys xs (zoom_rbs O spline m xs ys k).
Proof.
  unfold zoom_rbs. cbv zeta. split; [rewrite map_length, linspace_length; reflexivity|].
  apply Forall_forall. intros row Hrow. apply in_map_iff in Hrow. destruct Hrow as [x [<- _]].
  rewrite map_length, linspace_length. reflexivity.
Qed.

Lemma zoom_rbs_ent (m : mat) xs ys k i j : (i < ys)%nat -> (j < xs)%nat ->
  ent (zoom_rbs O spline m xs ys k) i j
  = spline m k (nth i (linspace O (zn O (length (hd [] m) - 1)) ys) 0)
               (nth j (linspace O (zn O (length m - 1)) xs) 0).
Proof.
  intros Hi Hj. unfold ent, zoom_rbs. cbv zeta.
  rewrite (nth_map_lt _ _ i [] 0) by (rewrite linspace_length; exact Hi).
  rewrite (nth_map_lt _ _ j 0 0) by (rewrite linspace_length; exact Hj). reflexivity.
Qed.

(* identity at equal size (holds for every N, in particular for 1 < N) *)
Theorem zoom_identity_gen N (m : mat) k : wf_mat N N m -> zoom_rbs O spline m N N k = m.
Proof.
  intros Hwf. pose proof Hwf as [Hl _].
  apply (mat_eq N N); [apply zoom_rbs_wf|exact Hwf|]. intros i j Hi Hj.
  assert (Hh : length (hd [] m) = N) by (apply (hd_length N N); [exact Hwf|lia]).
  rewrite zoom_rbs_ent by assumption. rewrite Hl, Hh, !linspace_id by assumption.
  apply interp; lia.
Qed.

Theorem zoom_identity N (m : mat) k : wf_mat N N m -> (1 < N)%nat -> zoom_rbs O spline m N N k = m.
Proof. intros Hwf _. apply zoom_identity_gen. exact Hwf. Qed.

(* zooming a square image by an integer factor q of the sample spacing passes through the samples *)
Theorem zoom_passes_samples N (m : mat) q k a b : wf_mat N N m -> (1 <= q)%nat ->
  (a < N)%nat -> (b < N)%nat ->
  ent (zoom_rbs O spline m (q * (N - 1) + 1) (q * (N - 1) + 1) k) (q * a) (q * b) = ent m a b.
Proof.
  intros Hwf Hq Ha Hb. pose proof Hwf as [Hl _].
  assert (Hh : length (hd [] m) = N) by (apply (hd_length N N); [exact Hwf|lia]).
  rewrite zoom_rbs_ent by nia. rewrite Hl, Hh, !linspace_sub by assumption.
  apply interp; lia.
Qed.

(* rectangular r x c image zoomed to its own shape (xsize = r, ysize = c): the result is c x r and
   its entry (i, j) is the spline evaluated at (i, j) with i ranging over the COLUMN count --
   neither the image nor its transpose unless r = c *)
Theorem zoom_rect_index_order r c (m : mat) k i j : wf_mat r c m -> (0 < r)%nat -> (i < c)%nat -> (j < r)%nat ->
  wf_mat c r (zoom_rbs O spline m r c k) /\
  ent (zoom_rbs O spline m r c k) i j = spline m k (INR i) (INR j).
Proof.
  intros Hwf Hr Hi Hj. pose proof Hwf as [Hl _]. split; [apply zoom_rbs_wf|].
  rewrite zoom_rbs_ent by assumption.
  rewrite Hl, (hd_length r c m Hwf Hr), !linspace_id by assumption. reflexivity.
Qed.
End Zoom.

(* ------------------------------------------------------------------------------------------ *)
(* Q5: azimuthal average                                                                       *)
(* ------------------------------------------------------------------------------------------ *)

Lemma circle_wf r n c0 c1 mid : wf_mat n n (circle O r n c0 c1 mid).
Proof. unfold circle. apply wf_map_seq. intros i _. rewrite map_length, seq_length. reflexivity. Qed.

Lemma ent_circle r n c0 c1 mid i j : (i < n)%nat -> (j < n)%nat ->
  ent (circle O r n c0 c1 mid) i j = if circle_px O r n c0 c1 mid i j then 1 else 0.
Proof. intros. unfold ent. apply circle_entry; assumption. Qed.

Lemma ring_wf n i : wf_mat n n (ring O n i).
Proof. unfold ring. apply wf_map2; apply circle_wf. Qed.

Lemma ring_entry n i a b : (a < n)%nat -> (b < n)%nat ->
  ent (ring O n i) a b = (if circle_px O (INR (S i)) n 0 0 true a b then 1 else 0)
                       - (if circle_px O (INR i) n 0 0 true a b then 1 else 0).
Proof.
  intros Ha Hb. unfold ring. rewrite (ent_map2 _ n n) by (try apply circle_wf; assumption).
  rewrite !ent_circle by assumption. rewrite !zn_INR. reflexivity.
Qed.

(* the ring is the 0/1 indicator of  i < radius <= i+1  *)
Lemma ring_entry_01 n i a b : (a < n)%nat -> (b < n)%nat ->
  ent (ring O n i) a b
  = if circle_px O (INR (S i)) n 0 0 true a b && negb (circle_px O (INR i) n 0 0 true a b) then 1 else 0.
Proof.
  intros Ha Hb. rewrite ring_entry by assumption.
  destruct (circle_px O (INR i) n 0 0 true a b) eqn:E1.
  - rewrite (circle_nested G K (INR i) (INR (S i)) n 0 0 true a b); [simpl; lra| |exact E1].
    rewrite S_INR. pose proof (pos_INR i). lra.
  - destruct (circle_px O (INR (S i)) n 0 0 true a b); simpl; lra.
Qed.

Lemma ring_entry_range n i a b : (a < n)%nat -> (b < n)%nat -> 0 <= ent (ring O n i) a b <= 1.
Proof. intros Ha Hb. rewrite ring_entry_01 by assumption. destruct (_ && _); lra. Qed.

(* every ring i < n/2 contains a pixel *)
Lemma ring_nonempty n i : (i < n / 2)%nat ->
  exists a b, (a < n)%nat /\ (b < n)%nat /\ ent (ring O n i) a b = 1.
Proof.
  intros Hi. set (h := (n / 2)%nat) in *.
  assert (Hn : (n = 2 * h \/ n = 2 * h + 1)%nat).
  { pose proof (Nat.div_mod n 2). pose proof (Nat.mod_upper_bound n 2). fold h in H. lia. }
  pose proof (pos_INR i) as Hi0.
  destruct Hn as [Hn|Hn].
  - exists h, (h + i)%nat. split; [lia|]. split; [lia|].
    rewrite ring_entry by lia.
    assert (En : INR n = 2 * INR h) by (rewrite Hn, mult_INR; simpl; lra).
    assert (P1 : circle_px O (INR (S i)) n 0 0 true h (h + i) = true).
    { apply circle_px_spec. rewrite !pcoord_R, plus_INR, (S_INR i), En. nra. }
    assert (P2 : circle_px O (INR i) n 0 0 true h (h + i) = false).
    { destruct (circle_px O (INR i) n 0 0 true h (h + i)) eqn:E; [|reflexivity]. exfalso.
      apply circle_px_spec in E. rewrite !pcoord_R, plus_INR, En in E. nra. }
    rewrite P1, P2. lra.
  - exists h, (h + i + 1)%nat. split; [lia|]. split; [lia|].
    rewrite ring_entry by lia.
    assert (En : INR n = 2 * INR h + 1) by (rewrite Hn, plus_INR, mult_INR; simpl; lra).
    assert (P1 : circle_px O (INR (S i)) n 0 0 true h (h + i + 1) = true).
    { apply circle_px_spec. rewrite !pcoord_R, !plus_INR, (S_INR i), En. simpl (INR 1). nra. }
    assert (P2 : circle_px O (INR i) n 0 0 true h (h + i + 1) = false).
    { destruct (circle_px O (INR i) n 0 0 true h (h + i + 1)) eqn:E; [|reflexivity]. exfalso.
      apply circle_px_spec in E. rewrite !pcoord_R, !plus_INR, En in E. simpl (INR 1) in E. nra. }
    rewrite P1, P2. lra.
Qed.

Theorem ring_sum_pos n i : (i < n / 2)%nat -> 0 < sum2 O (ring O n i).
Proof.
  intros Hi. destruct (ring_nonempty n i Hi) as [a [b [Ha [Hb E]]]].
  rewrite (sum2_rsum n n _ (ring_wf n i)).
  apply Rlt_le_trans with (ent (ring O n i) a b); [lra|].
  apply Rle_trans with (rsum (fun j => ent (ring O n i) a j) n).
  - apply (rsum_ge_term (fun j => ent (ring O n i) a j) n b); [|exact Hb].
    intros j Hj. apply ring_entry_range; assumption.
  - apply (rsum_ge_term (fun i0 => rsum (fun j => ent (ring O n i) i0 j) n) n a); [|exact Ha].
    intros i0 Hi0. apply rsum_nonneg. intros j Hj. apply ring_entry_range; assumption.
Qed.

Lemma azimuthal_length (data : mat) : length (azimuthal_average O data) = (length data / 2)%nat.
Proof. unfold azimuthal_average. cbv zeta. rewrite map_length, seq_length. reflexivity. Qed.

Lemma azimuthal_nth n (data : mat) i : wf_mat n n data -> (i < n / 2)%nat ->
  nth i (azimuthal_average O data) 0 = sum2 O (mul2 O (ring O n i) data) / sum2 O (ring O n i).
Proof.
  intros [Hl _] Hi. unfold azimuthal_average. cbv zeta. rewrite Hl.
  rewrite nth_map_seq by exact Hi. reflexivity.
Qed.

(* weighted mean with weights 0/1 of positive total: stays within the bounds of the data *)
Theorem azimuthal_bounds n (data : mat) lo hi i : wf_mat n n data ->
  (forall a b, (a < n)%nat -> (b < n)%nat -> lo <= ent data a b <= hi) ->
  (i < n / 2)%nat -> lo <= nth i (azimuthal_average O data) 0 <= hi.
Proof.
  intros Hwf Hb Hi. rewrite (azimuthal_nth n) by assumption.
  pose proof (ring_sum_pos n i Hi) as HS.
  assert (HS' : 0 < / sum2 O (ring O n i)) by (apply Rinv_0_lt_compat; exact HS).
  assert (Hm : wf_mat n n (mul2 O (ring O n i) data)) by (apply wf_map2; [apply ring_wf|exact Hwf]).
  assert (HN : sum2 O (mul2 O (ring O n i) data)
               = rsum (fun a => rsum (fun b => ent (ring O n i) a b * ent data a b) n) n).
  { rewrite (sum2_rsum n n _ Hm). apply rsum_ext; intros a Ha. apply rsum_ext; intros b Hb'.
    unfold mul2. rewrite (ent_map2 _ n n) by (try apply ring_wf; assumption). reflexivity. }
  assert (Hlo : lo * sum2 O (ring O n i) <= sum2 O (mul2 O (ring O n i) data)).
  { rewrite HN, (sum2_rsum n n _ (ring_wf n i)), <- rsum_scal_l. apply rsum_le; intros a Ha.
    rewrite <- rsum_scal_l. apply rsum_le; intros b Hb'.
    pose proof (ring_entry_range n i a b Ha Hb'). pose proof (Hb a b Ha Hb'). nra. }
  assert (Hhi : sum2 O (mul2 O (ring O n i) data) <= hi * sum2 O (ring O n i)).
  { rewrite HN, (sum2_rsum n n _ (ring_wf n i)), <- rsum_scal_l. apply rsum_le; intros a Ha.
    rewrite <- rsum_scal_l. apply rsum_le; intros b Hb'.
    pose proof (ring_entry_range n i a b Ha Hb'). pose proof (Hb a b Ha Hb'). nra. }
  unfold Rdiv. split.
  - replace lo with (lo * sum2 O (ring O n i) * / sum2 O (ring O n i)) by (field; lra).
    apply Rmult_le_compat_r; lra.
  - replace hi with (hi * sum2 O (ring O n i) * / sum2 O (ring O n i)) by (field; lra).
    apply Rmult_le_compat_r; lra.
Qed.

Theorem azimuthal_const n (data : mat) c i : wf_mat n n data ->
  (forall a b, (a < n)%nat -> (b < n)%nat -> ent data a b = c) ->
  (i < n / 2)%nat -> nth i (azimuthal_average O data) 0 = c.
Proof.
  intros Hwf Hc Hi.
  assert (c <= nth i (azimuthal_average O data) 0 <= c); [|lra].
  apply (azimuthal_bounds n); try assumption. intros a b Ha Hb. rewrite Hc by assumption. lra.
Qed.

Theorem azimuthal_const_all n (data : mat) c : wf_mat n n data ->
  (forall a b, (a < n)%nat -> (b < n)%nat -> ent data a b = c) ->
  azimuthal_average O data = repeat c (n / 2).
Proof.
  intros Hwf Hc. pose proof Hwf as [Hl _].
  apply (nth_ext _ _ 0 0); [rewrite azimuthal_length, repeat_length, Hl; reflexivity|].
  intros i Hi. rewrite azimuthal_length, Hl in Hi. rewrite (nth_indep (repeat c (n / 2)) 0 c) by (rewrite repeat_length; exact Hi). rewrite nth_repeat.
  apply (azimuthal_const n); assumption.
Qed.

(* ------------------------------------------------------------------------------------------ *)
(* Q6: encircled-energy curve                                                                  *)
(* ------------------------------------------------------------------------------------------ *)

(* the elementwise product truncates to the smaller shape (mask 2*(n/2) square, data n square) *)
Lemma wf_mul2_trunc r c r' c' (A B : mat) : wf_mat r c A -> wf_mat r' c' B ->
  (r <= r')%nat -> (c <= c')%nat -> wf_mat r c (mul2 O A B).
Proof.
  intros HA HB Hr Hc. pose proof HA as [HlA _]. pose proof HB as [HlB _].
  unfold mul2. split; [rewrite map2_length; lia|].
  apply Forall_forall. intros row Hrow.
  destruct (In_nth _ _ [] Hrow) as [i [Hi Hnth]]. rewrite map2_length in Hi.
  rewrite (nth_map2 _ A B i [] [] []) in Hnth by lia. subst row.
  rewrite map2_length, (wf_row_length r c A i HA), (wf_row_length r' c' B i HB) by lia. lia.
Qed.

Lemma ent_mul2_trunc r c r' c' (A B : mat) i j : wf_mat r c A -> wf_mat r' c' B ->
  (r <= r')%nat -> (c <= c')%nat -> (i < r)%nat -> (j < c)%nat ->
  ent (mul2 O A B) i j = ent A i j * ent B i j.
Proof.
  intros HA HB Hr Hc Hi Hj. pose proof HA as [HlA _]. pose proof HB as [HlB _].
  unfold ent, mul2. rewrite (nth_map2 _ A B i [] [] []) by lia.
  apply nth_map2.
  - rewrite (wf_row_length r c A i HA) by lia. exact Hj.
  - rewrite (wf_row_length r' c' B i HB) by lia. lia.
Qed.

(* the energy fraction as a function of the radius, and the curve as the list of its values *)
Definition ee_val (data : mat) (xc yc r : R) : R :=
  sum2 O (mul2 O (circle O r (2 * (length data / 2)) xc yc false) data) / sum2 O data.

Lemma ee_curve_length (data : mat) xc yc rads : length (ee_curve O data xc yc rads) = length rads.
Proof. unfold ee_curve. cbv zeta. apply map_length. Qed.

Lemma ee_curve_snd (data : mat) xc yc rads :
  map snd (ee_curve O data xc yc rads) = map (ee_val data xc yc) rads.
Proof. unfold ee_curve. cbv zeta. rewrite map_map. reflexivity. Qed.

Lemma ee_curve_nth (data : mat) xc yc rads k : (k < length rads)%nat ->
  snd (nth k (ee_curve O data xc yc rads) (0, 0)) = ee_val data xc yc (nth k rads 0).
Proof.
  intros Hk. unfold ee_curve. cbv zeta.
  rewrite (nth_map_lt _ rads k (0, 0) 0) by exact Hk. reflexivity.
Qed.

Section EE.
Variables (n : nat) (data : mat) (xc yc : R).
Hypothesis Hwf : wf_mat n n data.
Hypothesis Hpos : forall i j, (i < n)%nat -> (j < n)%nat -> 0 <= ent data i j.
Local Notation d := (2 * (n / 2))%nat.

Lemma ee_dim_le : (d <= n)%nat.
Proof. pose proof (Nat.div_mod n 2). pose proof (Nat.mod_upper_bound n 2). lia. Qed.

(* the masked sum: the data over the pixels (of the leading d x d block) inside the circle *)
Lemma ee_num_rsum r :
  sum2 O (mul2 O (circle O r d xc yc false) data)
  = rsum (fun i => rsum (fun j => (if circle_px O r d xc yc false i j then 1 else 0) * ent data i j) d) d.
Proof.
  pose proof ee_dim_le as Hd.
  rewrite (sum2_rsum d d) by (apply (wf_mul2_trunc d d n n); [apply circle_wf|exact Hwf|exact Hd|exact Hd]).
  apply rsum_ext; intros i Hi. apply rsum_ext; intros j Hj.
  rewrite (ent_mul2_trunc d d n n) by (try apply circle_wf; assumption).
  rewrite ent_circle by assumption. reflexivity.
Qed.

Lemma ee_num_nonneg r : 0 <= sum2 O (mul2 O (circle O r d xc yc false) data).
Proof.
  pose proof ee_dim_le as Hd. rewrite ee_num_rsum.
  apply rsum_nonneg; intros i Hi. apply rsum_nonneg; intros j Hj.
  pose proof (Hpos i j ltac:(lia) ltac:(lia)). destruct (circle_px O r d xc yc false i j); lra.
Qed.

Lemma ee_num_le_total r : sum2 O (mul2 O (circle O r d xc yc false) data) <= sum2 O data.
Proof.
  pose proof ee_dim_le as Hd. rewrite ee_num_rsum, (sum2_rsum n n data Hwf).
  apply Rle_trans with (rsum (fun i => rsum (fun j => ent data i j) n) d).
  - apply rsum_le; intros i Hi.
    apply Rle_trans with (rsum (fun j => ent data i j) d).
    + apply rsum_le; intros j Hj. pose proof (Hpos i j ltac:(lia) ltac:(lia)).
      destruct (circle_px O r d xc yc false i j); lra.
    + apply rsum_le_extend; [|exact Hd]. intros j Hj. apply Hpos; lia.
  - apply (rsum_le_extend (fun i => rsum (fun j => ent data i j) n)); [|exact Hd].
    intros i Hi. apply rsum_nonneg; intros j Hj. apply Hpos; lia.
Qed.

Lemma ee_num_mono r1 r2 : 0 <= r1 <= r2 ->
  sum2 O (mul2 O (circle O r1 d xc yc false) data) <= sum2 O (mul2 O (circle O r2 d xc yc false) data).
Proof.
  intros Hr. pose proof ee_dim_le as Hd. rewrite !ee_num_rsum.
  apply rsum_le; intros i Hi. apply rsum_le; intros j Hj.
  pose proof (Hpos i j ltac:(lia) ltac:(lia)).
  destruct (circle_px O r1 d xc yc false i j) eqn:E1.
  - rewrite (circle_nested G K r1 r2 d xc yc false i j Hr E1). lra.
  - destruct (circle_px O r2 d xc yc false i j); lra.
Qed.

Lemma ee_data_length : length data = n.
Proof. destruct Hwf as [Hl _]. exact Hl. Qed.

Hypothesis Htot : 0 < sum2 O data.

Theorem ee_range r : 0 <= ee_val data xc yc r <= 1.
Proof.
  unfold ee_val. rewrite ee_data_length.
  pose proof (ee_num_nonneg r). pose proof (ee_num_le_total r).
  assert (0 < / sum2 O data) by (apply Rinv_0_lt_compat; exact Htot).
  unfold Rdiv. split; [apply Rmult_le_pos; lra|].
  replace 1 with (sum2 O data * / sum2 O data) by (field; lra).
  apply Rmult_le_compat_r; lra.
Qed.

Theorem ee_monotone r1 r2 : 0 <= r1 <= r2 -> ee_val data xc yc r1 <= ee_val data xc yc r2.
Proof.
  intros Hr. unfold ee_val. rewrite ee_data_length.
  pose proof (ee_num_mono r1 r2 Hr).
  assert (0 < / sum2 O data) by (apply Rinv_0_lt_compat; exact Htot).
  unfold Rdiv. apply Rmult_le_compat_r; lra.
Qed.

Theorem ee_range_list rads :
  Forall (fun p => 0 <= snd p <= 1) (ee_curve O data xc yc rads).
Proof.
  apply Forall_forall. intros p Hp. unfold ee_curve in Hp. cbv zeta in Hp.
  apply in_map_iff in Hp. destruct Hp as [r [<- _]]. cbn [snd]. exact (ee_range r).
Qed.

Theorem ee_monotone_list rads k1 k2 : (k1 < length rads)%nat -> (k2 < length rads)%nat ->
  0 <= nth k1 rads 0 <= nth k2 rads 0 ->
  snd (nth k1 (ee_curve O data xc yc rads) (0, 0)) <= snd (nth k2 (ee_curve O data xc yc rads) (0, 0)).
Proof. intros H1 H2 Hr. rewrite !ee_curve_nth by assumption. apply ee_monotone. exact Hr. Qed.
End EE.

(* an empty mask gives energy 0 (no positivity or well-formedness of the total needed) *)
Theorem ee_empty_zero n (data : mat) xc yc r : wf_mat n n data ->
  (forall i j, (i < 2 * (n / 2))%nat -> (j < 2 * (n / 2))%nat ->
     circle_px O r (2 * (n / 2)) xc yc false i j = false) ->
  ee_val data xc yc r = 0.
Proof.
  intros Hwf He. unfold ee_val. rewrite (ee_data_length n data Hwf), (ee_num_rsum n data xc yc Hwf).
  rewrite rsum_zero_ext; [unfold Rdiv; lra|].
  intros i Hi. apply rsum_zero_ext. intros j Hj. rewrite He by assumption. lra.
Qed.

Theorem ee_empty_zero_list n (data : mat) xc yc rads k : wf_mat n n data -> (k < length rads)%nat ->
  (forall i j, (i < 2 * (n / 2))%nat -> (j < 2 * (n / 2))%nat ->
     circle_px O (nth k rads 0) (2 * (n / 2)) xc yc false i j = false) ->
  snd (nth k (ee_curve O data xc yc rads) (0, 0)) = 0.
Proof. intros Hwf Hk He. rewrite ee_curve_nth by exact Hk. apply (ee_empty_zero n); assumption. Qed.

End C16R.

Print Assumptions bin2d_blocks.
Print Assumptions bin2d_wf.
Print Assumptions bin_flux.
Print Assumptions bin_stack_flux.
Print Assumptions zoom_identity.
Print Assumptions zoom_passes_samples.
Print Assumptions zoom_rect_index_order.
Print Assumptions ring_sum_pos.
Print Assumptions azimuthal_const.
Print Assumptions azimuthal_bounds.
Print Assumptions ee_range.
Print Assumptions ee_monotone.
Print Assumptions ee_empty_zero.
