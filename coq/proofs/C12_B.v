(* C12, part B: orthonormality of the Noll-normalised Zernike modes over the unit disc, exact in Q. *)
From Coq Require Import ZArith QArith Qreduction Bool List Arith Lia.
Require Import AOV.model.Zernike AOV.proofs.C12_A AOV.proofs.C12_B1.
Import ListNotations.
Local Open Scope Z_scope.

(* B1 *)
Theorem rad_orthogonal_bounded : forall n1 n2 m,
  0 <= m <= n1 -> n1 <= 40 -> m <= n2 <= 40 ->
  Z.even (n1 - m) = true -> Z.even (n2 - m) = true ->
  (rad_ip n1 n2 m == (if n1 =? n2 then 1 # Z.to_pos (2 * (n1 + 1)) else 0))%Q.
Proof. exact (rad_check_sound RADB rad_check_ok). Qed.

(* ---- mode inner products ---- *)
(* square of the Noll normalisation constant:  c_j^2 = n+1 (m = 0),  2(n+1) (m <> 0) *)
Definition norm2 (n m : Z) : Z := if m =? 0 then n + 1 else 2 * (n + 1).
Definition norm2j (j : Z) : Z := norm2 (fst (zern_index j)) (snd (zern_index j)).
(* (1/pi) int_0^{2pi} A_m(theta)^2 dtheta *)
Definition ang_fac (m : Z) : Q := if m =? 0 then 2%Q else 1%Q.

(* (1/pi) * integral over the unit disc of the UNNORMALISED modes R_n^|m|(r) cos/sin(|m| theta):
   the angular integral vanishes unless |m1| = |m2| and both are of the same (cos/sin) type, i.e. m1 = m2 *)
Definition zern_core (j1 j2 : Z) : Q :=
  let n1 := fst (zern_index j1) in let m1 := snd (zern_index j1) in
  let n2 := fst (zern_index j2) in let m2 := snd (zern_index j2) in
  if m1 =? m2 then (ang_fac m1 * rad_ip n1 n2 (Z.abs m1))%Q else 0%Q.

(* (1/pi) * integral of Z_j1 Z_j2 = c_j1 c_j2 zern_core j1 j2.  For equal n (and equal m) c_j1 c_j2 = norm2
   is rational; for different n the product c_j1 c_j2 is in general irrational, and the value is
   given WITHOUT that (nonzero) factor: it is zero iff the normalised inner product is zero.
   (The real-valued statement with the square roots is noll_orthonormal_R_bounded below.) *)
Definition zern_ip (j1 j2 : Z) : Q :=
  let n1 := fst (zern_index j1) in let m1 := snd (zern_index j1) in
  let n2 := fst (zern_index j2) in let m2 := snd (zern_index j2) in
  if m1 =? m2 then
    if n1 =? n2 then (inject_Z (norm2 n1 m1) * (ang_fac m1 * rad_ip n1 n1 (Z.abs m1)))%Q
    else (ang_fac m1 * rad_ip n1 n2 (Z.abs m1))%Q
  else 0%Q.

Definition JMAX : Z := 861.   (* (40+1)(40+2)/2: all modes of radial order <= 40 *)

Lemma n_le_40 j : 1 <= j <= JMAX -> fst (zern_index j) <= 40.
Proof.
  intros H. destruct (zern_index_order j JMAX ltac:(lia) ltac:(lia)) as [A _].
  replace (fst (zern_index JMAX)) with 40 in A by (vm_compute; reflexivity). exact A.
Qed.

Lemma norm_times_ip n m : 0 <= n ->
  (inject_Z (norm2 n m) * (ang_fac m * (1 # Z.to_pos (2 * (n + 1)))) == 1)%Q.
Proof.
  intros Hn. unfold norm2, ang_fac. destruct (m =? 0);
  unfold Qeq, Qmult, inject_Z; cbn [Qnum Qden];
  rewrite ?Pos2Z.inj_mul, ?Z2Pos.id by lia; lia.
Qed.

Lemma zern_core_spec j1 j2 : 1 <= j1 <= JMAX -> 1 <= j2 <= JMAX ->
  (j1 = j2 -> (inject_Z (norm2j j1) * zern_core j1 j2 == 1)%Q) /\
  (j1 <> j2 -> (zern_core j1 j2 == 0)%Q).
Proof.
  intros H1 H2.
  pose proof (zern_index_valid j1 ltac:(lia)) as (V1 & V1' & V1'').
  pose proof (zern_index_valid j2 ltac:(lia)) as (V2 & V2' & V2'').
  pose proof (n_le_40 j1 H1) as L1. pose proof (n_le_40 j2 H2) as L2.
  pose proof (noll_zern j1 ltac:(lia)) as N1. pose proof (noll_zern j2 ltac:(lia)) as N2.
  unfold zern_core, norm2j.
  set (n1 := fst (zern_index j1)) in *. set (m1 := snd (zern_index j1)) in *.
  set (n2 := fst (zern_index j2)) in *. set (m2 := snd (zern_index j2)) in *.
  split.
  - intros e.
    assert (En : n1 = n2) by (unfold n1, n2; now rewrite e).
    assert (Em : m1 = m2) by (unfold m1, m2; now rewrite e).
    rewrite En, Em, Z.eqb_refl.
    rewrite (rad_orthogonal_bounded n2 n2 (Z.abs m2)) by (assumption || lia).
    rewrite Z.eqb_refl. apply norm_times_ip, V2.
  - intros Hne. destruct (Z.eqb_spec m1 m2) as [e|e]; [|reflexivity].
    rewrite (rad_orthogonal_bounded n1 n2 (Z.abs m1)) by (try assumption; try lia; rewrite e; assumption).
    destruct (Z.eqb_spec n1 n2) as [e'|e']; [|ring].
    exfalso. apply Hne. rewrite <- N1, <- N2, e, e'. reflexivity.
Qed.

(* B2 *)
Theorem noll_orthonormal_bounded : forall j1 j2, 1 <= j1 <= 861 -> 1 <= j2 <= 861 ->
  (zern_ip j1 j2 == (if j1 =? j2 then 1 else 0))%Q.
Proof.
  intros j1 j2 H1 H2. destruct (zern_core_spec j1 j2 H1 H2) as [A B].
  unfold zern_ip, zern_core, norm2j in *.
  destruct (Z.eqb_spec j1 j2) as [e|e].
  - specialize (A e). subst j2. rewrite !Z.eqb_refl in *. exact A.
  - specialize (B e).
    destruct (snd (zern_index j1) =? snd (zern_index j2)); [|reflexivity].
    destruct (Z.eqb_spec (fst (zern_index j1)) (fst (zern_index j2))) as [e'|e']; [|exact B].
    rewrite <- e' in B. rewrite B. ring.
Qed.
