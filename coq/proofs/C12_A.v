(* C12, part A: Noll indexing, unbounded, pure integer arithmetic. *)
From Coq Require Import ZArith QArith Bool List Arith Lia.
Require Import AOV.model.Zernike.
Import ListNotations.
Local Open Scope Z_scope.

Ltac Zify.zify_post_hook ::= Z.to_euclidean_division_equations.

(* n(n+1) is even *)
Lemma tri_even n : exists t, n * (n + 1) = 2 * t.
Proof.
  pose proof (Zmod_even n) as H. destruct (Z.even n).
  - exists ((n / 2) * (n + 1)). assert (n = 2 * (n / 2)) by lia. nia.
  - exists (n * ((n + 1) / 2)). assert (n + 1 = 2 * ((n + 1) / 2)) by lia. nia.
Qed.

(* the row n of Noll index j is characterised by  n(n+1)/2 < j <= n(n+1)/2 + n + 1 *)
Lemma zern_n_spec j : 1 <= j ->
  let n := (Z.sqrt (8 * (j - 1) + 1) - 1) / 2 in
  exists t, 0 <= n /\ n * (n + 1) = 2 * t /\ t < j <= t + n + 1.
Proof.
  intros Hj n.
  set (a := 8 * (j - 1) + 1) in *. set (s := Z.sqrt a) in *.
  assert (Ha : 0 <= a) by (unfold a; lia).
  pose proof (Z.sqrt_spec a Ha) as [H1 H2]. fold s in H1, H2.
  pose proof (Z.sqrt_nonneg a) as Hs0. fold s in Hs0.
  assert (Hs1 : 1 <= s) by (unfold a in *; nia).
  assert (Hn : 2 * n + 1 <= s <= 2 * n + 2) by (unfold n; lia).
  assert (Hn0 : 0 <= n) by lia.
  destruct (tri_even n) as [t Ht]. exists t.
  assert (L : (2 * n + 1) * (2 * n + 1) <= s * s) by (apply Z.mul_le_mono_nonneg; lia).
  assert (U : Z.succ s * Z.succ s <= (2 * n + 3) * (2 * n + 3)) by (apply Z.mul_le_mono_nonneg; lia).
  unfold a in *. repeat split; try lia; nia.
Qed.

Lemma zern_n_unique j n t : 0 <= n -> n * (n + 1) = 2 * t -> t < j <= t + n + 1 ->
  (Z.sqrt (8 * (j - 1) + 1) - 1) / 2 = n.
Proof.
  intros Hn Ht Hj.
  set (a := 8 * (j - 1) + 1). 
  assert (Ha : 0 <= a) by (unfold a; lia).
  assert (L : 2 * n + 1 <= Z.sqrt a).
  { apply Z.sqrt_le_square; unfold a; nia. }
  assert (U : Z.sqrt a < 2 * n + 3).
  { apply Z.sqrt_lt_square; unfold a; nia. }
  lia.
Qed.

Definition m_of (n j t : Z) : Z :=
  let p := j - t in let k := n mod 2 in let m := ((p + k) / 2) * 2 - k in
  if m =? 0 then 0 else if Z.even j then m else - m.

Lemma zern_index_spec j : 1 <= j ->
  exists n t, 0 <= n /\ n * (n + 1) = 2 * t /\ t < j <= t + n + 1 /\
              zern_index j = (n, m_of n j t).
Proof.
  intros Hj. destruct (zern_n_spec j Hj) as [t (H0 & Ht & Hr)].
  set (n := (Z.sqrt (8 * (j - 1) + 1) - 1) / 2) in *.
  exists n, t. repeat split; try lia.
  unfold zern_index, m_of. fold n.
  replace (n * (n + 1) / 2) with t by lia. reflexivity.
Qed.

Ltac evn x := let H := fresh "E" in pose proof (Zmod_even x) as H; destruct (Z.even x).

Theorem zern_index_valid : forall j, 1 <= j -> valid_nm (fst (zern_index j)) (snd (zern_index j)).
Proof.
  intros j Hj. destruct (zern_index_spec j Hj) as (n & t & H0 & Ht & Hr & ->). cbn [fst snd].
  unfold valid_nm, m_of.
  destruct (Z.eqb_spec ((j - t + n mod 2) / 2 * 2 - n mod 2) 0) as [e|e].
  - repeat split; try lia. evn (n - Z.abs 0); lia.
  - evn j.
    + repeat split; try lia. evn (n - Z.abs ((j - t + n mod 2) / 2 * 2 - n mod 2)); lia.
    + repeat split; try lia. evn (n - Z.abs (- ((j - t + n mod 2) / 2 * 2 - n mod 2))); lia.
Qed.

Theorem noll_zern : forall j, 1 <= j -> noll_of_nm (fst (zern_index j)) (snd (zern_index j)) = j.
Proof.
  intros j Hj. destruct (zern_index_spec j Hj) as (n & t & H0 & Ht & Hr & ->). cbn [fst snd].
  unfold noll_of_nm, m_of.
  replace (n * (n + 1) / 2) with t by lia.
  set (m := (j - t + n mod 2) / 2 * 2 - n mod 2).
  assert (Hm : 0 <= m <= n) by (unfold m; lia).
  destruct (Z.eqb_spec m 0) as [e|e].
  - cbn. unfold m in *. lia.
  - evn j.
    + destruct (Z.eqb_spec m 0); [lia|].
      destruct (Z.ltb_spec 0 m); [|lia].
      evn (t + Z.abs m); cbn; unfold m in *; lia.
    + destruct (Z.eqb_spec (- m) 0); [lia|].
      destruct (Z.ltb_spec 0 (- m)); [lia|].
      evn (t + Z.abs (- m)); cbn; unfold m in *; lia.
Qed.

Theorem zern_noll : forall n m, valid_nm n m ->
  zern_index (noll_of_nm n m) = (n, m) /\ 1 <= noll_of_nm n m.
Proof.
  intros n m (Hn & Hm & He).
  destruct (tri_even n) as [t Ht].
  assert (Hpar : (n - Z.abs m) mod 2 = 0) by (pose proof (Zmod_even (n - Z.abs m)) as E; rewrite He in E; exact E).
  assert (Ht0 : 0 <= t) by nia.
  assert (Hj : t < noll_of_nm n m <= t + n + 1).
  { unfold noll_of_nm. replace (n * (n + 1) / 2) with t by lia.
    destruct (Z.eqb_spec m 0); [lia|].
    destruct (Bool.eqb _ _); lia. }
  split; [|lia].
  unfold zern_index. rewrite (zern_n_unique _ n t Hn Ht Hj).
  replace (n * (n + 1) / 2) with t by lia. f_equal.
  revert Hj. unfold noll_of_nm. replace (n * (n + 1) / 2) with t by lia.
  destruct (Z.eqb_spec m 0) as [e|e].
  - intros _. subst m. 
    destruct (Z.eqb_spec ((t + 1 - t + n mod 2) / 2 * 2 - n mod 2) 0); [reflexivity|].
    exfalso. cbn in Hpar. lia.
  - intros Hj.
    destruct (Z.ltb_spec 0 m) as [Hp|Hp];
    evn (t + Z.abs m); cbn [Bool.eqb] in *.
    + set (j := t + Z.abs m) in *.
      destruct (Z.eqb_spec ((j - t + n mod 2) / 2 * 2 - n mod 2) 0); [unfold j in *; lia|].
      evn j; unfold j in *; lia.
    + set (j := t + Z.abs m + 1) in *.
      destruct (Z.eqb_spec ((j - t + n mod 2) / 2 * 2 - n mod 2) 0); [unfold j in *; lia|].
      evn j; unfold j in *; lia.
    + set (j := t + Z.abs m + 1) in *.
      destruct (Z.eqb_spec ((j - t + n mod 2) / 2 * 2 - n mod 2) 0); [unfold j in *; lia|].
      evn j; unfold j in *; lia.
    + set (j := t + Z.abs m) in *.
      destruct (Z.eqb_spec ((j - t + n mod 2) / 2 * 2 - n mod 2) 0); [unfold j in *; lia|].
      evn j; unfold j in *; lia.
Qed.

Lemma m_of_abs n j t : 0 <= n -> t < j ->
  Z.abs (m_of n j t) = (j - t + n mod 2) / 2 * 2 - n mod 2 /\
  (0 < m_of n j t -> Z.even j = true) /\ (m_of n j t < 0 -> Z.even j = false).
Proof.
  intros Hn Hj. unfold m_of.
  set (m := (j - t + n mod 2) / 2 * 2 - n mod 2).
  assert (0 <= m) by (unfold m; lia).
  destruct (Z.eqb_spec m 0); [lia|].
  destruct (Z.even j); repeat split; lia.
Qed.

Theorem zern_index_parity : forall j, 1 <= j ->
  (0 < snd (zern_index j) -> Z.even j = true) /\ (snd (zern_index j) < 0 -> Z.even j = false).
Proof.
  intros j Hj. destruct (zern_index_spec j Hj) as (n & t & H0 & Ht & Hr & ->). cbn [fst snd].
  destruct (m_of_abs n j t H0 (proj1 Hr)) as (_ & A & B). split; assumption.
Qed.

Theorem zern_index_order : forall j1 j2, 1 <= j1 -> j1 <= j2 ->
  fst (zern_index j1) <= fst (zern_index j2) /\
  (fst (zern_index j1) = fst (zern_index j2) ->
   Z.abs (snd (zern_index j1)) <= Z.abs (snd (zern_index j2))).
Proof.
  intros j1 j2 H1 H12.
  destruct (zern_index_spec j1 H1) as (n1 & t1 & Hn1 & Ht1 & Hr1 & ->).
  destruct (zern_index_spec j2 ltac:(lia)) as (n2 & t2 & Hn2 & Ht2 & Hr2 & ->).
  cbn [fst snd].
  assert (Hle : n1 <= n2).
  { destruct (Z_le_gt_dec n1 n2) as [|Hgt]; [assumption|exfalso].
    assert ((n2 + 1) * (n2 + 1 + 1) <= n1 * (n1 + 1)) by (apply Z.mul_le_mono_nonneg; lia).
    lia. }
  split; [assumption|]. intros ->.
  assert (t1 = t2) by lia. subst t2.
  destruct (m_of_abs n2 j1 t1 Hn2 (proj1 Hr1)) as (-> & _).
  destruct (m_of_abs n2 j2 t1 Hn2 (proj1 Hr2)) as (-> & _).
  lia.
Qed.

(* ---- finite ranges of Z and lifting of boolean checks ---- *)
Definition zrange (lo hi : Z) : list Z :=
  map (fun k => lo + Z.of_nat k) (seq 0 (Z.to_nat (hi - lo + 1))).

Lemma In_zrange lo hi x : lo <= x <= hi -> In x (zrange lo hi).
Proof.
  intros H. unfold zrange. apply in_map_iff. exists (Z.to_nat (x - lo)). split; [lia|].
  apply in_seq. lia.
Qed.

Lemma forallb_zrange (f : Z -> bool) lo hi :
  forallb f (zrange lo hi) = true -> forall x, lo <= x <= hi -> f x = true.
Proof. intros H x Hx. rewrite forallb_forall in H. apply H, In_zrange, Hx. Qed.

Lemma forallb_seq (f : nat -> bool) a len :
  forallb f (seq a len) = true -> forall x, (a <= x < a + len)%nat -> f x = true.
Proof. intros H x Hx. rewrite forallb_forall in H. apply H, in_seq, Hx. Qed.

(* ---- A6: the (n, |m|) lists built by makegammas' loops are the Noll order ---- *)
Definition zz_eqb (a b : Z * Z) : bool := (fst a =? fst b) && (snd a =? snd b).
Fixpoint zzlist_eqb (l1 l2 : list (Z * Z)) : bool :=
  match l1, l2 with
  | [], [] => true
  | a :: r1, b :: r2 => zz_eqb a b && zzlist_eqb r1 r2
  | _, _ => false
  end.
Lemma zzlist_eqb_eq l1 : forall l2, zzlist_eqb l1 l2 = true -> l1 = l2.
Proof.
  induction l1 as [|[a1 a2] r1 IH]; intros [|[b1 b2] r2]; cbn; try discriminate; [reflexivity|].
  unfold zz_eqb; cbn. intros H. apply andb_prop in H as [H1 H2]. apply andb_prop in H1 as [Ha Hb].
  apply Z.eqb_eq in Ha, Hb. subst. f_equal. apply IH, H2.
Qed.

Definition noll_nm_list (nzrad : nat) : list (Z * Z) :=
  map (fun j => (fst (zern_index j), Z.abs (snd (zern_index j))))
      (zrange 1 ((Z.of_nat nzrad + 1) * (Z.of_nat nzrad + 2) / 2)).

Lemma gam_nm_noll_check :
  forallb (fun nzrad => zzlist_eqb (gam_nm nzrad) (noll_nm_list nzrad)) (seq 0 13) = true.
Proof. vm_compute. reflexivity. Qed.

Theorem gam_nm_noll_bounded : forall nzrad, (nzrad <= 12)%nat -> gam_nm nzrad = noll_nm_list nzrad.
Proof.
  intros nzrad H. apply zzlist_eqb_eq.
  apply (forallb_seq _ _ _ gam_nm_noll_check). lia.
Qed.

Lemma gam_nm_length_bounded : forall nzrad, (nzrad <= 12)%nat ->
  Z.of_nat (length (gam_nm nzrad)) = (Z.of_nat nzrad + 1) * (Z.of_nat nzrad + 2) / 2.
Proof.
  intros nzrad H. rewrite (gam_nm_noll_bounded nzrad H). unfold noll_nm_list, zrange.
  rewrite !map_length, seq_length. 
  assert (0 <= (Z.of_nat nzrad + 1) * (Z.of_nat nzrad + 2) / 2) by (apply Z.div_pos; lia).
  lia.
Qed.
