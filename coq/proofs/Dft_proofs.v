(* Discrete Fourier transform over the reals: inversion, linearity, Parseval, shifts, 2-D versions,
   centred form.  All statements are about the definitions of base/Cplx.v at the real instance. *)
From Coq Require Import ZArith Reals Bool List Arith Lra Lia.
Require Import AOV.base.Num AOV.base.NumR AOV.base.RpowTac AOV.base.Cplx.
Import ListNotations.
Local Open Scope R_scope.

(* ------------------------------------------------------------------------------------------ *)
(* generic list facts                                                                          *)
(* ------------------------------------------------------------------------------------------ *)

Lemma map2_length {A B C} (f : A -> B -> C) l1 l2 :
  length (map2 f l1 l2) = Nat.min (length l1) (length l2).
Proof. revert l2; induction l1 as [|a l1 IH]; intros [|b l2]; simpl; auto. Qed.

Lemma map2_length_eq {A B C} (f : A -> B -> C) l1 l2 :
  length l1 = length l2 -> length (map2 f l1 l2) = length l1.
Proof. intros H; rewrite map2_length, <- H; apply Nat.min_id. Qed.

Lemma mapi_from_length {A B} (f : nat -> A -> B) i l : length (mapi_from f i l) = length l.
Proof. revert i; induction l as [|a l IH]; intros i; simpl; auto. Qed.

Lemma nth_map_seq {B} (f : nat -> B) n k d : (k < n)%nat -> nth k (map f (seq 0 n)) d = f k.
Proof.
  intros Hk. rewrite (nth_indep _ d (f 0%nat)) by (rewrite map_length, seq_length; exact Hk).
  rewrite map_nth, seq_nth by exact Hk. reflexivity.
Qed.

Lemma rot_app {A} (a b : list A) h : length a = h ->
  skipn h (a ++ b) = b /\ firstn h (a ++ b) = a.
Proof.
  intros <-. split.
  - rewrite skipn_app, skipn_all, Nat.sub_diag. reflexivity.
  - rewrite firstn_app, firstn_all, Nat.sub_diag. simpl. apply app_nil_r.
Qed.

(* ---- fftshift / ifftshift (item 4) ---- *)

Lemma fftshift_length {A} (l : list A) : length (fftshift l) = length l.
Proof.
  unfold fftshift. rewrite app_length, skipn_length, firstn_length.
  pose proof (Nat.div_le_upper_bound (length l) 2 (length l)). lia.
Qed.

Lemma ifftshift_length {A} (l : list A) : length (ifftshift l) = length l.
Proof.
  unfold ifftshift. rewrite app_length, skipn_length, firstn_length.
  pose proof (Nat.div_le_upper_bound (length l) 2 (length l)). lia.
Qed.

Lemma half_le n : (n / 2 <= n)%nat.
Proof. apply Nat.div_le_upper_bound; lia. Qed.

Lemma ifftshift_fftshift {A} (l : list A) : ifftshift (fftshift l) = l.
Proof.
  unfold ifftshift. rewrite fftshift_length. unfold fftshift.
  set (n := length l). set (h := (n / 2)%nat).
  assert (Hh : (h <= n)%nat) by apply half_le.
  destruct (rot_app (skipn (n - h) l) (firstn (n - h) l) h) as [E1 E2].
  { rewrite skipn_length. fold n. lia. }
  rewrite E1, E2. apply firstn_skipn.
Qed.

Lemma fftshift_ifftshift' {A} (l : list A) : fftshift (ifftshift l) = l.
Proof.
  unfold fftshift. rewrite ifftshift_length. unfold ifftshift.
  set (n := length l). set (h := (n / 2)%nat).
  assert (Hh : (h <= n)%nat) by apply half_le.
  destruct (rot_app (skipn h l) (firstn h l) (n - h)) as [E1 E2].
  { rewrite skipn_length. reflexivity. }
  rewrite E1, E2. apply firstn_skipn.
Qed.

Theorem fftshift_ifftshift : forall A (l : list A),
  ifftshift (fftshift l) = l /\ fftshift (ifftshift l) = l.
Proof. intros; split; [apply ifftshift_fftshift | apply fftshift_ifftshift']. Qed.

Lemma even_half n : Nat.even n = true -> (n - n / 2 = n / 2)%nat.
Proof.
  intros H. apply Nat.even_spec in H. destruct H as [m ->].
  rewrite Nat.mul_comm, Nat.div_mul by lia. lia.
Qed.

Theorem fftshift_even : forall A (l : list A),
  Nat.even (length l) = true -> fftshift l = ifftshift l.
Proof. intros A l H. unfold fftshift, ifftshift. rewrite (even_half _ H). reflexivity. Qed.

Lemma map_fftshift {A B} (f : A -> B) l : map f (fftshift l) = fftshift (map f l).
Proof. unfold fftshift. rewrite map_app, map_length, skipn_map, firstn_map. reflexivity. Qed.

Lemma map_ifftshift {A B} (f : A -> B) l : map f (ifftshift l) = ifftshift (map f l).
Proof. unfold ifftshift. rewrite map_app, map_length, skipn_map, firstn_map. reflexivity. Qed.

Lemma map_id_ext {A} (f : A -> A) l : (forall a, f a = a) -> map f l = l.
Proof. intros H. rewrite (map_ext f (fun a => a) H). apply map_id. Qed.

Theorem ifftshift2_fftshift2 : forall A (m : list (list A)), ifftshift2 (fftshift2 m) = m.
Proof.
  intros A m. unfold ifftshift2, fftshift2.
  rewrite map_fftshift, ifftshift_fftshift, map_map.
  apply map_id_ext. intros; apply ifftshift_fftshift.
Qed.

Theorem fftshift2_ifftshift2 : forall A (m : list (list A)), fftshift2 (ifftshift2 m) = m.
Proof.
  intros A m. unfold ifftshift2, fftshift2.
  rewrite map_ifftshift, fftshift_ifftshift', map_map.
  apply map_id_ext. intros; apply fftshift_ifftshift'.
Qed.

(* ------------------------------------------------------------------------------------------ *)
(* finite sums of pairs of reals, e^{it}                                                       *)
(* ------------------------------------------------------------------------------------------ *)

Notation RC := (R * R)%type.

(* sum_{i<n} f i, componentwise (coincides with iterated cadd at the real instance) *)
Fixpoint bigsum (f : nat -> RC) (n : nat) : RC :=
  match n with
  | O => (0, 0)
  | S m => (fst (bigsum f m) + fst (f m), snd (bigsum f m) + snd (f m))
  end.

Definition E (t : R) : RC := (cos t, sin t).

Ltac cdestr :=
  repeat match goal with z : ?T |- _ =>
    match eval hnf in T with (prod R R) => destruct z end end.
Ltac cunf :=
  cbv [cadd cmul csub copp cscale cconj czero cone cofR cis cabs2 cre cim E]; rops;
  cbn [fst snd bigsum]; change (@cx R) with (prod R R).
Ltac ncx := change (@cx R) with (prod R R) in *.
Ltac cring := intros; cdestr; cunf; apply injective_projections; cbn [fst snd]; ring.
Ltac cfield := intros; cdestr; cunf; apply injective_projections; cbn [fst snd]; field.

Section DftR.
Variables (G : R -> R) (K : R -> R -> R).
Local Notation O := (ROps G K).

Lemma bigsum_S f n : bigsum f (S n) = cadd O (bigsum f n) (f n).
Proof. reflexivity. Qed.

Lemma bigsum_ext f g n : (forall i, (i < n)%nat -> f i = g i) -> bigsum f n = bigsum g n.
Proof.
  induction n as [|n IH]; intros H; [reflexivity|].
  rewrite !bigsum_S, IH, H by (intros; try apply H; lia). reflexivity.
Qed.

Lemma bigsum_zero n : bigsum (fun _ => czero O) n = czero O.
Proof. induction n as [|n IH]; [reflexivity|]. rewrite bigsum_S, IH. cring. Qed.

Lemma bigsum_add f g n :
  bigsum (fun i => cadd O (f i) (g i)) n = cadd O (bigsum f n) (bigsum g n).
Proof.
  induction n as [|n IH]; [cring|]. rewrite !bigsum_S, IH.
  cring.
Qed.

Lemma bigsum_mul_l a f n : bigsum (fun i => cmul O a (f i)) n = cmul O a (bigsum f n).
Proof.
  induction n as [|n IH]; [cring|]. rewrite !bigsum_S, IH.
  cring.
Qed.

Lemma bigsum_mul_r a f n : bigsum (fun i => cmul O (f i) a) n = cmul O (bigsum f n) a.
Proof.
  induction n as [|n IH]; [cring|]. rewrite !bigsum_S, IH.
  cring.
Qed.

Lemma bigsum_scale r f n : bigsum (fun i => cscale O r (f i)) n = cscale O r (bigsum f n).
Proof.
  induction n as [|n IH]; [cring|]. rewrite !bigsum_S, IH.
  cring.
Qed.

Lemma bigsum_conj f n : bigsum (fun i => cconj O (f i)) n = cconj O (bigsum f n).
Proof.
  induction n as [|n IH]; [cring|]. rewrite !bigsum_S, IH.
  cring.
Qed.

Lemma bigsum_exch (f : nat -> nat -> RC) n m :
  bigsum (fun i => bigsum (fun j => f i j) m) n = bigsum (fun j => bigsum (fun i => f i j) n) m.
Proof.
  induction n as [|n IH].
  - simpl. symmetry. apply (bigsum_zero m).
  - rewrite bigsum_S, IH, <- bigsum_add. apply bigsum_ext. intros; reflexivity.
Qed.

Lemma bigsum_split f a b :
  bigsum f (a + b) = cadd O (bigsum f a) (bigsum (fun i => f (a + i)%nat) b).
Proof.
  induction b as [|b IH].
  - rewrite Nat.add_0_r. simpl. cring.
  - rewrite Nat.add_succ_r, !bigsum_S, IH.
    cring.
Qed.

Lemma bigsum_S_l f n : bigsum f (S n) = cadd O (f 0%nat) (bigsum (fun i => f (S i)) n).
Proof.
  change (S n) with (1 + n)%nat. rewrite bigsum_split. f_equal.
  simpl. cring.
Qed.

Lemma bigsum_single f n m : (m < n)%nat ->
  (forall i, (i < n)%nat -> i <> m -> f i = czero O) -> bigsum f n = f m.
Proof.
  intros Hm Hz. replace n with (m + S (n - m - 1))%nat by lia.
  rewrite bigsum_split, bigsum_S_l, Nat.add_0_r.
  rewrite (bigsum_ext f (fun _ => czero O) m) by (intros; apply Hz; lia).
  rewrite (bigsum_ext _ (fun _ => czero O) (n - m - 1)) by (intros; apply Hz; lia).
  rewrite !bigsum_zero. cring.
Qed.

(* ---- link with csum / mapi of the definitions ---- *)

Lemma fold_cadd_acc l a : fold_left (cadd O) l a = cadd O a (fold_left (cadd O) l (czero O)).
Proof.
  revert a; induction l as [|x l IH]; intros a; simpl.
  - cring.
  - rewrite IH, (IH (cadd O (czero O) x)).
    cring.
Qed.

Lemma csum_cons a l : csum O (a :: l) = cadd O a (csum O l).
Proof.
  unfold csum. simpl. rewrite fold_cadd_acc.
  cring.
Qed.

Lemma csum_mapi_from (f : nat -> RC -> RC) i l :
  csum O (mapi_from f i l)
  = bigsum (fun n => f (i + n)%nat (nth n l (czero O))) (length l).
Proof.
  revert i; induction l as [|a l IH]; intros i; [reflexivity|].
  cbn [mapi_from length]. rewrite csum_cons, bigsum_S_l, IH, Nat.add_0_r. f_equal.
  apply bigsum_ext. intros n _. rewrite Nat.add_succ_r. reflexivity.
Qed.

Lemma csum_mapi (f : nat -> RC -> RC) l :
  csum O (mapi f l) = bigsum (fun n => f n (nth n l (czero O))) (length l).
Proof. unfold mapi. rewrite csum_mapi_from. reflexivity. Qed.

(* ---- e^{it} ---- *)

Lemma E_add a b : E (a + b) = cmul O (E a) (E b).
Proof. cunf. rewrite cos_plus, sin_plus. f_equal; ring. Qed.

Lemma E_0 : E 0 = (1, 0).
Proof. unfold E. rewrite cos_0, sin_0. reflexivity. Qed.

Lemma E_neg a : E (- a) = cconj O (E a).
Proof. cunf. rewrite cos_neg, sin_neg. reflexivity. Qed.

Lemma E_period t n : E (t + 2 * PI * INR n) = E t.
Proof.
  unfold E. replace (t + 2 * PI * INR n) with (t + 2 * INR n * PI) by ring.
  rewrite cos_period, sin_period. reflexivity.
Qed.

Lemma E_period_Z t z : E (t + 2 * PI * IZR z) = E t.
Proof.
  destruct (Z_le_gt_dec 0 z) as [Hz|Hz].
  - rewrite <- (Z2Nat.id z Hz), <- INR_IZR_INZ. apply E_period.
  - rewrite <- (E_period (t + 2 * PI * IZR z) (Z.to_nat (- z))).
    rewrite INR_IZR_INZ, Z2Nat.id by lia. rewrite opp_IZR. f_equal. ring.
Qed.

Lemma E_2PI_nat n : E (2 * PI * INR n) = (1, 0).
Proof. rewrite <- E_0. rewrite <- (E_period 0 n). f_equal. ring. Qed.

Lemma sin_half_ne_0 u : - PI < u < PI -> u <> 0 -> sin u <> 0.
Proof.
  intros [H1 H2] H0. destruct (Rlt_or_le 0 u) as [Hp|Hn].
  - apply Rgt_not_eq. apply sin_gt_0; assumption.
  - assert (Hs : 0 < sin (- u)) by (apply sin_gt_0; lra).
    rewrite sin_neg in Hs. lra.
Qed.

Lemma E_ne_1 t : - (2 * PI) < t < 2 * PI -> t <> 0 -> E t <> (1, 0).
Proof.
  intros Ht H0 He. unfold E in He. injection He as Hc _.
  replace t with (2 * (t / 2)) in Hc by field. rewrite cos_2a_sin in Hc.
  assert (Hs : sin (t / 2) <> 0) by (apply sin_half_ne_0; lra).
  apply Hs. apply Rsqr_0_uniq. unfold Rsqr. lra.
Qed.

Lemma cmul_integral (z s : RC) : cmul O z s = (0, 0) -> z <> (0, 0) -> s = (0, 0).
Proof.
  destruct z as [a b], s as [c d]. cunf. intros H Hz. injection H as H1 H2.
  assert (Hn : a * a + b * b <> 0).
  { intros Hq. apply Hz. 
    assert (a = 0) by (apply Rsqr_0_uniq; unfold Rsqr; nra).
    assert (b = 0) by (apply Rsqr_0_uniq; unfold Rsqr; nra). subst; reflexivity. }
  assert (Hc : (a * a + b * b) * c = 0) by (replace ((a * a + b * b) * c) with (a * (a * c - b * d) + b * (a * d + b * c)) by ring; rewrite H1, H2; ring).
  assert (Hd : (a * a + b * b) * d = 0) by (replace ((a * a + b * b) * d) with (a * (a * d + b * c) - b * (a * c - b * d)) by ring; rewrite H1, H2; ring).
  apply Rmult_integral in Hc. apply Rmult_integral in Hd.
  destruct Hc as [Hc|Hc]; [contradiction|]. destruct Hd as [Hd|Hd]; [contradiction|].
  subst; reflexivity.
Qed.

Lemma geom t n :
  cmul O (csub O (E t) (1, 0)) (bigsum (fun k => E (INR k * t)) n) = csub O (E (INR n * t)) (1, 0).
Proof.
  induction n as [|n IH].
  - simpl. rewrite Rmult_0_l, E_0. cring.
  - rewrite bigsum_S, S_INR.
    replace ((INR n + 1) * t) with (INR n * t + t) by ring. rewrite E_add.
    revert IH. generalize (bigsum (fun k => E (INR k * t)) n) (E (INR n * t)) (E t).
    intros [s1 s2] [p1 p2] [e1 e2]. cunf. intros IH. injection IH as I1 I2.
    f_equal; nra.
Qed.

Lemma geom_zero t n : E t <> (1, 0) -> E (INR n * t) = (1, 0) ->
  bigsum (fun k => E (INR k * t)) n = (0, 0).
Proof.
  intros Hne H1. apply (cmul_integral (csub O (E t) (1, 0))).
  - rewrite geom, H1. cring.
  - intros Hz. apply Hne. revert Hz. generalize (E t). intros [a b]. cunf.
    intros Hz. injection Hz as Ha Hb. f_equal; lra.
Qed.

Lemma geom_one t n : E t = (1, 0) -> bigsum (fun k => E (INR k * t)) n = (INR n, 0).
Proof.
  intros H1. induction n as [|n IH]; [reflexivity|].
  rewrite bigsum_S, IH, S_INR.
  assert (He : E (INR n * t) = (1, 0)).
  { clear IH. induction n as [|n IH]; [rewrite Rmult_0_l; apply E_0|].
    rewrite S_INR. replace ((INR n + 1) * t) with (INR n * t + t) by ring.
    rewrite E_add, IH, H1. cring. }
  rewrite He. cring.
Qed.

(* orthogonality of the characters of Z/N *)
Lemma orth N n m : (n < N)%nat -> (m < N)%nat ->
  bigsum (fun k => E (INR k * (2 * PI * (INR n - INR m) / INR N))) N
  = if Nat.eq_dec n m then (INR N, 0) else (0, 0).
Proof.
  intros Hn Hm.
  assert (HN : 0 < INR N) by (apply lt_0_INR; lia).
  destruct (Nat.eq_dec n m) as [->|Hne].
  - apply geom_one. rewrite Rminus_diag_eq by reflexivity.
    rewrite <- E_0. f_equal. field. lra.
  - apply geom_zero.
    + assert (Hd : INR n - INR m <> 0).
      { intros Hq. apply Hne. apply INR_eq. lra. }
      assert (Hb : - INR N < INR n - INR m < INR N).
      { apply lt_INR in Hn. apply lt_INR in Hm.
        pose proof (pos_INR n). pose proof (pos_INR m). lra. }
      pose proof PI_RGT_0 as Hpi.
      apply E_ne_1.
      * replace (2 * PI * (INR n - INR m) / INR N) with (2 * PI * ((INR n - INR m) / INR N))
          by (field; lra).
        assert (-1 < (INR n - INR m) / INR N < 1).
        { split.
          - apply Rmult_lt_reg_r with (INR N); [lra|]. unfold Rdiv.
            rewrite Rmult_assoc, Rinv_l by lra. lra.
          - apply Rmult_lt_reg_r with (INR N); [lra|]. unfold Rdiv.
            rewrite Rmult_assoc, Rinv_l by lra. lra. }
        nra.
      * intros Hq. apply Hd.
        assert (Hq' : 2 * PI * (INR n - INR m) / INR N * INR N = 0) by (rewrite Hq; ring).
        replace (2 * PI * (INR n - INR m) / INR N * INR N) with (2 * PI * (INR n - INR m)) in Hq'
          by (field; lra).
        apply Rmult_integral in Hq'. destruct Hq' as [Hq'|Hq']; lra.
    + replace (INR N * (2 * PI * (INR n - INR m) / INR N))
        with (2 * PI * INR n + - (2 * PI * INR m)) by (field; lra).
      rewrite E_add, E_neg, !E_2PI_nat. cring.
Qed.

(* ---- roots of unity of the definitions ---- *)

Definition W (N m : nat) : RC := E (- (2 * PI * INR m / INR N)).

Lemma root_W N m : (0 < N)%nat -> root O N m = W N m.
Proof.
  intros HN. assert (HN' : 0 < INR N) by (apply lt_0_INR; lia).
  unfold root, two_pi, cis, W. rops. rewrite <- !INR_IZR_INZ. fold (E (- (2 * PI * INR (m mod N) / INR N))).
  rewrite <- (E_period (- (2 * PI * INR m / INR N)) (m / N)). f_equal.
  rewrite (Nat.div_mod m N) at 2 by lia.
  rewrite plus_INR, mult_INR. field. lra.
Qed.

Lemma iroot_W N m : (0 < N)%nat -> iroot O N m = cconj O (W N m).
Proof. intros HN. unfold iroot. rewrite root_W by exact HN. reflexivity. Qed.

(* ---- transforms given by a kernel:  (ktr Kf x)_k = sum_n x_n * Kf N n k ---- *)

Definition ktr (Kf : nat -> nat -> nat -> RC) (x : list RC) : list RC :=
  map (fun k => bigsum (fun n => cmul O (nth n x (czero O)) (Kf (length x) n k)) (length x))
      (seq 0 (length x)).

Definition Kdft (N n k : nat) : RC := W N (n * k).
Definition Kidft (N n k : nat) : RC := cscale O (1 / INR N) (cconj O (W N (n * k))).

Lemma ktr_length Kf x : length (ktr Kf x) = length x.
Proof. unfold ktr. rewrite map_length, seq_length. reflexivity. Qed.

Lemma nth_ktr Kf x k d : (k < length x)%nat ->
  nth k (ktr Kf x) d
  = bigsum (fun n => cmul O (nth n x (czero O)) (Kf (length x) n k)) (length x).
Proof. intros Hk. unfold ktr. rewrite nth_map_seq by exact Hk. reflexivity. Qed.

Lemma ktr_nil Kf : ktr Kf [] = [].
Proof. reflexivity. Qed.

Lemma dft_ktr x : dft O x = ktr Kdft x.
Proof.
  unfold dft, ktr. apply map_ext_in. intros k Hk. apply in_seq in Hk.
  rewrite csum_mapi. apply bigsum_ext. intros n Hn.
  rewrite root_W by exact (Nat.le_lt_trans _ _ _ (Nat.le_0_l n) Hn). reflexivity.
Qed.

Lemma idft_ktr x : idft O x = ktr Kidft x.
Proof.
  unfold idft, ktr. apply map_ext_in. intros k Hk. apply in_seq in Hk.
  rewrite csum_mapi, <- bigsum_scale. apply bigsum_ext. intros n Hn.
  rewrite iroot_W by exact (Nat.le_lt_trans _ _ _ (Nat.le_0_l n) Hn). unfold Kidft.
  replace (ndiv O (none O) (nofZ O (Z.of_nat (length x)))) with (1 / INR (length x))
    by (rops; rewrite <- INR_IZR_INZ; reflexivity).
  cring.
Qed.

Theorem dft_length : forall x, length (dft O x) = length x.
Proof. intros x. rewrite dft_ktr. apply ktr_length. Qed.

Theorem idft_length : forall x, length (idft O x) = length x.
Proof. intros x. rewrite idft_ktr. apply ktr_length. Qed.

(* ---- linearity (item 5) ---- *)

Definition lincomb (a b : RC) (x y : list RC) : list RC :=
  map2 (cadd O) (map (cmul O a) x) (map (cmul O b) y).

Lemma lincomb_length a b x y : length x = length y -> length (lincomb a b x y) = length x.
Proof. intros H. unfold lincomb. rewrite map2_length_eq; rewrite !map_length; auto. Qed.

Lemma nth_lincomb a b x y n : length x = length y ->
  nth n (lincomb a b x y) (czero O)
  = cadd O (cmul O a (nth n x (czero O))) (cmul O b (nth n y (czero O))).
Proof.
  unfold lincomb. revert y n; induction x as [|u x IH]; intros [|v y] n H; try discriminate H.
  - destruct n; cbn [map map2 nth]; cring.
  - destruct n as [|n]; [reflexivity|]. cbn [map map2 nth]. apply IH. simpl in H. lia.
Qed.

Lemma ktr_linear Kf a b x y : length x = length y ->
  ktr Kf (lincomb a b x y) = lincomb a b (ktr Kf x) (ktr Kf y).
Proof.
  intros H. apply (nth_ext _ _ (czero O) (czero O)).
  - rewrite ktr_length, !lincomb_length; rewrite ?ktr_length; auto.
  - intros k Hk. rewrite ktr_length, lincomb_length in Hk by exact H.
    rewrite nth_lincomb by (rewrite !ktr_length; exact H).
    rewrite !nth_ktr by (rewrite ?lincomb_length; auto; lia).
    rewrite lincomb_length by exact H. rewrite <- H.
    rewrite <- !bigsum_mul_l, <- bigsum_add. apply bigsum_ext. intros n Hn.
    rewrite nth_lincomb by exact H.
    cring.
Qed.

Theorem dft_linear : forall a b x y, length x = length y ->
  dft O (map2 (cadd O) (map (cmul O a) x) (map (cmul O b) y))
  = map2 (cadd O) (map (cmul O a) (dft O x)) (map (cmul O b) (dft O y)).
Proof. intros a b x y H. rewrite !dft_ktr. apply (ktr_linear Kdft a b x y H). Qed.

Theorem idft_linear : forall a b x y, length x = length y ->
  idft O (map2 (cadd O) (map (cmul O a) x) (map (cmul O b) y))
  = map2 (cadd O) (map (cmul O a) (idft O x)) (map (cmul O b) (idft O y)).
Proof. intros a b x y H. rewrite !idft_ktr. apply (ktr_linear Kidft a b x y H). Qed.

(* ---- inversion (items 2, 3) ---- *)

Lemma inv_core (s : R) (f : nat -> RC) N m : s = 1 \/ s = -1 -> (m < N)%nat ->
  bigsum (fun k =>
     cmul O (bigsum (fun n => cmul O (f n) (E (s * (2 * PI * INR (n * k) / INR N)))) N)
            (E (- s * (2 * PI * INR (k * m) / INR N)))) N
  = cscale O (INR N) (f m).
Proof.
  intros Hs Hm. assert (HN : 0 < INR N) by (apply lt_0_INR; lia).
  transitivity (bigsum (fun k => bigsum (fun n =>
      cmul O (f n) (E (INR k * (s * (2 * PI * (INR n - INR m) / INR N))))) N) N).
  { apply bigsum_ext. intros k Hk. rewrite <- bigsum_mul_r. apply bigsum_ext. intros n Hn.
    replace (INR k * (s * (2 * PI * (INR n - INR m) / INR N)))
      with (s * (2 * PI * INR (n * k) / INR N) + - s * (2 * PI * INR (k * m) / INR N))
      by (rewrite !mult_INR; field; lra).
    rewrite E_add.
    cring. }
  rewrite bigsum_exch.
  transitivity (bigsum (fun n => cmul O (f n)
      (if Nat.eq_dec n m then (INR N, 0) else (0, 0))) N).
  { apply bigsum_ext. intros n Hn. rewrite bigsum_mul_l. f_equal.
    destruct Hs as [-> | ->].
    - etransitivity; [|exact (orth N n m Hn Hm)].
      apply bigsum_ext. intros k _. f_equal. field. lra.
    - transitivity (if Nat.eq_dec m n then (INR N, 0) else (0, 0) : RC).
      + etransitivity; [|exact (orth N m n Hm Hn)].
        apply bigsum_ext. intros k _. f_equal. field. lra.
      + destruct (Nat.eq_dec m n), (Nat.eq_dec n m); try reflexivity; congruence. }
  rewrite (bigsum_single _ N m Hm).
  - destruct (Nat.eq_dec m m) as [_|Hc]; [|contradiction]. cring.
  - intros i Hi Hne. destruct (Nat.eq_dec i m) as [Hc|_]; [contradiction|].
    cring.
Qed.

Lemma inv_core2 (s : R) (f : nat -> RC) N m (u : nat -> nat -> RC) (v : nat -> RC) :
  s = 1 \/ s = -1 -> (m < N)%nat ->
  (forall n k, u n k = E (s * (2 * PI * INR (n * k) / INR N))) ->
  (forall k, v k = E (- s * (2 * PI * INR (k * m) / INR N))) ->
  bigsum (fun k => cmul O (bigsum (fun n => cmul O (f n) (u n k)) N) (v k)) N
  = cscale O (INR N) (f m).
Proof.
  intros Hs Hm Hu Hv. rewrite <- (inv_core s f N m Hs Hm).
  apply bigsum_ext. intros k _. rewrite Hv. f_equal.
  apply bigsum_ext. intros n _. rewrite Hu. reflexivity.
Qed.

Lemma cscale_cancel N (z : RC) : 0 < INR N -> cscale O (1 / INR N) (cscale O (INR N) z) = z.
Proof. intros HN. destruct z as [a b]. cunf. f_equal; field; lra. Qed.

Lemma ktr_inv1 (x : list RC) : ktr Kidft (ktr Kdft x) = x.
Proof.
  apply (nth_ext _ _ (czero O) (czero O)).
  - rewrite !ktr_length. reflexivity.
  - intros m Hm. rewrite !ktr_length in Hm.
    assert (HN : 0 < INR (length x)) by (apply lt_0_INR; lia).
    rewrite nth_ktr by (rewrite ktr_length; exact Hm). rewrite ktr_length.
    rewrite (bigsum_ext _ (fun k => cscale O (1 / INR (length x))
       (cmul O (bigsum (fun n => cmul O (nth n x (czero O)) (Kdft (length x) n k)) (length x))
               (cconj O (W (length x) (k * m)))))).
    2:{ intros k Hk. rewrite nth_ktr by exact Hk. unfold Kidft. cring. }
    rewrite bigsum_scale.
    rewrite (inv_core2 (-1) (fun n => nth n x (czero O)) (length x) m
               (fun n k => Kdft (length x) n k) (fun k => cconj O (W (length x) (k * m)))).
    + apply cscale_cancel. exact HN.
    + right; reflexivity.
    + exact Hm.
    + intros n k. unfold Kdft, W. f_equal. ring.
    + intros k. unfold W. rewrite <- E_neg. f_equal. ring.
Qed.

Lemma ktr_inv2 (x : list RC) : ktr Kdft (ktr Kidft x) = x.
Proof.
  apply (nth_ext _ _ (czero O) (czero O)).
  - rewrite !ktr_length. reflexivity.
  - intros m Hm. rewrite !ktr_length in Hm.
    assert (HN : 0 < INR (length x)) by (apply lt_0_INR; lia).
    rewrite nth_ktr by (rewrite ktr_length; exact Hm). rewrite ktr_length.
    rewrite (bigsum_ext _ (fun k => cscale O (1 / INR (length x))
       (cmul O (bigsum (fun n => cmul O (nth n x (czero O)) (cconj O (W (length x) (n * k))))
                       (length x))
               (Kdft (length x) k m)))).
    2:{ intros k Hk. rewrite nth_ktr by exact Hk. unfold Kidft.
        rewrite (bigsum_ext _ (fun n => cscale O (1 / INR (length x))
                   (cmul O (nth n x (czero O)) (cconj O (W (length x) (n * k)))))).
        2:{ intros n _. cring. }
        rewrite bigsum_scale. cring. }
    rewrite bigsum_scale.
    rewrite (inv_core2 1 (fun n => nth n x (czero O)) (length x) m
               (fun n k => cconj O (W (length x) (n * k))) (fun k => Kdft (length x) k m)).
    + apply cscale_cancel. exact HN.
    + left; reflexivity.
    + exact Hm.
    + intros n k. unfold W. rewrite <- E_neg. f_equal. ring.
    + intros k. unfold Kdft, W. f_equal. ring.
Qed.

Theorem idft_dft : forall x : list RC, idft O (dft O x) = x.
Proof. intros x. rewrite dft_ktr, idft_ktr. apply ktr_inv1. Qed.

Theorem dft_idft : forall x : list RC, dft O (idft O x) = x.
Proof. intros x. rewrite idft_ktr, dft_ktr. apply ktr_inv2. Qed.

(* ---- Parseval (item 6) ---- *)

Lemma nsum_bigsum {A} (f : A -> R) (l : list A) (d : A) :
  (nsum O (map f l), 0) = bigsum (fun i => (f (nth i l d), 0)) (length l).
Proof.
  induction l as [|a l IH]; [reflexivity|].
  cbn [map length]. rewrite nsum_R_cons, bigsum_S_l. cbn [nth]. rewrite <- IH.
  cunf. f_equal; ring.
Qed.

Lemma energy_bigsum (l : list RC) :
  (energy O l, 0)
  = bigsum (fun i => cmul O (nth i l (czero O)) (cconj O (nth i l (czero O)))) (length l).
Proof.
  unfold energy. ncx. rewrite (@nsum_bigsum RC (cabs2 O) l (czero O)).
  apply bigsum_ext. intros i _. cring.
Qed.

Lemma pars_core (x : list RC) :
  bigsum (fun k => cmul O (nth k (ktr Kdft x) (czero O)) (cconj O (nth k (ktr Kdft x) (czero O))))
         (length x)
  = cscale O (INR (length x))
      (bigsum (fun n => cmul O (nth n x (czero O)) (cconj O (nth n x (czero O)))) (length x)).
Proof.
  destruct (Nat.eq_dec (length x) 0) as [H0|H0].
  { rewrite H0. cring. }
  assert (HN : 0 < INR (length x)) by (apply lt_0_INR; lia).
  assert (Hinv : forall n, (n < length x)%nat ->
     bigsum (fun k => cmul O (nth k (ktr Kdft x) (czero O)) (Kidft (length x) k n)) (length x)
     = nth n x (czero O)).
  { intros n Hn.
    pose proof (f_equal (fun l => nth n l (czero O)) (ktr_inv1 x)) as Hq. cbv beta in Hq.
    rewrite nth_ktr in Hq by (rewrite ktr_length; exact Hn). rewrite ktr_length in Hq. exact Hq. }
  rewrite (bigsum_ext _ (fun k => bigsum (fun n =>
      cmul O (cmul O (nth n x (czero O)) (Kdft (length x) n k))
             (cconj O (nth k (ktr Kdft x) (czero O)))) (length x))).
  2:{ intros k Hk. rewrite bigsum_mul_r. f_equal. apply nth_ktr. exact Hk. }
  rewrite bigsum_exch, <- bigsum_scale. apply bigsum_ext. intros n Hn.
  transitivity (cscale O (INR (length x)) (cmul O (nth n x (czero O))
     (cconj O (bigsum (fun k => cmul O (nth k (ktr Kdft x) (czero O)) (Kidft (length x) k n))
                      (length x))))).
  2:{ rewrite (Hinv n Hn). reflexivity. }
  rewrite <- bigsum_conj, <- bigsum_mul_l, <- bigsum_scale. apply bigsum_ext. intros k Hk.
  unfold Kidft, Kdft. rewrite (Nat.mul_comm k n).
  cunf. apply injective_projections; cbn [fst snd]; field; lra.
Qed.

Theorem parseval : forall x : list RC, energy O (dft O x) = INR (length x) * energy O x.
Proof.
  intros x.
  assert (H : (energy O (dft O x), 0) = cscale O (INR (length x)) (energy O x, 0)).
  { rewrite !energy_bigsum, dft_ktr, ktr_length. apply pars_core. }
  apply (f_equal fst) in H. exact H.
Qed.

(* ------------------------------------------------------------------------------------------ *)
(* matrices: transpose, entries                                                                *)
(* ------------------------------------------------------------------------------------------ *)

Lemma nth_map_lt {A B} (f : A -> B) l i d d' :
  (i < length l)%nat -> nth i (map f l) d = f (nth i l d').
Proof.
  intros Hi. rewrite (nth_indep _ d (f d')) by (rewrite map_length; exact Hi). apply map_nth.
Qed.

Lemma repeat_map_seq {A} (x : A) c s : repeat x c = map (fun _ => x) (seq s c).
Proof. revert s; induction c as [|c IH]; intros s; simpl; [reflexivity|]. f_equal. apply IH. Qed.

Lemma map2_map_seq {A B C} (f : A -> B -> C) (g : nat -> B) (d : A) r s c :
  length r = c ->
  map2 f r (map g (seq s c)) = map (fun j => f (nth (j - s) r d) (g j)) (seq s c).
Proof.
  revert s c; induction r as [|a r IH]; intros s c Hc.
  - subst c. reflexivity.
  - destruct c as [|c]; [discriminate Hc|]. injection Hc as Hc.
    cbn [seq map map2]. rewrite Nat.sub_diag. cbn [nth]. f_equal.
    rewrite (IH (S s) c Hc). apply map_ext_in. intros j Hj. apply in_seq in Hj.
    replace (j - s)%nat with (S (j - S s)) by lia. reflexivity.
Qed.

Lemma transpose_aux_spec {A} (d : A) c (m : list (list A)) :
  Forall (fun row => length row = c) m ->
  transpose_aux c m = map (fun j => map (fun row => nth j row d) m) (seq 0 c).
Proof.
  induction m as [|r m IH]; intros Hf.
  - cbn [transpose_aux map]. apply repeat_map_seq.
  - apply Forall_cons_iff in Hf. destruct Hf as [Hr Hm]. cbn [transpose_aux].
    rewrite (IH Hm), (map2_map_seq _ _ d) by exact Hr.
    apply map_ext. intros j. rewrite Nat.sub_0_r. reflexivity.
Qed.

Lemma transpose_spec {A} (d : A) r c (m : list (list A)) :
  wf_mat r c m -> (0 < r)%nat ->
  transpose m = map (fun j => map (fun row => nth j row d) m) (seq 0 c).
Proof.
  intros [Hl Hf] Hr. destruct m as [|row m]; [simpl in Hl; lia|].
  unfold transpose. pose proof Hf as Hf'. apply Forall_cons_iff in Hf'. destruct Hf' as [Hrow _].
  rewrite Hrow. apply transpose_aux_spec. exact Hf.
Qed.

Lemma Forall_map2_cons {A} n (r : list A) (cols : list (list A)) :
  Forall (fun col => length col = n) cols ->
  Forall (fun col => length col = S n) (map2 (fun a col => a :: col) r cols).
Proof.
  revert cols; induction r as [|a r IH]; intros [|col cols] Hf; cbn [map2]; try constructor.
  - apply Forall_cons_iff in Hf. destruct Hf as [Hc _]. simpl. rewrite Hc. reflexivity.
  - apply Forall_cons_iff in Hf. destruct Hf as [_ Hf]. apply IH. exact Hf.
Qed.

Lemma transpose_aux_wf {A} c (m : list (list A)) :
  Forall (fun row => length row = c) m -> wf_mat c (length m) (transpose_aux c m).
Proof.
  induction m as [|r m IH]; intros Hf.
  - cbn [transpose_aux length]. split; [apply repeat_length|].
    apply Forall_forall. intros x Hx. apply repeat_spec in Hx. subst x. reflexivity.
  - apply Forall_cons_iff in Hf. destruct Hf as [Hr Hm]. destruct (IH Hm) as [Hl Hcols].
    cbn [transpose_aux length]. split.
    + rewrite map2_length, Hl, Hr. apply Nat.min_id.
    + apply Forall_map2_cons. exact Hcols.
Qed.

Lemma wf_transpose {A} r c (m : list (list A)) :
  wf_mat r c m -> (0 < r)%nat -> wf_mat c r (transpose m).
Proof.
  intros [Hl Hf] Hr. destruct m as [|row0 m0]; [simpl in Hl; lia|].
  unfold transpose. pose proof Hf as Hf'. apply Forall_cons_iff in Hf'. destruct Hf' as [Hrow _].
  rewrite Hrow, <- Hl. apply transpose_aux_wf. exact Hf.
Qed.

Lemma wf_nth_length {A} r c (m : list (list A)) i :
  wf_mat r c m -> (i < r)%nat -> length (nth i m []) = c.
Proof.
  intros [Hl Hf] Hi. rewrite Forall_forall in Hf. apply Hf. apply nth_In. lia.
Qed.

Lemma wf_map {A} (F : list A -> list A) r c m :
  (forall x, length (F x) = length x) -> wf_mat r c m -> wf_mat r c (map F m).
Proof.
  intros HF [Hl Hf]. split; [rewrite map_length; exact Hl|].
  apply Forall_forall. intros row Hrow. apply in_map_iff in Hrow. destruct Hrow as [x [<- Hx]].
  rewrite HF. rewrite Forall_forall in Hf. apply Hf. exact Hx.
Qed.

Lemma ent_transpose {A} (d : A) r c m i j :
  wf_mat r c m -> (i < r)%nat -> (j < c)%nat ->
  nth i (nth j (transpose m) []) d = nth j (nth i m []) d.
Proof.
  intros Hwf Hi Hj. rewrite (transpose_spec d r c m Hwf) by lia.
  rewrite nth_map_seq by exact Hj.
  destruct Hwf as [Hl _]. apply (nth_map_lt (fun row => nth j row d) m i d []). lia.
Qed.

Lemma mat_ext {A} (d : A) r c (a b : list (list A)) :
  wf_mat r c a -> wf_mat r c b ->
  (forall i j, (i < r)%nat -> (j < c)%nat -> nth j (nth i a []) d = nth j (nth i b []) d) ->
  a = b.
Proof.
  intros Ha Hb H. apply (nth_ext _ _ [] []).
  - destruct Ha as [-> _], Hb as [-> _]. reflexivity.
  - intros i Hi. assert (Hi' : (i < r)%nat) by (destruct Ha as [<- _]; exact Hi).
    apply (nth_ext _ _ d d).
    + rewrite (wf_nth_length r c a i Ha Hi'), (wf_nth_length r c b i Hb Hi'). reflexivity.
    + intros j Hj. rewrite (wf_nth_length r c a i Ha Hi') in Hj. apply H; assumption.
Qed.

Lemma transpose_transpose {A} r c (m : list (list A)) :
  wf_mat r c m -> (0 < r)%nat -> (0 < c)%nat -> transpose (transpose m) = m.
Proof.
  intros Hwf Hr Hc.
  destruct m as [|[|d row0] m0] eqn:Em.
  - destruct Hwf as [Hl _]; simpl in Hl; lia.
  - destruct Hwf as [_ Hf]. apply Forall_cons_iff in Hf. destruct Hf as [Hrow _]. simpl in Hrow. lia.
  - rewrite <- Em in *. clear Em.
    apply (mat_ext d r c).
    + apply wf_transpose; [apply wf_transpose; assumption | exact Hc].
    + exact Hwf.
    + intros i j Hi Hj.
      rewrite (ent_transpose d c r (transpose m) j i) by (try apply wf_transpose; assumption).
      apply (ent_transpose d r c m i j); assumption.
Qed.

(* ---- kernel transforms on the rows of a matrix ---- *)

Lemma wf_map_ktr Kf r c m : wf_mat r c m -> wf_mat r c (map (ktr Kf) m).
Proof. apply wf_map. apply ktr_length. Qed.

Lemma ent_map_ktr Kf r c (m : list (list RC)) i j :
  wf_mat r c m -> (i < r)%nat -> (j < c)%nat ->
  nth j (nth i (map (ktr Kf) m) []) (czero O)
  = bigsum (fun l => cmul O (nth l (nth i m []) (czero O)) (Kf c l j)) c.
Proof.
  intros Hwf Hi Hj. pose proof (wf_nth_length r c m i Hwf Hi) as Hlen.
  rewrite (nth_map_lt (ktr Kf) m i [] []) by (destruct Hwf as [-> _]; exact Hi).
  rewrite nth_ktr by (rewrite Hlen; exact Hj). rewrite Hlen. reflexivity.
Qed.

(* a transform of the rows commutes with a transform of the columns *)
Lemma ktr_commute Kf Kg r c (m : list (list RC)) :
  wf_mat r c m -> (0 < r)%nat -> (0 < c)%nat ->
  map (ktr Kg) (transpose (map (ktr Kf) (transpose m)))
  = transpose (map (ktr Kf) (transpose (map (ktr Kg) m))).
Proof.
  intros Hwf Hr Hc.
  assert (W1 : wf_mat c r (transpose m)) by (apply wf_transpose; assumption).
  assert (W2 : wf_mat c r (map (ktr Kf) (transpose m))) by (apply wf_map_ktr; exact W1).
  assert (W3 : wf_mat r c (transpose (map (ktr Kf) (transpose m)))) by (apply wf_transpose; assumption).
  assert (V1 : wf_mat r c (map (ktr Kg) m)) by (apply wf_map_ktr; exact Hwf).
  assert (V2 : wf_mat c r (transpose (map (ktr Kg) m))) by (apply wf_transpose; assumption).
  assert (V3 : wf_mat c r (map (ktr Kf) (transpose (map (ktr Kg) m)))) by (apply wf_map_ktr; exact V2).
  apply (@mat_ext RC (czero O) r c).
  - apply wf_map_ktr. exact W3.
  - apply wf_transpose; assumption.
  - intros i j Hi Hj. ncx.
    rewrite (ent_map_ktr Kg r c _ i j W3 Hi Hj).
    rewrite (@ent_transpose RC (czero O) c r _ j i V3 Hj Hi).
    rewrite (ent_map_ktr Kf c r _ j i V2 Hj Hi).
    rewrite (bigsum_ext _ (fun l => bigsum (fun k =>
        cmul O (cmul O (nth l (nth k m []) (czero O)) (Kf r k i)) (Kg c l j)) r) c).
    2:{ intros l Hl. rewrite (@ent_transpose RC (czero O) c r _ l i W2 Hl Hi).
        rewrite (ent_map_ktr Kf c r _ l i W1 Hl Hi). rewrite <- bigsum_mul_r.
        apply bigsum_ext. intros k Hk.
        rewrite (@ent_transpose RC (czero O) r c m k l Hwf Hk Hl). reflexivity. }
    rewrite bigsum_exch. apply bigsum_ext. intros k Hk.
    rewrite (@ent_transpose RC (czero O) r c _ k j V1 Hk Hj).
    rewrite (ent_map_ktr Kg r c m k j Hwf Hk Hj).
    rewrite <- bigsum_mul_r. apply bigsum_ext. intros l Hl. cring.
Qed.

Lemma tr2_inv Kf Kg r c (m : list (list RC)) :
  (forall x, ktr Kg (ktr Kf x) = x) ->
  wf_mat r c m -> (0 < r)%nat -> (0 < c)%nat ->
  transpose (map (ktr Kg) (transpose (map (ktr Kg)
    (transpose (map (ktr Kf) (transpose (map (ktr Kf) m))))))) = m.
Proof.
  intros Hinv Hwf Hr Hc.
  rewrite (ktr_commute Kf Kg r c (map (ktr Kf) m)) by (try apply wf_map_ktr; assumption).
  rewrite map_map, (map_id_ext (fun x => ktr Kg (ktr Kf x)) m Hinv).
  rewrite (transpose_transpose c r).
  - rewrite map_map, (map_id_ext (fun x => ktr Kg (ktr Kf x)) _ Hinv).
    apply (transpose_transpose r c); assumption.
  - apply wf_map_ktr. apply wf_transpose; assumption.
  - exact Hc.
  - exact Hr.
Qed.

Lemma dft2_ktr m :
  dft2 O m = transpose (map (ktr Kdft) (transpose (map (ktr Kdft) m))).
Proof. unfold dft2. rewrite !(map_ext _ _ dft_ktr). reflexivity. Qed.

Lemma idft2_ktr m :
  idft2 O m = transpose (map (ktr Kidft) (transpose (map (ktr Kidft) m))).
Proof. unfold idft2. rewrite !(map_ext _ _ idft_ktr). reflexivity. Qed.

Lemma wf_tr2 Kf r c (m : list (list RC)) :
  wf_mat r c m -> (0 < r)%nat -> (0 < c)%nat ->
  wf_mat r c (transpose (map (ktr Kf) (transpose (map (ktr Kf) m)))).
Proof.
  intros Hwf Hr Hc. apply wf_transpose; [|exact Hc]. apply wf_map_ktr.
  apply wf_transpose; [|exact Hr]. apply wf_map_ktr. exact Hwf.
Qed.

Theorem wf_dft2 : forall r c (m : list (list RC)),
  wf_mat r c m -> (0 < r)%nat -> (0 < c)%nat -> wf_mat r c (dft2 O m).
Proof. intros. rewrite dft2_ktr. apply wf_tr2; assumption. Qed.

Theorem wf_idft2 : forall r c (m : list (list RC)),
  wf_mat r c m -> (0 < r)%nat -> (0 < c)%nat -> wf_mat r c (idft2 O m).
Proof. intros. rewrite idft2_ktr. apply wf_tr2; assumption. Qed.

Theorem idft2_dft2 : forall r c (m : list (list RC)),
  wf_mat r c m -> (0 < r)%nat -> (0 < c)%nat -> idft2 O (dft2 O m) = m.
Proof.
  intros r c m Hwf Hr Hc. rewrite dft2_ktr, idft2_ktr.
  apply (tr2_inv Kdft Kidft r c m ktr_inv1 Hwf Hr Hc).
Qed.

Theorem dft2_idft2 : forall r c (m : list (list RC)),
  wf_mat r c m -> (0 < r)%nat -> (0 < c)%nat -> dft2 O (idft2 O m) = m.
Proof.
  intros r c m Hwf Hr Hc. rewrite dft2_ktr, idft2_ktr.
  apply (tr2_inv Kidft Kdft r c m ktr_inv2 Hwf Hr Hc).
Qed.

(* ---- Parseval in 2-D ---- *)

Lemma energy2_bigsum r c (m : list (list RC)) : wf_mat r c m ->
  (energy2 O m, 0)
  = bigsum (fun i => bigsum (fun j => (cabs2 O (nth j (nth i m []) (czero O)), 0)) c) r.
Proof.
  intros Hwf. unfold energy2. ncx. rewrite (@nsum_bigsum (list RC) (energy O) m []).
  destruct Hwf as [Hl Hf]. rewrite Hl. apply bigsum_ext. intros i Hi.
  unfold energy. ncx. rewrite (@nsum_bigsum RC (cabs2 O) (nth i m []) (czero O)).
  rewrite (wf_nth_length r c m i (conj Hl Hf) Hi). reflexivity.
Qed.

Lemma energy2_transpose r c (m : list (list RC)) :
  wf_mat r c m -> (0 < r)%nat -> energy2 O (transpose m) = energy2 O m.
Proof.
  intros Hwf Hr.
  assert (H : (energy2 O (transpose m), 0) = (energy2 O m, 0)).
  { rewrite (energy2_bigsum c r (transpose m)) by (apply wf_transpose; assumption).
    rewrite (energy2_bigsum r c m Hwf), bigsum_exch.
    apply bigsum_ext. intros i Hi. apply bigsum_ext. intros j Hj.
    rewrite (@ent_transpose RC (czero O) r c m i j Hwf Hi Hj). reflexivity. }
  apply (f_equal fst) in H. exact H.
Qed.

Lemma energy2_cons row (m : list (list RC)) :
  energy2 O (row :: m) = energy O row + energy2 O m.
Proof. unfold energy2. cbn [map]. apply nsum_R_cons. Qed.

Lemma energy2_map_dft c (m : list (list RC)) :
  Forall (fun row => length row = c) m ->
  energy2 O (map (dft O) m) = INR c * energy2 O m.
Proof.
  induction m as [|row m IH]; intros Hf.
  - unfold energy2. cbn [map]. rewrite nsum_R_nil. ring.
  - apply Forall_cons_iff in Hf. destruct Hf as [Hrow Hm].
    cbn [map]. rewrite !energy2_cons, (IH Hm), parseval, Hrow. ring.
Qed.

Theorem parseval2 : forall r c (m : list (list RC)),
  wf_mat r c m -> (0 < r)%nat -> (0 < c)%nat ->
  energy2 O (dft2 O m) = INR r * INR c * energy2 O m.
Proof.
  intros r c m Hwf Hr Hc. unfold dft2.
  assert (W1 : wf_mat r c (map (dft O) m)) by (apply wf_map; [apply dft_length | exact Hwf]).
  assert (W2 : wf_mat c r (transpose (map (dft O) m))) by (apply wf_transpose; assumption).
  assert (W3 : wf_mat c r (map (dft O) (transpose (map (dft O) m))))
    by (apply wf_map; [apply dft_length | exact W2]).
  ncx. rewrite (energy2_transpose c r _ W3 Hc).
  rewrite (energy2_map_dft r) by (destruct W2 as [_ Hf]; exact Hf).
  rewrite (energy2_transpose r c _ W1 Hr).
  rewrite (energy2_map_dft c) by (destruct Hwf as [_ Hf]; exact Hf).
  ring.
Qed.

(* ---- linearity in 2-D ---- *)

Definition lincomb2 (a b : RC) (x y : list (list RC)) : list (list RC) :=
  map2 (map2 (cadd O)) (map (map (cmul O a)) x) (map (map (cmul O b)) y).

Lemma transpose_aux_map {A B} (g : A -> B) c m :
  transpose_aux c (map (map g) m) = map (map g) (transpose_aux c m).
Proof.
  induction m as [|r m IH]; cbn [map transpose_aux].
  - rewrite map_repeat'. reflexivity.
  - rewrite IH. generalize (transpose_aux c m). clear IH.
    induction r as [|a r IHr]; intros [|col cols]; cbn [map map2]; try reflexivity.
    f_equal. apply IHr.
Qed.

Lemma transpose_map {A B} (g : A -> B) m :
  transpose (map (map g) m) = map (map g) (transpose m).
Proof.
  destruct m as [|r m]; [reflexivity|]. unfold transpose. cbn [map].
  rewrite map_length. apply (transpose_aux_map g (length r) (r :: m)).
Qed.

Lemma map2_cons_map2 {A} (f : A -> A -> A) a b (ta tb : list (list A)) :
  map2 (fun x col => x :: col) (map2 f a b) (map2 (map2 f) ta tb)
  = map2 (map2 f) (map2 (fun x col => x :: col) a ta) (map2 (fun x col => x :: col) b tb).
Proof.
  revert b ta tb; induction a as [|x a IH]; intros [|y b] [|ca ta] [|cb tb];
    cbn [map2]; try reflexivity.
  f_equal. apply IH.
Qed.

Lemma transpose_aux_map2 {A} (f : A -> A -> A) c (x y : list (list A)) :
  length x = length y ->
  transpose_aux c (map2 (map2 f) x y)
  = map2 (map2 f) (transpose_aux c x) (transpose_aux c y).
Proof.
  revert y; induction x as [|a x IH]; intros [|b y] H; try discriminate H.
  - cbn [map2 transpose_aux]. induction c as [|c IHc]; [reflexivity|].
    cbn [repeat map2]. f_equal. exact IHc.
  - cbn [map2 transpose_aux]. rewrite IH by (simpl in H; lia). apply map2_cons_map2.
Qed.

Lemma transpose_map2 {A} (f : A -> A -> A) r c (x y : list (list A)) :
  wf_mat r c x -> wf_mat r c y ->
  transpose (map2 (map2 f) x y) = map2 (map2 f) (transpose x) (transpose y).
Proof.
  intros [Hlx Hfx] [Hly Hfy].
  destruct x as [|a x], y as [|b y]; try reflexivity; try (exfalso; simpl in Hlx, Hly; lia).
  apply Forall_cons_iff in Hfx. destruct Hfx as [Ha _].
  apply Forall_cons_iff in Hfy. destruct Hfy as [Hb _].
  unfold transpose. cbn [map2]. rewrite map2_length_eq by lia.
  rewrite Ha, Hb.
  apply (transpose_aux_map2 f c (a :: x) (b :: y)). simpl in *. lia.
Qed.

Lemma wf_map_map {A B} (g : A -> B) r c m : wf_mat r c m -> wf_mat r c (map (map g) m).
Proof.
  intros [Hl Hf]. split; [rewrite map_length; exact Hl|].
  apply Forall_forall. intros row Hrow. apply in_map_iff in Hrow. destruct Hrow as [x [<- Hx]].
  rewrite map_length. rewrite Forall_forall in Hf. apply Hf. exact Hx.
Qed.

Lemma transpose_lincomb2 a b r c x y : wf_mat r c x -> wf_mat r c y ->
  transpose (lincomb2 a b x y) = lincomb2 a b (transpose x) (transpose y).
Proof.
  intros Hx Hy. unfold lincomb2.
  rewrite (transpose_map2 (cadd O) r c) by (apply wf_map_map; assumption).
  rewrite !transpose_map. reflexivity.
Qed.

Lemma map_lincomb2 (F : list RC -> list RC) a b c x y :
  (forall u v, length u = length v -> F (lincomb a b u v) = lincomb a b (F u) (F v)) ->
  length x = length y ->
  Forall (fun row => length row = c) x -> Forall (fun row => length row = c) y ->
  map F (lincomb2 a b x y) = lincomb2 a b (map F x) (map F y).
Proof.
  intros HF. unfold lincomb2. revert y; induction x as [|u x IH]; intros [|v y] Hl Hx Hy;
    try discriminate Hl; [reflexivity|].
  apply Forall_cons_iff in Hx. destruct Hx as [Hu Hx].
  apply Forall_cons_iff in Hy. destruct Hy as [Hv Hy].
  cbn [map map2]. apply f_equal2.
  - apply (HF u v). lia.
  - apply IH; [simpl in Hl; lia | assumption | assumption].
Qed.

Lemma tr2_linear (F : list RC -> list RC) a b r c x y :
  (forall u, length (F u) = length u) ->
  (forall u v, length u = length v -> F (lincomb a b u v) = lincomb a b (F u) (F v)) ->
  wf_mat r c x -> wf_mat r c y ->
  transpose (map F (transpose (map F (lincomb2 a b x y))))
  = lincomb2 a b (transpose (map F (transpose (map F x)))) (transpose (map F (transpose (map F y)))).
Proof.
  intros HFl HF Hx Hy.
  destruct (Nat.eq_dec r 0) as [H0|H0].
  { destruct Hx as [Hlx _], Hy as [Hly _]. rewrite H0 in Hlx, Hly.
    destruct x; [|discriminate Hlx]. destruct y; [|discriminate Hly]. reflexivity. }
  assert (Hr : (0 < r)%nat) by lia.
  assert (X1 : wf_mat r c (map F x)) by (apply wf_map; assumption).
  assert (Y1 : wf_mat r c (map F y)) by (apply wf_map; assumption).
  assert (X2 : wf_mat c r (transpose (map F x))) by (apply wf_transpose; assumption).
  assert (Y2 : wf_mat c r (transpose (map F y))) by (apply wf_transpose; assumption).
  assert (X3 : wf_mat c r (map F (transpose (map F x)))) by (apply wf_map; assumption).
  assert (Y3 : wf_mat c r (map F (transpose (map F y)))) by (apply wf_map; assumption).
  rewrite (map_lincomb2 F a b c x y HF)
    by (destruct Hx as [Hlx Hfx], Hy as [Hly Hfy]; try assumption; lia).
  rewrite (transpose_lincomb2 a b r c _ _ X1 Y1).
  rewrite (map_lincomb2 F a b r _ _ HF)
    by (destruct X2 as [Hlx Hfx], Y2 as [Hly Hfy]; try assumption; lia).
  apply (transpose_lincomb2 a b c r _ _ X3 Y3).
Qed.

Theorem dft2_linear : forall a b r c (x y : list (list RC)),
  wf_mat r c x -> wf_mat r c y ->
  dft2 O (map2 (map2 (cadd O)) (map (map (cmul O a)) x) (map (map (cmul O b)) y))
  = map2 (map2 (cadd O)) (map (map (cmul O a)) (dft2 O x)) (map (map (cmul O b)) (dft2 O y)).
Proof.
  intros a b r c x y Hx Hy. unfold dft2.
  apply (tr2_linear (dft O) a b r c x y dft_length (dft_linear a b) Hx Hy).
Qed.

Theorem idft2_linear : forall a b r c (x y : list (list RC)),
  wf_mat r c x -> wf_mat r c y ->
  idft2 O (map2 (map2 (cadd O)) (map (map (cmul O a)) x) (map (map (cmul O b)) y))
  = map2 (map2 (cadd O)) (map (map (cmul O a)) (idft2 O x)) (map (map (cmul O b)) (idft2 O y)).
Proof.
  intros a b r c x y Hx Hy. unfold idft2.
  apply (tr2_linear (idft O) a b r c x y idft_length (idft_linear a b) Hx Hy).
Qed.

(* ------------------------------------------------------------------------------------------ *)
(* centred transform (item 8)                                                                  *)
(* ------------------------------------------------------------------------------------------ *)

Lemma nth_nil {A} i (d : A) : nth i [] d = d.
Proof. destruct i; reflexivity. Qed.

Lemma nth_skipn' {A} n i (l : list A) d : nth i (skipn n l) d = nth (n + i) l d.
Proof.
  revert l; induction n as [|n IH]; intros l; [reflexivity|].
  destruct l as [|a l]; [rewrite skipn_nil, !nth_nil; reflexivity|]. apply IH.
Qed.

Lemma nth_firstn' {A} n i (l : list A) d : (i < n)%nat -> nth i (firstn n l) d = nth i l d.
Proof.
  revert i l; induction n as [|n IH]; intros i l Hi; [lia|].
  destruct l as [|a l]; [reflexivity|]. destruct i as [|i]; [reflexivity|].
  cbn [firstn nth]. apply IH. lia.
Qed.

Lemma nth_fftshift_even {A} (l : list A) c k d : length l = (2 * c)%nat -> (k < 2 * c)%nat ->
  nth k (fftshift l) d = nth (if k <? c then k + c else k - c)%nat l d.
Proof.
  intros Hl Hk. unfold fftshift. rewrite Hl.
  replace (2 * c / 2)%nat with c by (rewrite Nat.mul_comm, Nat.div_mul; lia).
  replace (2 * c - c)%nat with c by lia.
  destruct (Nat.ltb_spec k c) as [Hlt|Hge].
  - rewrite app_nth1 by (rewrite skipn_length; lia). rewrite nth_skipn'. f_equal. lia.
  - rewrite app_nth2 by (rewrite skipn_length; lia). rewrite skipn_length, Hl.
    replace (2 * c - c)%nat with c by lia. apply nth_firstn'. lia.
Qed.

Lemma E_shift_nat t q : E (t - 2 * PI * INR q) = E t.
Proof.
  rewrite <- (E_period (t - 2 * PI * INR q) q). f_equal. ring.
Qed.

Lemma bigsum_split2 f c :
  bigsum f (2 * c) = cadd O (bigsum f c) (bigsum (fun i => f (c + i)%nat) c).
Proof. replace (2 * c)%nat with (c + c)%nat by lia. apply bigsum_split. Qed.

Lemma centred_core (x : list RC) c k : length x = (2 * c)%nat -> (k < 2 * c)%nat ->
  nth k (fftshift (dft O (fftshift x))) (czero O)
  = bigsum (fun n => cmul O (nth n x (czero O))
       (E (- (2 * PI) * (INR n - INR c) * (INR k - INR c) / INR (2 * c)))) (2 * c).
Proof.
  intros Hl Hk.
  assert (Hc : 0 < INR c) by (apply lt_0_INR; lia).
  assert (HN : INR (2 * c) = 2 * INR c) by (rewrite mult_INR; simpl; ring).
  set (k' := (if k <? c then k + c else k - c)%nat).
  assert (Hk' : (k' < 2 * c)%nat) by (unfold k'; destruct (Nat.ltb_spec k c); lia).
  rewrite (nth_fftshift_even _ c k) by (rewrite ?dft_length, ?fftshift_length; assumption).
  fold k'. rewrite dft_ktr.
  rewrite nth_ktr by (rewrite fftshift_length, Hl; exact Hk').
  rewrite fftshift_length, Hl.
  rewrite !bigsum_split2.
  match goal with |- cadd O ?a ?b = cadd O ?u ?v =>
    assert (H1 : a = v); [|assert (H2 : b = u); [|rewrite H1, H2; cring]] end.
  - (* positions n < c of the shifted input hold x_{c+n} *)
    apply bigsum_ext. intros n Hn.
    rewrite (nth_fftshift_even x c n) by (try assumption; lia).
    destruct (Nat.ltb_spec n c) as [_|Hge]; [|lia].
    rewrite (Nat.add_comm n c). f_equal. unfold Kdft, W, k'.
    destruct (Nat.ltb_spec k c) as [Hlt|Hge].
    + rewrite <- (E_shift_nat (- (2 * PI) * (INR (c + n) - INR c) * (INR k - INR c) / INR (2 * c)) n).
      f_equal. rewrite HN, !mult_INR, !plus_INR. field. lra.
    + f_equal. rewrite HN, !mult_INR, !plus_INR, minus_INR by lia. field. lra.
  - (* positions c + i hold x_i *)
    apply bigsum_ext. intros i Hi.
    rewrite (nth_fftshift_even x c (c + i)) by (try assumption; lia).
    destruct (Nat.ltb_spec (c + i) c) as [Hlt|_]; [lia|].
    replace (c + i - c)%nat with i by lia. f_equal. unfold Kdft, W, k'.
    destruct (Nat.ltb_spec k c) as [Hlt|Hge].
    + rewrite <- (E_shift_nat (- (2 * PI) * (INR i - INR c) * (INR k - INR c) / INR (2 * c)) (k + i)).
      f_equal. rewrite HN, !mult_INR, !plus_INR. field. lra.
    + rewrite <- (E_shift_nat (- (2 * PI) * (INR i - INR c) * (INR k - INR c) / INR (2 * c)) (k - c)).
      f_equal. rewrite HN, !mult_INR, !plus_INR, !minus_INR by lia. field. lra.
Qed.

Theorem centred_dft : forall (x : list RC) N k,
  length x = N -> Nat.even N = true -> (k < N)%nat ->
  nth k (fftshift (dft O (fftshift x))) (czero O)
  = bigsum (fun n => cmul O (nth n x (czero O))
       (cis O (- (2 * PI) * (INR n - INR (N / 2)) * (INR k - INR (N / 2)) / INR N))) N.
Proof.
  intros x N k Hl He Hk. apply Nat.even_spec in He. destruct He as [c ->].
  replace (2 * c / 2)%nat with c by (rewrite Nat.mul_comm, Nat.div_mul; lia).
  apply (centred_core x c k Hl Hk).
Qed.

(* ------------------------------------------------------------------------------------------ *)
(* centred transform, EVERY length: fftshift . dft . ifftshift  (and the inverse)               *)
(* ------------------------------------------------------------------------------------------ *)

(* a rotation of a list, read by index *)
Lemma nth_rot {A} (l : list A) s k d : (s <= length l)%nat -> (k < length l)%nat ->
  nth k (skipn s l ++ firstn s l) d = nth ((k + s) mod length l) l d.
Proof.
  intros Hs Hk. destruct (Nat.lt_ge_cases k (length l - s)) as [Hlt|Hge].
  - rewrite app_nth1 by (rewrite skipn_length; lia). rewrite nth_skipn'.
    rewrite Nat.mod_small by lia. f_equal. lia.
  - rewrite app_nth2 by (rewrite skipn_length; lia). rewrite skipn_length.
    rewrite nth_firstn' by lia. f_equal.
    replace (k + s)%nat with ((k - (length l - s)) + 1 * length l)%nat by lia.
    rewrite Nat.mod_add by lia. rewrite Nat.mod_small by lia. reflexivity.
Qed.

Lemma nth_fftshift {A} (l : list A) k d : (k < length l)%nat ->
  nth k (fftshift l) d = nth ((k + (length l - length l / 2)) mod length l) l d.
Proof. intros Hk. unfold fftshift. apply nth_rot; [lia|exact Hk]. Qed.

Lemma nth_ifftshift {A} (l : list A) k d : (k < length l)%nat ->
  nth k (ifftshift l) d = nth ((k + length l / 2) mod length l) l d.
Proof. intros Hk. unfold ifftshift. apply nth_rot; [apply half_le|exact Hk]. Qed.

(* a sum over Z/N does not depend on where it starts *)
Lemma bigsum_rot f a s :
  bigsum (fun n => f ((n + s) mod (a + s))%nat) (a + s) = bigsum f (a + s).
Proof.
  transitivity (bigsum f (s + a)); [|f_equal; lia].
  rewrite (bigsum_split f s a).
  rewrite (bigsum_split (fun n => f ((n + s) mod (a + s))%nat) a s).
  rewrite (bigsum_ext (fun n => f ((n + s) mod (a + s))%nat) (fun i => f (s + i)%nat) a).
  2:{ intros i Hi. rewrite Nat.mod_small by lia. f_equal. lia. }
  rewrite (bigsum_ext (fun i => (fun n => f ((n + s) mod (a + s))%nat) (a + i)%nat) f s).
  2:{ intros i Hi. cbv beta. replace (a + i + s)%nat with (i + 1 * (a + s))%nat by lia.
      rewrite Nat.mod_add by lia. rewrite Nat.mod_small by lia. reflexivity. }
  generalize (bigsum f s) (bigsum (fun i => f (s + i)%nat) a). cring.
Qed.

Lemma bigsum_cyclic_shift f N s :
  bigsum (fun n => f ((n + s) mod N)%nat) N = bigsum f N.
Proof.
  destruct (Nat.eq_dec N 0) as [->|HN]; [reflexivity|].
  rewrite (bigsum_ext _ (fun n => f ((n + s mod N) mod N)%nat))
    by (intros; rewrite Nat.add_mod_idemp_r by exact HN; reflexivity).
  pose proof (Nat.mod_upper_bound s N HN) as Hb.
  set (t := (s mod N)%nat) in *. clearbody t.
  replace N with ((N - t) + t)%nat by lia. apply bigsum_rot.
Qed.

(* the exponent of the plain transform at the rotated indices is, modulo N, the centred exponent *)
Lemma centred_kernel (sg : Z) N n k : (n < N)%nat -> (k < N)%nat ->
  E (IZR sg * (2 * PI * INR (n * ((k + (N - N / 2)) mod N)) / INR N))
  = E (IZR sg * (2 * PI) * (INR ((n + N / 2) mod N) - INR (N / 2)) * (INR k - INR (N / 2)) / INR N).
Proof.
  intros Hn Hk. set (h := (N / 2)%nat). assert (Hh : (h <= N)%nat) by apply half_le.
  assert (HN0 : N <> 0%nat) by lia.
  assert (HNr : 0 < INR N) by (apply lt_0_INR; lia).
  pose proof (Nat.div_mod (n + h) N HN0) as D1.
  pose proof (Nat.div_mod (k + (N - h)) N HN0) as D2.
  set (q1 := ((n + h) / N)%nat) in *. set (m := ((n + h) mod N)%nat) in *.
  set (q2 := ((k + (N - h)) / N)%nat) in *. set (k' := ((k + (N - h)) mod N)%nat) in *.
  apply (f_equal INR) in D1. apply (f_equal INR) in D2.
  rewrite !plus_INR, !mult_INR in D1, D2. rewrite minus_INR in D2 by exact Hh.
  rewrite mult_INR.
  set (z := (sg * (Z.of_nat n * (1 - Z.of_nat q2) + Z.of_nat q1 * (Z.of_nat k - Z.of_nat h)))%Z).
  rewrite <- (E_period_Z (IZR sg * (2 * PI) * (INR m - INR h) * (INR k - INR h) / INR N) z).
  f_equal. unfold z. rewrite mult_IZR, plus_IZR, !mult_IZR, !minus_IZR, <- !INR_IZR_INZ.
  assert (Em : INR m = INR n + INR h - INR N * INR q1) by lra.
  assert (Ek : INR k' = INR k + (INR N - INR h) - INR N * INR q2) by lra.
  rewrite Em, Ek. field. lra.
Qed.

Lemma centred_sum (sg : Z) (x : list RC) N k : length x = N -> (k < N)%nat ->
  bigsum (fun n => cmul O (nth n (ifftshift x) (czero O))
            (E (IZR sg * (2 * PI * INR (n * ((k + (N - N / 2)) mod N)) / INR N)))) N
  = bigsum (fun n => cmul O (nth n x (czero O))
            (E (IZR sg * (2 * PI) * (INR n - INR (N / 2)) * (INR k - INR (N / 2)) / INR N))) N.
Proof.
  intros Hl Hk.
  rewrite <- (bigsum_cyclic_shift (fun n => cmul O (nth n x (czero O))
            (E (IZR sg * (2 * PI) * (INR n - INR (N / 2)) * (INR k - INR (N / 2)) / INR N))) N (N / 2)).
  apply bigsum_ext. intros n Hn. cbv beta.
  rewrite (@nth_ifftshift RC x n (czero O)) by (rewrite Hl; exact Hn). rewrite Hl. f_equal.
  apply centred_kernel; assumption.
Qed.

(* entry k of fftshift (dft (ifftshift x)): origin on sample N/2 (floor) in both domains *)
Theorem centred_dft_all : forall (x : list RC) N k,
  length x = N -> (k < N)%nat ->
  nth k (fftshift (dft O (ifftshift x))) (czero O)
  = bigsum (fun n => cmul O (nth n x (czero O))
       (cis O (- (2 * PI) * (INR n - INR (N / 2)) * (INR k - INR (N / 2)) / INR N))) N.
Proof.
  intros x N k Hl Hk.
  assert (HN0 : N <> 0%nat) by lia.
  rewrite nth_fftshift by (rewrite dft_length, ifftshift_length; ncx; lia).
  rewrite dft_length, ifftshift_length; ncx; rewrite Hl.
  pose proof (Nat.mod_upper_bound (k + (N - N / 2)) N HN0) as Hk'.
  rewrite dft_ktr, nth_ktr by (rewrite ifftshift_length; ncx; lia).
  rewrite ifftshift_length; ncx; rewrite Hl.
  etransitivity; [|etransitivity; [exact (centred_sum (-1) x N k Hl Hk)|]].
  - apply bigsum_ext. intros n _. f_equal. unfold Kdft, W. f_equal. unfold Rdiv. ring.
  - apply bigsum_ext. intros n _. f_equal. change (cis O) with E. f_equal. unfold Rdiv. ring.
Qed.

(* ... and of fftshift (idft (ifftshift X)): the same with the conjugate kernel and 1/N *)
Theorem centred_idft_all : forall (X : list RC) N k,
  length X = N -> (k < N)%nat ->
  nth k (fftshift (idft O (ifftshift X))) (czero O)
  = cscale O (1 / INR N) (bigsum (fun n => cmul O (nth n X (czero O))
       (cis O (2 * PI * (INR n - INR (N / 2)) * (INR k - INR (N / 2)) / INR N))) N).
Proof.
  intros X N k Hl Hk.
  assert (HN0 : N <> 0%nat) by lia.
  rewrite nth_fftshift by (rewrite idft_length, ifftshift_length; ncx; lia).
  rewrite idft_length, ifftshift_length; ncx; rewrite Hl.
  pose proof (Nat.mod_upper_bound (k + (N - N / 2)) N HN0) as Hk'.
  rewrite idft_ktr, nth_ktr by (rewrite ifftshift_length; ncx; lia).
  rewrite ifftshift_length; ncx; rewrite Hl. rewrite <- bigsum_scale.
  etransitivity; [|etransitivity;
    [exact (f_equal (cscale O (1 / INR N)) (centred_sum 1 X N k Hl Hk))|]];
    rewrite <- ?bigsum_scale.
  - apply bigsum_ext. intros n _. unfold Kidft, W. rewrite <- E_neg.
    replace (- - (2 * PI * INR (n * ((k + (N - N / 2)) mod N)) / INR N))
      with (1 * (2 * PI * INR (n * ((k + (N - N / 2)) mod N)) / INR N)) by ring.
    cring.
  - apply bigsum_ext. intros n _. f_equal. f_equal. change (cis O) with E. f_equal.
    unfold Rdiv. ring.
Qed.

End DftR.

Print Assumptions idft_dft.
Print Assumptions parseval.
Print Assumptions idft2_dft2.
