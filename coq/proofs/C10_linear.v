(* C10 (linearity) and C11 (magnified round trip) of the propagators of model/Optics.v -- complex-number
   reading.
   PART 1: every propagator is linear in the input field (no hypothesis on the real parameters).
   PART 2: angular-spectrum propagation with magnification m = d2/d1 over z, followed by propagation with
           magnification 1/m over -z, returns the input field times one constant unit-modulus factor. *)
From Coq Require Import Reals Lra Lia ZArith List Arith Psatz.
Require Import AOV.base.Num AOV.base.NumR AOV.base.RpowTac AOV.base.Cplx AOV.model.Fourier AOV.model.Optics
               AOV.proofs.Dft_proofs AOV.proofs.C09_proofs AOV.proofs.C10_proofs AOV.proofs.C11_proofs.
Import ListNotations.
Local Open Scope R_scope.

(* ---- generic list facts: map2 against rotations ---- *)
Lemma map2_skipn {A B C} (f : A -> B -> C) k : forall u v, length u = length v ->
  skipn k (map2 f u v) = map2 f (skipn k u) (skipn k v).
Proof. induction k as [|k IH]; intros [|p u] [|q v] H; try discriminate H; try reflexivity.
  cbn [skipn map2]. apply IH. simpl in H. congruence. Qed.
Lemma map2_firstn {A B C} (f : A -> B -> C) k : forall u v, length u = length v ->
  firstn k (map2 f u v) = map2 f (firstn k u) (firstn k v).
Proof. induction k as [|k IH]; intros [|p u] [|q v] H; try discriminate H; try reflexivity.
  cbn [firstn map2]. apply (f_equal (cons _)). apply IH. simpl in H. congruence. Qed.
Lemma map2_app {A B C} (f : A -> B -> C) : forall u1 v1 u2 v2, length u1 = length v1 ->
  map2 f (u1 ++ u2) (v1 ++ v2) = map2 f u1 v1 ++ map2 f u2 v2.
Proof. induction u1 as [|p u1 IH]; intros [|q v1] u2 v2 H; try discriminate H; [reflexivity|].
  cbn [app map2]. apply (f_equal (cons _)). apply IH. simpl in H. congruence. Qed.
Lemma map2_fftshift {A B C} (f : A -> B -> C) u v : length u = length v ->
  fftshift (map2 f u v) = map2 f (fftshift u) (fftshift v).
Proof. intros H. unfold fftshift. rewrite map2_length_eq by exact H. rewrite <- H.
  rewrite map2_skipn, map2_firstn by exact H. symmetry. apply map2_app.
  rewrite !skipn_length. congruence. Qed.
Lemma map2_ifftshift {A B C} (f : A -> B -> C) u v : length u = length v ->
  ifftshift (map2 f u v) = map2 f (ifftshift u) (ifftshift v).
Proof. intros H. unfold ifftshift. rewrite map2_length_eq by exact H. rewrite <- H.
  rewrite map2_skipn, map2_firstn by exact H. symmetry. apply map2_app.
  rewrite !skipn_length. congruence. Qed.
(* a row-wise operation that commutes with map2 f on equal-length rows commutes with map2 (map2 f) *)
Lemma map_map2_rows {A} (f : A -> A -> A) (S : list A -> list A) c :
  (forall u v, length u = length v -> S (map2 f u v) = map2 f (S u) (S v)) ->
  forall X Y, Forall (fun row => length row = c) X -> Forall (fun row => length row = c) Y ->
  map S (map2 (map2 f) X Y) = map2 (map2 f) (map S X) (map S Y).
Proof. intros HS. induction X as [|u X IH]; intros [|v Y] HX HY; try reflexivity.
  cbn [map map2]. f_equal.
  - apply HS. rewrite (Forall_inv HX), (Forall_inv HY). reflexivity.
  - apply IH; [exact (Forall_inv_tail HX)|exact (Forall_inv_tail HY)]. Qed.
Lemma map2_fftshift2 {A} (f : A -> A -> A) r c (X Y : list (list A)) : wf_mat r c X -> wf_mat r c Y ->
  fftshift2 (map2 (map2 f) X Y) = map2 (map2 f) (fftshift2 X) (fftshift2 Y).
Proof. intros [HlX HfX] [HlY HfY]. unfold fftshift2.
  rewrite (map_map2_rows f fftshift c (map2_fftshift f) X Y HfX HfY).
  apply map2_fftshift. rewrite !map_length. congruence. Qed.
Lemma map2_ifftshift2 {A} (f : A -> A -> A) r c (X Y : list (list A)) : wf_mat r c X -> wf_mat r c Y ->
  ifftshift2 (map2 (map2 f) X Y) = map2 (map2 f) (ifftshift2 X) (ifftshift2 Y).
Proof. intros [HlX HfX] [HlY HfY]. unfold ifftshift2.
  rewrite (map_map2_rows f ifftshift c (map2_ifftshift f) X Y HfX HfY).
  apply map2_ifftshift. rewrite !map_length. congruence. Qed.

Section C10lin.
Variables (G : R -> R) (K : R -> R -> R).
Local Notation O := (ROps G K).
Local Notation RC := (R * R)%type.

(* ================================================================================================ *)
(* PART 1: linearity                                                                                 *)
(* ================================================================================================ *)

(* a.U + b.V, entry by entry *)
Definition lin2 (a b : RC) (U V : list (list RC)) : list (list RC) :=
  map2 (map2 (cadd O)) (cmulc_m O a U) (cmulc_m O b V).
Lemma lin2_lincomb2 a b U V : lin2 a b U V = lincomb2 G K a b U V.
Proof. reflexivity. Qed.

Lemma wf_cmulc_m r c a (U : list (list RC)) : wf_mat r c U -> wf_mat r c (cmulc_m O a U).
Proof. unfold cmulc_m. apply wf_map_map'. Qed.
Lemma wf_map2_map2 (f : RC -> RC -> RC) r c : forall (X Y : list (list RC)),
  wf_mat r c X -> wf_mat r c Y -> wf_mat r c (map2 (map2 f) X Y).
Proof. intros X Y [HlX HfX] [HlY HfY]. split.
  - rewrite map2_length_eq; congruence.
  - clear HlX HlY. revert Y HfY. induction X as [|u X IH]; intros [|v Y] HfY; cbn [map2]; try constructor.
    + rewrite map2_length_eq; [exact (Forall_inv HfX)|].
      rewrite (Forall_inv HfX), (Forall_inv HfY). reflexivity.
    + apply IH; [exact (Forall_inv_tail HfX)|exact (Forall_inv_tail HfY)]. Qed.
Lemma wf_lin2 r c a b (U V : list (list RC)) : wf_mat r c U -> wf_mat r c V -> wf_mat r c (lin2 a b U V).
Proof. intros HU HV. unfold lin2. apply wf_map2_map2; apply wf_cmulc_m; assumption. Qed.
Lemma lin2_length r c a b (U V : list (list RC)) : wf_mat r c U -> wf_mat r c V ->
  length (lin2 a b U V) = length U.
Proof. intros HU HV. rewrite (wf_len _ _ _ (wf_lin2 r c a b U V HU HV)), (wf_len _ _ _ HU). reflexivity. Qed.

(* an entrywise additive-homogeneous map is linear *)
Lemma lin2_pointwise (g : RC -> RC) a b :
  (forall u v, g (cadd O (cmul O a u) (cmul O b v)) = cadd O (cmul O a (g u)) (cmul O b (g v))) ->
  forall U V, map (map g) (lin2 a b U V) = lin2 a b (map (map g) U) (map (map g) V).
Proof. intros Hg. unfold lin2, cmulc_m. induction U as [|u U IH]; intros [|v V]; try reflexivity.
  cbn [map map2]. apply f_equal2; [|apply IH]. clear IH.
  revert v. induction u as [|p u IHu]; intros [|q v]; try reflexivity.
  cbn [map map2]. apply f_equal2; [apply Hg|apply IHu]. Qed.
Lemma cdivr_lin2 a b U V r : cdivr_m O (lin2 a b U V) r = lin2 a b (cdivr_m O U r) (cdivr_m O V r).
Proof. unfold cdivr_m. apply lin2_pointwise. intros u v. cdestr. cunf. cbn [fst snd]. rops. unfold Rdiv.
  apply injective_projections; cbn [fst snd]; ring. Qed.
Lemma cmulc_lin2 a b U V c0 : cmulc_m O c0 (lin2 a b U V) = lin2 a b (cmulc_m O c0 U) (cmulc_m O c0 V).
Proof. unfold cmulc_m. apply lin2_pointwise. cring. Qed.
Lemma cscale_lin2 a b U V s : cscale_m O s (lin2 a b U V) = lin2 a b (cscale_m O s U) (cscale_m O s V).
Proof. rewrite !cscale_m_map. apply lin2_pointwise. cring. Qed.

(* pointwise product with a fixed grid, on either side; no shape condition *)
Lemma cmul_m_lin2_l a b : forall Q U V,
  cmul_m O Q (lin2 a b U V) = lin2 a b (cmul_m O Q U) (cmul_m O Q V).
Proof. unfold cmul_m, lin2, cmulc_m. induction Q as [|q Q IH]; intros [|u U] [|v V]; try reflexivity.
  cbn [map map2]. apply f_equal2; [|apply IH]. clear IH.
  revert u v. induction q as [|p q IHq]; intros [|x u] [|y v]; try reflexivity.
  cbn [map map2]. apply f_equal2; [cring|apply IHq]. Qed.
Lemma cmul_m_lin2_r a b : forall U V Q,
  cmul_m O (lin2 a b U V) Q = lin2 a b (cmul_m O U Q) (cmul_m O V Q).
Proof. unfold cmul_m, lin2, cmulc_m. induction U as [|u U IH]; intros [|v V] [|q Q]; try reflexivity.
  cbn [map map2]. apply f_equal2; [|apply IH]. clear IH.
  revert v q. induction u as [|x u IHu]; intros [|y v] [|p q]; try reflexivity.
  cbn [map map2]. apply f_equal2; [cring|apply IHu]. Qed.

(* shifts *)
Lemma fftshift2_lin2 r c a b U V : wf_mat r c U -> wf_mat r c V ->
  fftshift2 (lin2 a b U V) = lin2 a b (fftshift2 U) (fftshift2 V).
Proof. intros HU HV. unfold lin2.
  rewrite (map2_fftshift2 (cadd O) r c) by (apply wf_cmulc_m; assumption).
  unfold cmulc_m. rewrite !fftshift2_map. reflexivity. Qed.
Lemma ifftshift2_lin2 r c a b U V : wf_mat r c U -> wf_mat r c V ->
  ifftshift2 (lin2 a b U V) = lin2 a b (ifftshift2 U) (ifftshift2 V).
Proof. intros HU HV. unfold lin2.
  rewrite (map2_ifftshift2 (cadd O) r c) by (apply wf_cmulc_m; assumption).
  unfold cmulc_m. rewrite !ifftshift2_map. reflexivity. Qed.

(* the scaled transforms *)
Theorem ft2_linear : forall a b r c (U V : list (list RC)) delta,
  wf_mat r c U -> wf_mat r c V -> (0 < r)%nat -> (0 < c)%nat ->
  ft2 O (lin2 a b U V) delta = lin2 a b (ft2 O U delta) (ft2 O V delta).
Proof. intros a b r c U V delta HU HV Hr Hc. unfold ft2.
  rewrite (ifftshift2_lin2 r c) by assumption.
  assert (WU : wf_mat r c (ifftshift2 U)) by (apply wf_ifftshift2; exact HU).
  assert (WV : wf_mat r c (ifftshift2 V)) by (apply wf_ifftshift2; exact HV).
  unfold lin2 at 1, cmulc_m. rewrite (dft2_linear G K a b r c _ _ WU WV).
  fold (cmulc_m O a (dft2 O (ifftshift2 U))). fold (cmulc_m O b (dft2 O (ifftshift2 V))).
  fold (lin2 a b (dft2 O (ifftshift2 U)) (dft2 O (ifftshift2 V))).
  rewrite (fftshift2_lin2 r c) by (apply wf_dft2; assumption).
  apply cscale_lin2. Qed.
Theorem ift2_linear : forall a b r c (U V : list (list RC)) delta_f,
  wf_mat r c U -> wf_mat r c V -> (0 < r)%nat -> (0 < c)%nat ->
  ift2 O (lin2 a b U V) delta_f = lin2 a b (ift2 O U delta_f) (ift2 O V delta_f).
Proof. intros a b r c U V delta_f HU HV Hr Hc. unfold ift2. ncx.
  rewrite (ncols_wf r c _ (wf_lin2 r c a b U V HU HV) Hr), (ncols_wf r c _ HU Hr), (ncols_wf r c _ HV Hr).
  rewrite (ifftshift2_lin2 r c) by assumption.
  assert (WU : wf_mat r c (ifftshift2 U)) by (apply wf_ifftshift2; exact HU).
  assert (WV : wf_mat r c (ifftshift2 V)) by (apply wf_ifftshift2; exact HV).
  unfold lin2 at 1, cmulc_m. rewrite (idft2_linear G K a b r c _ _ WU WV).
  fold (cmulc_m O a (idft2 O (ifftshift2 U))). fold (cmulc_m O b (idft2 O (ifftshift2 V))).
  fold (lin2 a b (idft2 O (ifftshift2 U)) (idft2 O (ifftshift2 V))).
  rewrite (fftshift2_lin2 r c) by (apply wf_idft2; assumption).
  apply cscale_lin2. Qed.

(* ---- the four propagators ---- *)
Theorem AS_linear : forall a b N (U V : list (list RC)) wvl d1 d2 z,
  wf_mat N N U -> wf_mat N N V -> (0 < N)%nat ->
  angularSpectrum O (lin2 a b U V) wvl d1 d2 z
  = lin2 a b (angularSpectrum O U wvl d1 d2 z) (angularSpectrum O V wvl d1 d2 z).
Proof.
  intros a b N U V wvl d1 d2 z HU HV HN. unfold angularSpectrum.
  destruct (neqb O z (nzero O)); [reflexivity|].
  ncx. rewrite (lin2_length N N a b U V HU HV), (wf_len _ _ _ HU), (wf_len _ _ _ HV).
  set (k := kwave O wvl). set (df1 := ndiv O (none O) (nmul O (ofnat O N) d1)). set (mag := ndiv O d2 d1).
  match goal with |- cmul_m O (phase_grid O _ ?a3 ?o3) (ift2 O (cmul_m O (phase_grid O _ ?a2 ?o2)
       (ft2 O (cdivr_m O (cmul_m O (phase_grid O _ ?a1 ?o1) _) mag) d1)) df1) = _ =>
    set (A1 := a1); set (A2 := a2); set (A3 := a3); set (O1 := o1) end.
  set (Q1 := phase_grid O (coordsN O N d1) A1 O1).
  set (Q2 := phase_grid O (coordsN O N df1) A2 (nzero O)).
  assert (WQ1 : wf_mat N N Q1) by apply wf_phase.
  assert (WQ2 : wf_mat N N Q2) by apply wf_phase.
  assert (W1 : forall X, wf_mat N N X -> wf_mat N N (cdivr_m O (cmul_m O Q1 X) mag)).
  { intros X HX. unfold cdivr_m. apply wf_map_map', wf_cmul_m; assumption. }
  assert (W2 : forall X, wf_mat N N X -> wf_mat N N (cmul_m O Q2 (ft2 O (cdivr_m O (cmul_m O Q1 X) mag) d1))).
  { intros X HX. apply wf_cmul_m; [exact WQ2|]. apply wf_ft2; auto. }
  rewrite cmul_m_lin2_l, cdivr_lin2.
  rewrite (ft2_linear a b N N) by auto.
  rewrite cmul_m_lin2_l.
  rewrite (ift2_linear a b N N) by auto.
  apply cmul_m_lin2_l.
Qed.

Lemma fresnel_core_linear a b N (U V : list (list RC)) A (B P : list (list RC)) d :
  wf_mat N N U -> wf_mat N N V -> wf_mat N N P -> (0 < N)%nat ->
  cmul_m O (cmulc_m O A B) (ft2 O (cmul_m O (lin2 a b U V) P) d)
  = lin2 a b (cmul_m O (cmulc_m O A B) (ft2 O (cmul_m O U P) d))
             (cmul_m O (cmulc_m O A B) (ft2 O (cmul_m O V P) d)).
Proof. intros HU HV HP HN.
  rewrite cmul_m_lin2_r.
  rewrite (ft2_linear a b N N) by (try apply wf_cmul_m; assumption).
  apply cmul_m_lin2_l. Qed.

Theorem oneStep_linear : forall a b N (U V : list (list RC)) wvl d1 z,
  wf_mat N N U -> wf_mat N N V -> (0 < N)%nat ->
  oneStepFresnel O (lin2 a b U V) wvl d1 z
  = lin2 a b (oneStepFresnel O U wvl d1 z) (oneStepFresnel O V wvl d1 z).
Proof.
  intros a b N U V wvl d1 z HU HV HN. unfold oneStepFresnel.
  ncx. rewrite (lin2_length N N a b U V HU HV), (wf_len _ _ _ HU), (wf_len _ _ _ HV).
  apply (fresnel_core_linear a b N); try assumption. apply wf_phase.
Qed.

Theorem twoStep_linear : forall a b N (U V : list (list RC)) wvl d1 d2 z,
  wf_mat N N U -> wf_mat N N V -> (0 < N)%nat ->
  twoStepFresnel O (lin2 a b U V) wvl d1 d2 z
  = lin2 a b (twoStepFresnel O U wvl d1 d2 z) (twoStepFresnel O V wvl d1 d2 z).
Proof.
  intros a b N U V wvl d1 d2 z HU HV HN. unfold twoStepFresnel.
  ncx. rewrite (lin2_length N N a b U V HU HV), (wf_len _ _ _ HU), (wf_len _ _ _ HV).
  set (m := ndiv O d2 d1).
  set (Dz1 := if neqb O (nsub O (none O) m) (nzero O) then ndiv O z (nadd O (none O) m) else ndiv O z (nsub O (none O) m)).
  clearbody Dz1.
  set (d1a := ndiv O (nmul O wvl (nabs O Dz1)) (nmul O (ofnat O N) d1)).
  rewrite (fresnel_core_linear a b N U V) by (try assumption; apply wf_phase).
  apply (fresnel_core_linear a b N); try assumption; try apply wf_phase.
  - apply wf_cmul_m; [apply wf_cmulc_m, wf_phase|]. apply wf_ft2; try assumption.
    apply wf_cmul_m; [exact HU|apply wf_phase].
  - apply wf_cmul_m; [apply wf_cmulc_m, wf_phase|]. apply wf_ft2; try assumption.
    apply wf_cmul_m; [exact HV|apply wf_phase].
Qed.

Theorem lens_linear : forall a b N (U V : list (list RC)) wvl d1 f,
  wf_mat N N U -> wf_mat N N V -> (0 < N)%nat ->
  lensAgainst O (lin2 a b U V) wvl d1 f
  = lin2 a b (lensAgainst O U wvl d1 f) (lensAgainst O V wvl d1 f).
Proof.
  intros a b N U V wvl d1 f HU HV HN. unfold lensAgainst.
  ncx. rewrite (lin2_length N N a b U V HU HV), (wf_len _ _ _ HU), (wf_len _ _ _ HV).
  rewrite (ft2_linear a b N N) by assumption.
  apply cmul_m_lin2_l.
Qed.


(* ================================================================================================ *)
(* PART 2: magnified round trip of the angular-spectrum propagator                                   *)
(* ================================================================================================ *)

(* ---- constant complex factors ---- *)
Lemma map_map_ext {A B} (f g : A -> B) (X : list (list A)) : (forall x, f x = g x) ->
  map (map f) X = map (map g) X.
Proof. intros H. apply map_ext. intros row. apply map_ext. exact H. Qed.
Lemma cscale_cmulc s (X : list (list RC)) : cscale_m O s X = cmulc_m O (s, 0) X.
Proof. rewrite cscale_m_map. unfold cmulc_m. apply map_map_ext. cring. Qed.
Lemma cdivr_cmulc (X : list (list RC)) r : cdivr_m O X r = cmulc_m O (/ r, 0) X.
Proof. rewrite (cdivr_scale G K). apply cscale_cmulc. Qed.
Lemma cmulc_cmulc c1 c2 (X : list (list RC)) : cmulc_m O c1 (cmulc_m O c2 X) = cmulc_m O (cmul O c1 c2) X.
Proof. unfold cmulc_m. rewrite map_map. apply map_ext. intros row. rewrite map_map. apply map_ext. cring. Qed.
Lemma cmulc_one (X : list (list RC)) : cmulc_m O (1, 0) X = X.
Proof. unfold cmulc_m. apply map_map_id. cring. Qed.
(* a pointwise factor commutes with a constant factor; no shape condition *)
Lemma cmul_m_cmulc_r c0 : forall (Q X : list (list RC)),
  cmul_m O Q (cmulc_m O c0 X) = cmulc_m O c0 (cmul_m O Q X).
Proof. unfold cmul_m, cmulc_m. induction Q as [|q Q IH]; intros [|x X]; try reflexivity.
  cbn [map map2]. apply f_equal2; [|apply IH]. clear IH.
  revert x. induction q as [|p q IHq]; intros [|y x]; try reflexivity.
  cbn [map map2]. apply f_equal2; [cring|apply IHq]. Qed.
Lemma lin2_zero c0 : forall (X : list (list RC)), lin2 c0 (0, 0) X X = cmulc_m O c0 X.
Proof. unfold lin2, cmulc_m. induction X as [|x X IH]; [reflexivity|].
  cbn [map map2]. apply f_equal2; [|apply IH]. clear IH.
  induction x as [|p x IHx]; [reflexivity|]. cbn [map map2]. apply f_equal2; [cring|apply IHx]. Qed.
Lemma ft2_cmulc r c c0 (X : list (list RC)) d : wf_mat r c X -> (0 < r)%nat -> (0 < c)%nat ->
  ft2 O (cmulc_m O c0 X) d = cmulc_m O c0 (ft2 O X d).
Proof. intros HX Hr Hc. rewrite <- (lin2_zero c0 X).
  rewrite (ft2_linear c0 (0, 0) r c X X d HX HX Hr Hc). apply lin2_zero. Qed.
Lemma ift2_cmulc r c c0 (X : list (list RC)) d : wf_mat r c X -> (0 < r)%nat -> (0 < c)%nat ->
  ift2 O (cmulc_m O c0 X) d = cmulc_m O c0 (ift2 O X d).
Proof. intros HX Hr Hc. rewrite <- (lin2_zero c0 X).
  rewrite (ift2_linear c0 (0, 0) r c X X d HX HX Hr Hc). apply lin2_zero. Qed.

(* ---- transform pairs with non-matching spacings: the residue is one real scale factor ---- *)
Lemma cscale_cscale s t (X : list (list RC)) : cscale_m O s (cscale_m O t X) = cscale_m O (s * t) X.
Proof. rewrite !cscale_m_map, map_map. apply map_ext. intros row. rewrite map_map. apply map_ext. cring. Qed.
Lemma ft2_ift2_scaled r c (X : list (list RC)) df d : wf_mat r c X -> (0 < r)%nat -> (0 < c)%nat ->
  ft2 O (ift2 O X df) d = cscale_m O ((INR c * df * d) ^ 2) X.
Proof. intros Hwf Hr Hc. unfold ft2, ift2. ncx. rewrite (ncols_wf r c _ Hwf Hr).
  rewrite (ifftshift2_scale G K), ifftshift2_fftshift2, (dft2_scale G K).
  rewrite (dft2_idft2 G K r c) by (try apply wf_ifftshift2; assumption).
  rewrite (fftshift2_scale G K), fftshift2_ifftshift2, cscale_cscale.
  f_equal. unfold nsqr; rops. rewrite <- INR_IZR_INZ. ring. Qed.
Lemma ift2_ft2_scaled r c (X : list (list RC)) d df : wf_mat r c X -> (0 < r)%nat -> (0 < c)%nat ->
  ift2 O (ft2 O X d) df = cscale_m O ((INR c * df * d) ^ 2) X.
Proof. intros Hwf Hr Hc. unfold ift2.
  pose proof (ncols_wf r c _ (wf_ft2 G K r c X d Hwf Hr Hc) Hr) as Hn. ncx. rewrite Hn. unfold ft2.
  rewrite (ifftshift2_scale G K), ifftshift2_fftshift2, (idft2_scale G K).
  rewrite (idft2_dft2 G K r c) by (try apply wf_ifftshift2; assumption).
  rewrite (fftshift2_scale G K), fftshift2_ifftshift2, cscale_cscale.
  f_equal. unfold nsqr; rops. rewrite <- INR_IZR_INZ. ring. Qed.

(* ---- sample grids ---- *)
Lemma coordsN_scale N d m : m <> 0 -> coordsN O N (d / m) = map (fun x => x / m) (coordsN O N d).
Proof. intros Hm. unfold coordsN. rewrite map_map. apply map_ext. intros j. rops. field. exact Hm. Qed.

(* ---- products of quadratic-phase grids ---- *)
Lemma pg_seq (f : nat -> R) (s : list nat) a off :
  phase_grid O (map f s) a off
  = map (fun i => map (fun j => cis O (a * ((f j * f j + f i * f i) + off))) s) s.
Proof. unfold phase_grid. rewrite map_map. apply map_ext. intros i. rewrite map_map. reflexivity. Qed.
Lemma const_row_mul {B} c0 : forall (s : list B) (row : list RC), length row = length s ->
  map2 (cmul O) (map (fun _ => c0) s) row = map (cmul O c0) row.
Proof. induction s as [|j s IH]; intros [|z row] H; try discriminate H; [reflexivity|].
  cbn [map map2]. apply f_equal2; [reflexivity|apply IH; simpl in H; congruence]. Qed.
Lemma const_grid_mul {A B} c0 (s2 : list B) : forall (s1 : list A) (X : list (list RC)),
  length X = length s1 -> Forall (fun row => length row = length s2) X ->
  map2 (map2 (cmul O)) (map (fun _ => map (fun _ => c0) s2) s1) X = map (map (cmul O c0)) X.
Proof. induction s1 as [|i s1 IH]; intros [|row X] H HF; try discriminate H; [reflexivity|].
  cbn [map map2]. apply f_equal2.
  - apply const_row_mul. exact (Forall_inv HF).
  - apply IH; [simpl in H; congruence|exact (Forall_inv_tail HF)]. Qed.
(* two phase grids over index-generated coordinates whose exponents add up to a constant *)
Lemma pg_pair_const (f g : nat -> R) (s : list nat) a o1 b o2 kap (X : list (list RC)) :
  (forall i j, a * ((f j * f j + f i * f i) + o1) + b * ((g j * g j + g i * g i) + o2) = kap) ->
  wf_mat (length s) (length s) X ->
  cmul_m O (cmul_m O (phase_grid O (map f s) a o1) (phase_grid O (map g s) b o2)) X
  = cmulc_m O (cis O kap) X.
Proof. intros H [Hl Hf]. rewrite !pg_seq. unfold cmul_m at 2. rewrite map2_map_same.
  rewrite (map_ext _ (fun _ => map (fun _ => cis O kap) s)).
  - unfold cmul_m, cmulc_m. apply const_grid_mul; assumption.
  - intros i. rewrite map2_map_same. apply map_ext. intros j. rewrite (cis_add G K). f_equal. apply H. Qed.
(* the same on the grids of the model *)
Lemma pg_coords_pair N dA dB a o1 b o2 kap (X : list (list RC)) :
  (forall t u : R, a * (((dA * t) * (dA * t) + (dA * u) * (dA * u)) + o1)
                 + b * (((dB * t) * (dB * t) + (dB * u) * (dB * u)) + o2) = kap) ->
  wf_mat N N X ->
  cmul_m O (cmul_m O (phase_grid O (coordsN O N dA) a o1) (phase_grid O (coordsN O N dB) b o2)) X
  = cmulc_m O (cis O kap) X.
Proof. intros H HX. unfold coordsN. apply pg_pair_const.
  - intros i j. rops. apply H.
  - rewrite seq_length. exact HX. Qed.

(* ---- the propagator away from z = 0, sizes made explicit ---- *)
Lemma AS_nz N (U : list (list RC)) wvl d1 d2 z : wf_mat N N U -> z <> 0 ->
  angularSpectrum O U wvl d1 d2 z
  = cmul_m O (phase_grid O (coordsN O N d2) (kwave O wvl / 2 * (d2 / d1 - 1) / (d2 / d1 * z)) 0)
      (ift2 O (cmul_m O (phase_grid O (coordsN O N (1 / (ofnat O N * d1)))
                           (- (PI * PI) * 2 * z / (d2 / d1) / kwave O wvl) 0)
                 (ft2 O (cdivr_m O (cmul_m O (phase_grid O (coordsN O N d1)
                                                 (kwave O wvl / 2 * (1 - d2 / d1) / z) (eps10 O)) U)
                                   (d2 / d1)) d1))
              (1 / (ofnat O N * d1))).
Proof. intros Hwf Hz. unfold angularSpectrum.
  replace (neqb O z (nzero O)) with false
    by (symmetry; cbv [neqb nzero nofZ ROps Reqb]; destruct (Req_EM_T z 0); [contradiction|reflexivity]).
  ncx. rewrite (wf_len _ _ _ Hwf). reflexivity. Qed.
Lemma wf_AS N (U : list (list RC)) wvl d1 d2 z : wf_mat N N U -> (0 < N)%nat ->
  wf_mat N N (angularSpectrum O U wvl d1 d2 z).
Proof. intros Hwf HN. unfold angularSpectrum. destruct (neqb O z (nzero O)); [exact Hwf|].
  ncx. rewrite (wf_len _ _ _ Hwf).
  apply (wf_cmul_m G K); [apply (wf_phase G K)|]. apply (wf_ift2 G K); try assumption.
  apply (wf_cmul_m G K); [apply (wf_phase G K)|]. apply (wf_ft2 G K); try assumption.
  unfold cdivr_m. apply wf_map_map'. apply (wf_cmul_m G K); [apply (wf_phase G K)|exact Hwf]. Qed.

(* the constant phase left over by the round trip: the two 1e-10 offsets of the input-plane chirps *)
Definition AS_kappa (wvl d1 d2 z : R) : R :=
  kwave O wvl / 2 * ((1 - d2 / d1) / z) * eps10 O + kwave O wvl / 2 * ((1 - d1 / d2) / (- z)) * eps10 O.
Lemma eps10_val : eps10 O = 1 / 10000000000.
Proof. reflexivity. Qed.

Theorem AS_mag_roundtrip_kappa : forall N (U : list (list RC)) wvl d1 d2 z,
  wf_mat N N U -> (0 < N)%nat -> d1 <> 0 -> d2 <> 0 -> z <> 0 ->
  angularSpectrum O (angularSpectrum O U wvl d1 d2 z) wvl d2 d1 (- z)
  = cmulc_m O (cis O (AS_kappa wvl d1 d2 z)) U.
Proof.
  intros N U wvl d1 d2 z Hwf HN Hd1 Hd2 Hz.
  assert (Hz' : - z <> 0) by lra.
  assert (HnN : ofnat O N <> 0).
  { unfold ofnat; rops. rewrite <- INR_IZR_INZ. apply Rgt_not_eq, lt_0_INR. exact HN. }
  rewrite (AS_nz N _ wvl d2 d1 (- z) (wf_AS N U wvl d1 d2 z Hwf HN) Hz').
  rewrite (AS_nz N U wvl d1 d2 z Hwf Hz).
  remember (kwave O wvl) as k eqn:Hk. set (e := eps10 O).
  set (nN := ofnat O N) in *.
  set (W := cmul_m O (phase_grid O (coordsN O N d1) (k / 2 * (1 - d2 / d1) / z) e) U).
  set (Y := ft2 O (cdivr_m O W (d2 / d1)) d1).
  set (Z := cmul_m O (phase_grid O (coordsN O N (1 / (nN * d1))) (- (PI * PI) * 2 * z / (d2 / d1) / k) 0) Y).
  set (X := ift2 O Z (1 / (nN * d1))).
  assert (WW : wf_mat N N W) by (apply (wf_cmul_m G K); [apply (wf_phase G K)|exact Hwf]).
  assert (WD : wf_mat N N (cdivr_m O W (d2 / d1))) by (unfold cdivr_m; apply wf_map_map'; exact WW).
  assert (WY : wf_mat N N Y) by (apply (wf_ft2 G K); assumption).
  assert (WZ : wf_mat N N Z) by (apply (wf_cmul_m G K); [apply (wf_phase G K)|exact WY]).
  assert (WX : wf_mat N N X) by (apply (wf_ift2 G K); assumption).
  (* output-plane chirp of the forward call against input-plane chirp of the backward call *)
  rewrite (cmul_m_assoc G K).
  rewrite (pg_coords_pair N d2 d2 _ _ _ _ (k / 2 * ((1 - d1 / d2) / (- z)) * e) X); [|intros t u; field; repeat split; assumption|exact WX].
  rewrite cdivr_cmulc, cmulc_cmulc.
  rewrite (ft2_cmulc N N _ X d2 WX HN HN). unfold X.
  rewrite (ft2_ift2_scaled N N Z _ d2 WZ HN HN), cscale_cmulc, cmulc_cmulc. unfold Z.
  (* the two transfer functions *)
  rewrite cmul_m_cmulc_r, (cmul_m_assoc G K).
  rewrite (pg_coords_pair N _ _ _ _ _ _ 0 Y); [|intros t u|exact WY].
  2:{ unfold Rdiv. set (ik := / k). field. repeat split; assumption. }
  rewrite cmulc_cmulc.
  rewrite (ift2_cmulc N N _ Y _ WY HN HN). unfold Y.
  rewrite (ift2_ft2_scaled N N _ d1 _ WD HN HN), cscale_cmulc, cmulc_cmulc, cdivr_cmulc, cmulc_cmulc. unfold W.
  (* input-plane chirp of the forward call against output-plane chirp of the backward call *)
  rewrite cmul_m_cmulc_r, (cmul_m_assoc G K).
  rewrite (pg_coords_pair N d1 d1 _ _ _ _ (k / 2 * ((1 - d2 / d1) / z) * e) U); [|intros t u; field; repeat split; assumption|exact Hwf].
  rewrite cmulc_cmulc. f_equal.
  unfold AS_kappa. rewrite <- Hk. fold e.
  rewrite <- (cis_add G K).
  generalize (cis O (k / 2 * ((1 - d2 / d1) / z) * e)) (cis O (k / 2 * ((1 - d1 / d2) / (- z)) * e)).
  intros c1 c2.
  replace (cis O 0) with ((1, 0) : RC) by (unfold cis; rops; rewrite cos_0, sin_0; reflexivity).
  assert (EN : nN = INR N) by (unfold nN, ofnat; rops; symmetry; apply INR_IZR_INZ).
  rewrite EN in *. clear EN.
  cfield; repeat split; assumption.
Qed.

Theorem AS_mag_roundtrip : forall N (U : list (list RC)) wvl d1 d2 z,
  wf_mat N N U -> (0 < N)%nat -> d1 <> 0 -> d2 <> 0 -> z <> 0 ->
  exists kappa : R,
    angularSpectrum O (angularSpectrum O U wvl d1 d2 z) wvl d2 d1 (- z) = cmulc_m O (cis O kappa) U.
Proof. intros N U wvl d1 d2 z Hwf HN Hd1 Hd2 Hz. exists (AS_kappa wvl d1 d2 z).
  apply (AS_mag_roundtrip_kappa N); assumption. Qed.

(* sanity: the residual phase vanishes at unit magnification (AS_inverse of C11), and its closed form *)
Lemma AS_kappa_unit wvl d z : d <> 0 -> AS_kappa wvl d d z = 0.
Proof. intros Hd. unfold AS_kappa. replace (d / d) with 1 by (field; exact Hd). unfold Rdiv. ring. Qed.
Lemma AS_kappa_closed wvl d1 d2 z : d1 <> 0 -> d2 <> 0 -> z <> 0 ->
  AS_kappa wvl d1 d2 z = kwave O wvl / 2 * (eps10 O / z) * (d1 / d2 - d2 / d1).
Proof. intros H1 H2 Hz. unfold AS_kappa. generalize (kwave O wvl) (eps10 O). intros k e.
  field. repeat split; assumption. Qed.
(* the factor has modulus one: the round trip returns the input intensity exactly *)
Corollary AS_mag_roundtrip_intensity : forall N (U : list (list RC)) wvl d1 d2 z,
  wf_mat N N U -> (0 < N)%nat -> d1 <> 0 -> d2 <> 0 -> z <> 0 ->
  map (map (cabs2 O)) (angularSpectrum O (angularSpectrum O U wvl d1 d2 z) wvl d2 d1 (- z))
  = map (map (cabs2 O)) U.
Proof. intros N U wvl d1 d2 z Hwf HN Hd1 Hd2 Hz.
  rewrite (AS_mag_roundtrip_kappa N U wvl d1 d2 z Hwf HN Hd1 Hd2 Hz). unfold cmulc_m.
  rewrite map_map. apply map_ext. intros row. rewrite map_map. apply map_ext. intros u.
  rewrite (cabs2_cmul G K), (cabs2_cis G K). apply Rmult_1_l. Qed.

(* ---- non-vacuity: the hypotheses are jointly satisfiable ---- *)
Definition U0 : list (list RC) := [[(1, 0); (0, 1)]; [(2, 0); (0, 0)]].
Definition V0 : list (list RC) := [[(0, 0); (1, 1)]; [(0, -1); (3, 0)]].
Example U0_wf : wf_mat 2 2 U0.
Proof. split; [reflexivity|]. repeat constructor. Qed.
Example V0_wf : wf_mat 2 2 V0.
Proof. split; [reflexivity|]. repeat constructor. Qed.
Example AS_linear_ex :
  angularSpectrum O (lin2 (1, 2) (3, 4) U0 V0) 1 1 2 3
  = lin2 (1, 2) (3, 4) (angularSpectrum O U0 1 1 2 3) (angularSpectrum O V0 1 1 2 3).
Proof. apply (AS_linear (1, 2) (3, 4) 2 U0 V0 1 1 2 3 U0_wf V0_wf). lia. Qed.
Example twoStep_linear_ex :
  twoStepFresnel O (lin2 (1, 2) (3, 4) U0 V0) 1 1 2 3
  = lin2 (1, 2) (3, 4) (twoStepFresnel O U0 1 1 2 3) (twoStepFresnel O V0 1 1 2 3).
Proof. apply (twoStep_linear (1, 2) (3, 4) 2 U0 V0 1 1 2 3 U0_wf V0_wf). lia. Qed.
Example ft2_ift2_scaled_ex : ft2 O (ift2 O U0 5) 7 = cscale_m O ((INR 2 * 5 * 7) ^ 2) U0.
Proof. apply (ft2_ift2_scaled 2 2 U0 5 7 U0_wf); lia. Qed.
Example AS_mag_roundtrip_ex :
  exists kappa : R,
    angularSpectrum O (angularSpectrum O U0 1 1 2 3) 1 2 1 (- 3) = cmulc_m O (cis O kappa) U0.
Proof. apply (AS_mag_roundtrip 2 U0 1 1 2 3 U0_wf); try lia; lra. Qed.

End C10lin.

Print Assumptions AS_linear.
Print Assumptions twoStep_linear.
Print Assumptions AS_mag_roundtrip.
