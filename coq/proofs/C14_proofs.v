(* C14: circle is the exact indicator of pixel centres within the radius; nesting, symmetries,
   translation; sub-aperture selection is monotone in the threshold; scatter/gather identity. *)
From Coq Require Import Reals Lra Lia ZArith List Arith Bool Psatz.
Require Import AOV.base.Num AOV.base.NumR AOV.base.RpowTac AOV.model.Pupil.
Import ListNotations.
Local Open Scope R_scope.

Section C14R.
Variables (G : R -> R) (K : R -> R -> R).
Local Notation O := (ROps G K).

(* pixel-centre coordinate: j + 1/2 (- n/2) *)
Lemma pcoord_R n mid j : pcoord O n mid j = INR j + 1/2 - (if mid then INR n / 2 else 0).
Proof. unfold pcoord, ofn; rops. rewrite <- !INR_IZR_INZ. destruct mid; field. Qed.

Lemma circle_px_spec r n c0 c1 mid i j :
  circle_px O r n c0 c1 mid i j = true <->
  (pcoord O n mid j - c0) * (pcoord O n mid j - c0) + (pcoord O n mid i - c1) * (pcoord O n mid i - c1) <= r * r.
Proof. unfold circle_px. cbv [nleb nsub nmul nadd ROps]. apply Rleb_true. Qed.

Lemma circle_nested r1 r2 n c0 c1 mid i j : 0 <= r1 <= r2 ->
  circle_px O r1 n c0 c1 mid i j = true -> circle_px O r2 n c0 c1 mid i j = true.
Proof. intros [H0 H12]. rewrite !circle_px_spec. intros H. apply Rle_trans with (r1 * r1); [exact H|nra]. Qed.

(* symmetries of the square for a centred circle *)
Lemma circle_transpose r n c mid i j : circle_px O r n c c mid i j = circle_px O r n c c mid j i.
Proof. apply eq_true_iff_eq. rewrite !circle_px_spec. split; intros H; lra. Qed.
Lemma pcoord_flip n j : (j < n)%nat -> pcoord O n true (n - 1 - j) = - pcoord O n true j.
Proof. intros Hj. rewrite !pcoord_R. rewrite !minus_INR by lia. simpl INR. lra. Qed.
Lemma circle_flip_cols r n i j : (j < n)%nat ->
  circle_px O r n 0 0 true i (n - 1 - j) = circle_px O r n 0 0 true i j.
Proof. intros Hj. apply eq_true_iff_eq. rewrite !circle_px_spec, (pcoord_flip n j Hj). split; intros H; lra. Qed.
Lemma circle_flip_rows r n i j : (i < n)%nat ->
  circle_px O r n 0 0 true (n - 1 - i) j = circle_px O r n 0 0 true i j.
Proof. intros Hi. apply eq_true_iff_eq. rewrite !circle_px_spec, (pcoord_flip n i Hi). split; intros H; lra. Qed.

(* integer shift of the centre moves the mask by that many pixels *)
Lemma circle_translate r n c0 c1 mid i j (k l : nat) :
  circle_px O r n (c0 + INR k) (c1 + INR l) mid (i + l) (j + k) = circle_px O r n c0 c1 mid i j.
Proof. apply eq_true_iff_eq. rewrite !circle_px_spec, !pcoord_R, !plus_INR.
  split; intros H; match goal with |- ?a <= _ => match type of H with ?b <= _ => replace a with b by ring end end; exact H. Qed.

(* the array: entry (i,j) is 1 or 0 according to the pixel predicate *)
Lemma circle_entry r n c0 c1 mid i j : (i < n)%nat -> (j < n)%nat ->
  nth j (nth i (circle O r n c0 c1 mid) []) 0 = if circle_px O r n c0 c1 mid i j then 1 else 0.
Proof. intros Hi Hj. unfold circle.
  rewrite (nth_indep _ [] (map (fun j0 => if circle_px O r n c0 c1 mid 0 j0 then none O else nzero O) (seq 0 n)))
    by (rewrite map_length, seq_length; exact Hi).
  rewrite (map_nth (fun i0 => map (fun j0 => if circle_px O r n c0 c1 mid i0 j0 then none O else nzero O) (seq 0 n)) (seq 0 n) 0%nat i).
  rewrite seq_nth by exact Hi.
  rewrite (nth_indep _ 0 ((fun j0 => if circle_px O r n c0 c1 mid (0 + i) j0 then none O else nzero O) 0%nat))
    by (rewrite map_length, seq_length; exact Hj).
  rewrite (map_nth (fun j0 => if circle_px O r n c0 c1 mid (0 + i) j0 then none O else nzero O) (seq 0 n) 0%nat j).
  rewrite seq_nth by exact Hj. cbn [Nat.add]. destruct (circle_px O r n c0 c1 mid i j); reflexivity. Qed.

(* selection shrinks monotonically with the threshold: every cell kept at t2 is kept at t1 <= t2,
   with the same coordinates and fill factor *)
Lemma active_threshold_mono subaps mask t1 t2 e : t1 <= t2 ->
  In e (findActiveSubaps O subaps mask t2) -> In e (findActiveSubaps O subaps mask t1).
Proof. intros Ht. unfold findActiveSubaps. rewrite !in_flat_map.
  intros [x [Hx Hin]]. exists x. split; [exact Hx|]. rewrite in_flat_map in *.
  destruct Hin as [y [Hy Hin]]. exists y. split; [exact Hy|].
  cbv [nleb ROps] in *. unfold Rleb in *.
  destruct (Rle_dec t2 _) as [H2|H2]; [|destruct Hin].
  destruct (Rle_dec t1 _) as [H1|H1]; [exact Hin|]. exfalso. apply H1. lra. Qed.
(* and a kept cell has mean >= threshold *)
Lemma active_meets_threshold subaps mask t e :
  In e (findActiveSubaps O subaps mask t) -> t <= snd e.
Proof. unfold findActiveSubaps. rewrite in_flat_map. intros [x [Hx Hin]]. rewrite in_flat_map in Hin.
  destruct Hin as [y [Hy Hin]]. cbv [nleb ROps] in Hin. unfold Rleb in Hin.
  destruct (Rle_dec t _) as [H|H]; [|destruct Hin]. destruct Hin as [<-|[]]. exact H. Qed.

(* fill factors agree with computeFillFactor when the mask size is a multiple of the sub-aperture count *)
Lemma rnd_INR k : rnd O (INR k) = k.
Proof. unfold rnd. cbv [nround ntoZ ROps]. unfold Rround. rewrite Int_part_INR, <- INR_IZR_INZ.
  replace (INR k - INR k) with 0 by ring.
  destruct (Rlt_dec 0 (1 / 2)) as [_|H]; [|exfalso; apply H; lra].
  rewrite Int_part_INR. apply Nat2Z.id. Qed.
Lemma spacing_mult x q s : (0 < s)%nat -> ofn O x * (ofn O (s * q) / ofn O s) = INR (x * q).
Proof. intros Hs. unfold ofn; rops. rewrite <- !INR_IZR_INZ, !mult_INR.
  assert (0 < INR s) by (apply lt_0_INR; exact Hs). field. lra. Qed.

Lemma fill_agree s q (mask : list (list R)) thr : (0 < s)%nat ->
  nrows mask = (s * q)%nat -> ncolsP mask = (s * q)%nat ->
  map snd (findActiveSubaps O s mask thr)
  = computeFillFactor O mask (map fst (findActiveSubaps O s mask thr)) (INR q).
Proof.
  intros Hs Hr Hc. unfold computeFillFactor. rewrite map_map. apply map_ext_in.
  intros e He. unfold findActiveSubaps in He. rewrite in_flat_map in He.
  destruct He as [x [Hx He]]. rewrite in_flat_map in He. destruct He as [y [Hy He]].
  destruct (nleb O thr _); [|destruct He]. destruct He as [<-|[]]. cbn [fst snd].
  unfold cell. rewrite Hr, Hc, !spacing_mult by exact Hs.
  cbv [nadd ROps]. rewrite <- !plus_INR, !rnd_INR.
  replace (x * q + q)%nat with (S x * q)%nat by lia. replace (y * q + q)%nat with (S y * q)%nat by lia.
  reflexivity.
Qed.
End C14R.

(* scatter then gather is the identity -- for every element type *)
Lemma gather_scatter_row {A} (z : A) : forall (mrow : list bool) (data : list A),
  (length (filter (fun b => b) mrow) <= length data)%nat ->
  gather_row (fst (scatter_row z data mrow)) mrow = firstn (length (filter (fun b => b) mrow)) data
  /\ snd (scatter_row z data mrow) = skipn (length (filter (fun b => b) mrow)) data.
Proof. induction mrow as [|b mrow IH]; intros data Hl; [split; reflexivity|].
  destruct b; cbn [scatter_row filter] in *.
  - destruct data as [|d ds]; [simpl in Hl; lia|]. cbn [length] in Hl.
    destruct (IH ds) as [E1 E2]; [lia|]. destruct (scatter_row z ds mrow) as [o rest]. cbn [fst snd] in *.
    cbn [gather_row length firstn skipn]. split; [f_equal; exact E1|exact E2].
  - destruct (IH data Hl) as [E1 E2]. destruct (scatter_row z data mrow) as [o rest]. cbn [fst snd] in *.
    cbn [gather_row]. split; assumption. Qed.
Lemma gather_scatter {A} (z : A) : forall (mask : list (list bool)) (data : list A),
  (count_mask mask <= length data)%nat ->
  gather (scatter z data mask) mask = firstn (count_mask mask) data.
Proof. unfold count_mask. induction mask as [|mrow mask IH]; intros data Hl; [reflexivity|].
  cbn [concat] in *. rewrite filter_app, app_length in *. cbn [scatter].
  destruct (gather_scatter_row z mrow data) as [E1 E2]; [lia|].
  destruct (scatter_row z data mrow) as [o rest]. cbn [fst snd] in *. cbn [gather]. rewrite E1, IH.
  - subst rest. rewrite firstn_skipn_comm.
    set (a := length (filter (fun b => b) mrow)). set (b := length (filter (fun b => b) (concat mask))).
    replace (firstn a data) with (firstn a (firstn (a + b) data)) by (rewrite firstn_firstn; f_equal; lia).
    apply firstn_skipn.
  - subst rest. rewrite skipn_length. lia. Qed.
Lemma gather_scatter_exact {A} (z : A) mask (data : list A) : count_mask mask = length data ->
  gather (scatter z data mask) mask = data.
Proof. intros H. rewrite gather_scatter by lia. rewrite H. apply firstn_all. Qed.
