(* C12 (rest): properties of the pixel-grid Zernike generator that are not about Noll indexing,
   orthonormality or the gamma matrices:
     1. a mode vanishes outside the inscribed pupil              (zernike_vanishes_outside_pupil, zernike_nm_outside)
     2. the rms normalisation gives unit rms over the pupil count (norm_rms_unit)
     3. the peak-to-valley normalisation gives max - min = 1      (norm_p2v_unit)
     4. the list form of zernikeArray is a selection of the count form (array_list_is_slices_of_array_count; any carrier)
     5. phaseFromZernikes is the linear combination of the modes  (phase_is_linear_combination)
     6. the piston mode is 1 inside the pupil                     (zernike_piston)
   Everything except 4 is at the real instance ROps G K. *)
From Coq Require Import ZArith Reals Bool List Arith Lra Lia.
Require Import AOV.base.Num AOV.base.NumR AOV.model.Pupil AOV.model.Zernike.
Import ListNotations.

(* ------------------------------------------------------------------------------------------ *)
(* generic list facts                                                                         *)
(* ------------------------------------------------------------------------------------------ *)
Lemma nth_map_seq {A} (f : nat -> A) n i d : (i < n)%nat -> nth i (map f (seq 0 n)) d = f i.
Proof.
  intros Hi. rewrite (nth_indep _ d (f 0%nat)) by (rewrite map_length, seq_length; exact Hi).
  rewrite (map_nth f (seq 0 n) 0%nat i), seq_nth by exact Hi. reflexivity.
Qed.
Lemma nth_repeat_lt {A} (x d : A) n i : (i < n)%nat -> nth i (repeat x n) d = x.
Proof. revert i; induction n as [|n IH]; intros [|i] Hi; cbn [repeat nth]; try lia; auto. apply IH; lia. Qed.
Lemma map2_length {A B C} (f : A -> B -> C) a : forall b, length (map2 f a b) = Nat.min (length a) (length b).
Proof. induction a as [|x a IH]; intros [|y b]; cbn [map2 length Nat.min]; auto. Qed.
Lemma nth_map2 {A B C} (f : A -> B -> C) a : forall b i d da db,
  (i < length a)%nat -> (i < length b)%nat -> nth i (map2 f a b) d = f (nth i a da) (nth i b db).
Proof.
  induction a as [|x a IH]; intros [|y b] [|i] d da db Ha Hb; cbn [length] in *; try lia; cbn [map2 nth]; auto.
  apply IH; lia.
Qed.
Lemma combine_seq_nth {A} (d : A) l : forall a,
  combine (seq a (length l)) l = map (fun k => (k, nth (k - a) l d)) (seq a (length l)).
Proof.
  induction l as [|x l IH]; intros a; cbn [length seq combine map]; [reflexivity|].
  rewrite Nat.sub_diag; cbn [nth]. f_equal. rewrite IH. apply map_ext_in.
  intros k Hk. apply in_seq in Hk. replace (k - a)%nat with (S (k - S a)) by lia. reflexivity.
Qed.

(* ------------------------------------------------------------------------------------------ *)
(* 4. list form / count form of zernikeArray: any carrier, no arithmetic                      *)
(* ------------------------------------------------------------------------------------------ *)
Section AnyCarrier.
  Context {T : Type} (OO : NumOps T).

  Theorem zernike_array_count_length : forall J N norm rot,
    length (zernike_array_count OO J N norm rot) = J.
  Proof. intros. unfold zernike_array_count, zernike_array_list. rewrite !map_length, seq_length. reflexivity. Qed.

  Theorem zernike_array_list_length : forall js N norm rot,
    length (zernike_array_list OO js N norm rot) = length js.
  Proof. intros. unfold zernike_array_list. apply map_length. Qed.

  (* entry k of the count form is mode k+1 *)
  Lemma zernike_array_count_nth : forall J N norm rot k, (k < J)%nat ->
    nth k (zernike_array_count OO J N norm rot) [] = apply_norm OO norm N (zernike_noll OO (Z.of_nat (S k)) N rot).
  Proof.
    intros J N norm rot k Hk. unfold zernike_array_count, zernike_array_list. rewrite map_map.
    apply (nth_map_seq (fun k => apply_norm OO norm N (zernike_noll OO (Z.of_nat (S k)) N rot))). exact Hk.
  Qed.
  Lemma zernike_array_list_nth : forall js N norm rot k, (k < length js)%nat ->
    nth k (zernike_array_list OO js N norm rot) [] = apply_norm OO norm N (zernike_noll OO (nth k js 0%Z) N rot).
  Proof.
    intros js N norm rot k Hk. unfold zernike_array_list.
    rewrite (nth_indep _ [] (apply_norm OO norm N (zernike_noll OO 0%Z N rot))) by (rewrite map_length; exact Hk).
    apply (map_nth (fun j => apply_norm OO norm N (zernike_noll OO j N rot))).
  Qed.

  Theorem array_list_is_slices_of_array_count : forall js J N norm rot k,
    Forall (fun j => (1 <= j <= Z.of_nat J)%Z) js -> (k < length js)%nat ->
    nth k (zernike_array_list OO js N norm rot) [] =
    nth (Z.to_nat (nth k js 0%Z) - 1) (zernike_array_count OO J N norm rot) [].
  Proof.
    intros js J N norm rot k Hall Hk.
    assert (Hj : (1 <= nth k js 0 <= Z.of_nat J)%Z).
    { rewrite Forall_forall in Hall. apply Hall, nth_In, Hk. }
    rewrite zernike_array_list_nth by exact Hk.
    rewrite zernike_array_count_nth by lia.
    do 2 f_equal. lia.
  Qed.
End AnyCarrier.

(* ------------------------------------------------------------------------------------------ *)
(* real instance                                                                              *)
(* ------------------------------------------------------------------------------------------ *)
Local Open Scope R_scope.

Definition entry (m : list (list R)) (i j : nat) : R := nth j (nth i m []) 0.
Definition shape (N : nat) (m : list (list R)) : Prop := length m = N /\ Forall (fun row => length row = N) m.
Definition sumsq (l : list R) : R := fold_right Rplus 0 (map (fun v => v * v) l).

Lemma fold_left_Rplus_acc' l a : fold_left Rplus l a = a + fold_left Rplus l 0.
Proof. revert a; induction l as [|x l IH]; intros a; cbn [fold_left]; [lra|]. rewrite IH, (IH (0 + x)); lra. Qed.

Section Real.
  Variables (G : R -> R) (K : R -> R -> R).
  Local Notation O := (ROps G K).

  Lemma nsum_fold_right l : nsum O l = fold_right Rplus 0 l.
  Proof.
    unfold nsum. rops. induction l as [|x l IH]; cbn [fold_left fold_right]; [reflexivity|].
    rewrite fold_left_Rplus_acc', IH. lra.
  Qed.
  Lemma nsum_sumsq l : nsum O (map (nsqr O) l) = sumsq l.
  Proof. rewrite nsum_fold_right. reflexivity. Qed.

  (* ---------------------------------------------------------------------------------------- *)
  (* 1. outside the pupil                                                                     *)
  (* ---------------------------------------------------------------------------------------- *)
  Definition zrad (N i j : nat) : R :=
    sqrt (zcoord O N j * zcoord O N j + zcoord O N i * zcoord O N i).
  Definition in_pupil (N i j : nat) : bool :=
    circle_px O (IZR (Z.of_nat N) / 2) N 0 0 true i j.

  Lemma zernike_px_factor n m N rot i j : exists z,
    zernike_px O n m N rot i j =
    (z * (if Rleb (zrad N i j) 1 then 1 else 0)) * (if in_pupil N i j then 1 else 0).
  Proof. unfold zernike_px. eexists. reflexivity. Qed.

  Theorem zernike_vanishes_outside_pupil : forall n m N rot i j,
    circle_px O (IZR (Z.of_nat N) / 2) N 0 0 true i j = false \/
    1 < sqrt (zcoord O N j * zcoord O N j + zcoord O N i * zcoord O N i) ->
    zernike_px O n m N rot i j = 0.
  Proof.
    intros n m N rot i j H. destruct (zernike_px_factor n m N rot i j) as [z ->].
    destruct H as [H | H].
    - unfold in_pupil. rewrite H. ring.
    - destruct (Rleb (zrad N i j) 1) eqn:E.
      + apply Rleb_true in E. unfold zrad in E. lra.
      + ring.
  Qed.

  Lemma zernike_nm_entry n m N rot i j : (i < N)%nat -> (j < N)%nat ->
    entry (zernike_nm O n m N rot) i j = zernike_px O n m N rot i j.
  Proof.
    intros Hi Hj. unfold entry, zernike_nm.
    rewrite (nth_map_seq (fun i => map (fun j => zernike_px O n m N rot i j) (seq 0 N))) by exact Hi.
    apply (nth_map_seq (fun j => zernike_px O n m N rot i j)). exact Hj.
  Qed.
  Lemma zernike_nm_shape n m N rot : shape N (zernike_nm O n m N rot).
  Proof.
    unfold shape, zernike_nm. split; [rewrite map_length, seq_length; reflexivity|].
    apply Forall_forall. intros row Hr. apply in_map_iff in Hr. destruct Hr as [i [<- _]].
    rewrite map_length, seq_length. reflexivity.
  Qed.
  Lemma zernike_noll_nm jn N rot :
    zernike_noll O jn N rot = zernike_nm O (fst (zern_index jn)) (snd (zern_index jn)) N rot.
  Proof. unfold zernike_noll. destruct (zern_index jn). reflexivity. Qed.
  Lemma zernike_noll_shape jn N rot : shape N (zernike_noll O jn N rot).
  Proof. rewrite zernike_noll_nm. apply zernike_nm_shape. Qed.

  Theorem zernike_nm_outside : forall n m N rot i j, (i < N)%nat -> (j < N)%nat ->
    circle_px O (IZR (Z.of_nat N) / 2) N 0 0 true i j = false \/
    1 < sqrt (zcoord O N j * zcoord O N j + zcoord O N i * zcoord O N i) ->
    nth j (nth i (zernike_nm O n m N rot) []) 0 = 0.
  Proof.
    intros n m N rot i j Hi Hj H. fold (entry (zernike_nm O n m N rot) i j).
    rewrite zernike_nm_entry by assumption. apply zernike_vanishes_outside_pupil, H.
  Qed.
  Theorem zernike_noll_outside : forall jn N rot i j, (i < N)%nat -> (j < N)%nat ->
    circle_px O (IZR (Z.of_nat N) / 2) N 0 0 true i j = false \/
    1 < sqrt (zcoord O N j * zcoord O N j + zcoord O N i * zcoord O N i) ->
    nth j (nth i (zernike_noll O jn N rot) []) 0 = 0.
  Proof. intros. rewrite zernike_noll_nm. apply zernike_nm_outside; assumption. Qed.

  (* the two masks coincide on the reals: pixel in the inscribed circle  <->  normalised radius <= 1 *)
  Lemma IZR_N_half_pos N : (1 <= N)%nat -> 0 < IZR (Z.of_nat N) / 2.
  Proof. intros H. assert (1 <= IZR (Z.of_nat N)) by (apply IZR_le; lia). lra. Qed.
  Lemma pcoord_zcoord N j : (1 <= N)%nat ->
    pcoord O N true j - 0 = zcoord O N j * (IZR (Z.of_nat N) / 2).
  Proof.
    intros HN. pose proof (IZR_N_half_pos N HN) as Hh.
    unfold pcoord, zcoord, ofn, zN. rops. field. lra.
  Qed.
  Theorem in_pupil_iff_radius_le_1 : forall N i j, (1 <= N)%nat ->
    circle_px O (IZR (Z.of_nat N) / 2) N 0 0 true i j = Rleb (zrad N i j) 1.
  Proof.
    intros N i j HN. pose proof (IZR_N_half_pos N HN) as Hh.
    assert (E : circle_px O (IZR (Z.of_nat N) / 2) N 0 0 true i j =
                Rleb ((pcoord O N true j - 0) * (pcoord O N true j - 0) + (pcoord O N true i - 0) * (pcoord O N true i - 0))
                     (IZR (Z.of_nat N) / 2 * (IZR (Z.of_nat N) / 2))) by reflexivity.
    rewrite E. clear E. rewrite !(pcoord_zcoord N _ HN).
    set (h := IZR (Z.of_nat N) / 2) in *. unfold zrad.
    set (x := zcoord O N j). set (y := zcoord O N i).
    assert (Hq : 0 <= x * x + y * y) by nra.
    destruct (Rleb (sqrt (x * x + y * y)) 1) eqn:E.
    - apply Rleb_true in E. apply Rleb_true.
      assert (x * x + y * y <= 1).
      { rewrite <- (sqrt_sqrt _ Hq). pose proof (sqrt_pos (x * x + y * y)). nra. }
      nra.
    - destruct (Rleb (x * h * (x * h) + y * h * (y * h)) (h * h)) eqn:E2; [|reflexivity].
      apply Rleb_true in E2.
      assert (E3 : ~ sqrt (x * x + y * y) <= 1) by (intro C; apply Rleb_true in C; congruence).
      exfalso; apply E3.
      assert (Hle : x * x + y * y <= 1).
      { assert (0 < h * h) by nra. apply Rmult_le_reg_r with (h * h); [assumption|]. nra. }
      rewrite <- sqrt_1. apply sqrt_le_1_alt. exact Hle.
  Qed.

  (* ---------------------------------------------------------------------------------------- *)
  (* 6. piston                                                                                *)
  (* ---------------------------------------------------------------------------------------- *)
  Lemma radial_0_0 r : radial O 0 0 r = 1.
  Proof.
    assert (E : radial O 0 0 r = 0 + Rpower r (IZR 0) * IZR 1 / IZR 1) by reflexivity.
    rewrite E. unfold Rpower. rewrite Rmult_0_l, exp_0. field.
  Qed.
  Theorem zernike_piston : forall N rot i j,
    circle_px O (IZR (Z.of_nat N) / 2) N 0 0 true i j = true ->
    sqrt (zcoord O N j * zcoord O N j + zcoord O N i * zcoord O N i) <= 1 ->
    zernike_px O 0 0 N rot i j = 1.
  Proof.
    intros N rot i j Hp Hr.
    assert (E : zernike_px O 0 0 N rot i j =
                ((sqrt (IZR 1) * radial O 0 0 (zrad N i j)) * (if Rleb (zrad N i j) 1 then 1 else 0))
                * (if in_pupil N i j then 1 else 0)) by reflexivity.
    rewrite E, radial_0_0. unfold in_pupil, zrad. rewrite Hp.
    apply Rleb_true in Hr. rewrite Hr, sqrt_1. ring.
  Qed.
  Theorem zernike_noll_piston : forall N rot i j, (i < N)%nat -> (j < N)%nat ->
    circle_px O (IZR (Z.of_nat N) / 2) N 0 0 true i j = true ->
    nth j (nth i (zernike_noll O 1 N rot) []) 0 = 1.
  Proof.
    intros N rot i j Hi Hj Hp. change (zernike_noll O 1 N rot) with (zernike_nm O 0 0 N rot).
    fold (entry (zernike_nm O 0 0 N rot) i j). rewrite zernike_nm_entry by assumption.
    apply zernike_piston; [exact Hp|].
    assert (HN : (1 <= N)%nat) by lia.
    rewrite in_pupil_iff_radius_le_1 in Hp by exact HN. apply Rleb_true in Hp. exact Hp.
  Qed.

  (* ---------------------------------------------------------------------------------------- *)
  (* 2. rms normalisation                                                                     *)
  (* ---------------------------------------------------------------------------------------- *)
  Lemma flat2_map_map (f : R -> R) z : flat2 (map (map f) z) = map f (flat2 z).
  Proof. unfold flat2. symmetry. apply concat_map. Qed.
  Lemma sumsq_div l s : s <> 0 -> sumsq (map (fun v => v / s) l) = sumsq l / (s * s).
  Proof.
    intros Hs. unfold sumsq. induction l as [|x l IH]; cbn [map fold_right]; [field; exact Hs|].
    rewrite IH. field. exact Hs.
  Qed.

  Definition npup (N : nat) : R := nsum O (flat2 (circle O (IZR (Z.of_nat N) / 2) N 0 0 true)).

  Theorem norm_rms_unit : forall N z,
    0 < npup N -> 0 < nsum O (map (nsqr O) (flat2 z)) ->
    nsum O (map (nsqr O) (flat2 (norm_rms O N z))) / npup N = 1.
  Proof.
    intros N z Hn Hs. rewrite nsum_sumsq in *.
    unfold norm_rms.
    change (nsum O (flat2 (circle O (ndiv O (zN O (Z.of_nat N)) (zN O 2)) N (nzero O) (nzero O) true))) with (npup N).
    rewrite nsum_sumsq. rops.
    set (S := sumsq (flat2 z)) in *. set (P := npup N) in *.
    assert (Hq : 0 < S / P) by (apply Rdiv_lt_0_compat; assumption).
    assert (Hs0 : sqrt (S / P) <> 0).
    { pose proof (sqrt_lt_R0 _ Hq). lra. }
    rewrite flat2_map_map, sumsq_div by exact Hs0.
    fold S. rewrite sqrt_sqrt by lra. field. lra.
  Qed.
  (* the same, as the rms the source means: sqrt(sum(z**2)/npup) = 1 *)
  Corollary norm_rms_unit_sqrt : forall N z,
    0 < npup N -> 0 < nsum O (map (nsqr O) (flat2 z)) ->
    sqrt (nsum O (map (nsqr O) (flat2 (norm_rms O N z))) / npup N) = 1.
  Proof. intros. rewrite norm_rms_unit by assumption. apply sqrt_1. Qed.

  (* npup is a count of pixels, and is positive for every N >= 1 (the centre pixel is in the pupil) *)
  Lemma sum_nonneg l : Forall (fun v => 0 <= v) l -> 0 <= fold_right Rplus 0 l.
  Proof. induction 1; cbn [fold_right]; lra. Qed.
  Lemma sum_pos_of_member l x : Forall (fun v => 0 <= v) l -> In x l -> x <= fold_right Rplus 0 l.
  Proof.
    induction 1 as [|y l Hy Hl IH]; intros Hin; [destruct Hin|].
    cbn [fold_right]. pose proof (sum_nonneg l Hl). destruct Hin as [-> | Hin]; [lra|]. specialize (IH Hin). lra.
  Qed.
  Lemma circle_entries N : Forall (fun v => 0 <= v) (flat2 (circle O (IZR (Z.of_nat N) / 2) N 0 0 true)).
  Proof.
    apply Forall_forall. intros v Hv. unfold flat2 in Hv. apply in_concat in Hv.
    destruct Hv as [row [Hrow Hv]]. unfold circle in Hrow. apply in_map_iff in Hrow.
    destruct Hrow as [i [<- _]]. apply in_map_iff in Hv. destruct Hv as [j [<- _]].
    destruct (circle_px _ _ _ _ _ _ _ _); rops; lra.
  Qed.
  Lemma npup_ge_pixel N i j : (i < N)%nat -> (j < N)%nat -> in_pupil N i j = true -> 1 <= npup N.
  Proof.
    intros Hi Hj Hp. unfold npup. rewrite nsum_fold_right.
    apply sum_pos_of_member; [apply circle_entries|].
    unfold flat2. apply in_concat.
    exists (map (fun j => if circle_px O (IZR (Z.of_nat N) / 2) N 0 0 true i j then none O else nzero O) (seq 0 N)).
    split.
    - unfold circle. apply in_map_iff. exists i. split; [reflexivity|]. apply in_seq. lia.
    - apply in_map_iff. exists j. split; [|apply in_seq; lia].
      unfold in_pupil in Hp. rewrite Hp. reflexivity.
  Qed.
  Lemma centre_in_pupil N : (1 <= N)%nat -> in_pupil N (N / 2) (N / 2) = true.
  Proof.
    intros HN. unfold in_pupil, circle_px, pcoord, ofn. rops. apply Rleb_true.
    pose proof (Nat.div_mod_eq N 2) as E. pose proof (Nat.mod_upper_bound N 2 ltac:(lia)) as Hm.
    set (q := (N / 2)%nat) in *. set (r := (N mod 2)%nat) in *.
    assert (EN : IZR (Z.of_nat N) = 2 * IZR (Z.of_nat q) + IZR (Z.of_nat r)).
    { rewrite E at 1. rewrite Nat2Z.inj_add, Nat2Z.inj_mul, plus_IZR, mult_IZR. reflexivity. }
    rewrite EN.
    assert (Hq : 0 <= IZR (Z.of_nat q)) by (apply IZR_le; lia).
    assert (Hr : r = 0%nat \/ r = 1%nat) by lia.
    destruct Hr as [Hr | Hr]; rewrite Hr in *; cbn [Z.of_nat Pos.of_succ_nat] in *.
    - assert (1 <= IZR (Z.of_nat q)) by (apply IZR_le; lia). nra.
    - nra.
  Qed.
  Theorem npup_pos : forall N, (1 <= N)%nat -> 0 < npup N.
  Proof.
    intros N HN. assert (Hd : (N / 2 < N)%nat) by (apply Nat.div_lt; lia).
    pose proof (npup_ge_pixel N (N / 2) (N / 2) Hd Hd (centre_in_pupil N HN)). lra.
  Qed.

  (* ---------------------------------------------------------------------------------------- *)
  (* 3. peak-to-valley normalisation                                                          *)
  (* ---------------------------------------------------------------------------------------- *)
  Definition fmax (f : list R) : R := fold_left (nmax O) f (hd 0 f).
  Definition fmin (f : list R) : R := fold_left (nmin O) f (hd 0 f).

  Lemma nmax_R a b : nmax O a b = Rmax a b.
  Proof.
    unfold nmax. rops. unfold Rmax. destruct (Rltb a b) eqn:E.
    - apply Rltb_true in E. destruct (Rle_dec a b); lra.
    - assert (~ a < b) by (intro C; apply Rltb_true in C; congruence).
      destruct (Rle_dec a b); lra.
  Qed.
  Lemma nmin_R a b : nmin O a b = Rmin a b.
  Proof.
    unfold nmin. rops. unfold Rmin. destruct (Rltb b a) eqn:E.
    - apply Rltb_true in E. destruct (Rle_dec a b); lra.
    - assert (~ b < a) by (intro C; apply Rltb_true in C; congruence).
      destruct (Rle_dec a b); lra.
  Qed.

  Lemma fold_max_ge l : forall a, a <= fold_left (nmax O) l a.
  Proof.
    induction l as [|x l IH]; intros a; cbn [fold_left]; [lra|].
    specialize (IH (nmax O a x)). rewrite nmax_R in *. pose proof (Rmax_l a x). lra.
  Qed.
  Lemma fold_min_le l : forall a, fold_left (nmin O) l a <= a.
  Proof.
    induction l as [|x l IH]; intros a; cbn [fold_left]; [lra|].
    specialize (IH (nmin O a x)). rewrite nmin_R in *. pose proof (Rmin_l a x). lra.
  Qed.
  (* the folds are what they should be: bounds that are attained *)
  Lemma fold_max_upper l : forall a x, In x l -> x <= fold_left (nmax O) l a.
  Proof.
    induction l as [|y l IH]; intros a x Hin; [destruct Hin|]. cbn [fold_left].
    destruct Hin as [-> | Hin]; [|apply IH, Hin].
    pose proof (fold_max_ge l (nmax O a x)). rewrite nmax_R in *. pose proof (Rmax_r a x). lra.
  Qed.
  Lemma fold_min_lower l : forall a x, In x l -> fold_left (nmin O) l a <= x.
  Proof.
    induction l as [|y l IH]; intros a x Hin; [destruct Hin|]. cbn [fold_left].
    destruct Hin as [-> | Hin]; [|apply IH, Hin].
    pose proof (fold_min_le l (nmin O a x)). rewrite nmin_R in *. pose proof (Rmin_r a x). lra.
  Qed.
  Lemma fold_max_attained l : forall a, In (fold_left (nmax O) l a) (a :: l).
  Proof.
    induction l as [|y l IH]; intros a; cbn [fold_left]; [left; reflexivity|].
    destruct (IH (nmax O a y)) as [E | Hin]; [|right; right; exact Hin].
    rewrite <- E, nmax_R. unfold Rmax. destruct (Rle_dec a y); [right; left|left]; reflexivity.
  Qed.
  Lemma fold_min_attained l : forall a, In (fold_left (nmin O) l a) (a :: l).
  Proof.
    induction l as [|y l IH]; intros a; cbn [fold_left]; [left; reflexivity|].
    destruct (IH (nmin O a y)) as [E | Hin]; [|right; right; exact Hin].
    rewrite <- E, nmin_R. unfold Rmin. destruct (Rle_dec a y); [left|right; left]; reflexivity.
  Qed.
  Theorem fmax_spec : forall f, f <> [] -> In (fmax f) f /\ forall x, In x f -> x <= fmax f.
  Proof.
    intros [|a f] Hne; [congruence|]. unfold fmax. cbn [hd]. split.
    - destruct (fold_max_attained (a :: f) a) as [E | Hin]; [rewrite <- E; left; reflexivity | exact Hin].
    - intros x Hx. apply fold_max_upper, Hx.
  Qed.
  Theorem fmin_spec : forall f, f <> [] -> In (fmin f) f /\ forall x, In x f -> fmin f <= x.
  Proof.
    intros [|a f] Hne; [congruence|]. unfold fmin. cbn [hd]. split.
    - destruct (fold_min_attained (a :: f) a) as [E | Hin]; [rewrite <- E; left; reflexivity | exact Hin].
    - intros x Hx. apply fold_min_lower, Hx.
  Qed.

  Theorem fold_max_ge_fold_min : forall f a,
    fold_left (nmin O) f a <= fold_left (nmax O) f a.
  Proof. intros f a. pose proof (fold_max_ge f a). pose proof (fold_min_le f a). lra. Qed.
  Corollary fmax_ge_fmin : forall f, fmin f <= fmax f.
  Proof. intros f. apply fold_max_ge_fold_min. Qed.

  (* dividing by a positive constant commutes with the folds *)
  Lemma fold_max_div c l : 0 < c -> forall a,
    fold_left (nmax O) (map (fun v => v / c) l) (a / c) = fold_left (nmax O) l a / c.
  Proof.
    intros Hc. induction l as [|x l IH]; intros a; cbn [map fold_left]; [reflexivity|].
    rewrite <- IH. f_equal. rewrite !nmax_R. unfold Rmax.
    assert (Hi : 0 < / c) by (apply Rinv_0_lt_compat; exact Hc).
    destruct (Rle_dec a x) as [L | L], (Rle_dec (a / c) (x / c)) as [L' | L']; try reflexivity; exfalso.
    - apply L'. unfold Rdiv. apply Rmult_le_compat_r; lra.
    - apply L. unfold Rdiv in L'. apply Rmult_le_reg_r in L'; assumption.
  Qed.
  Lemma fold_min_div c l : 0 < c -> forall a,
    fold_left (nmin O) (map (fun v => v / c) l) (a / c) = fold_left (nmin O) l a / c.
  Proof.
    intros Hc. induction l as [|x l IH]; intros a; cbn [map fold_left]; [reflexivity|].
    rewrite <- IH. f_equal. rewrite !nmin_R. unfold Rmin.
    assert (Hi : 0 < / c) by (apply Rinv_0_lt_compat; exact Hc).
    destruct (Rle_dec a x) as [L | L], (Rle_dec (a / c) (x / c)) as [L' | L']; try reflexivity; exfalso.
    - apply L'. unfold Rdiv. apply Rmult_le_compat_r; lra.
    - apply L. unfold Rdiv in L'. apply Rmult_le_reg_r in L'; assumption.
  Qed.
  Lemma hd_map_div c l : hd 0 (map (fun v => v / c) l) = hd 0 l / c.
  Proof. destruct l; cbn [map hd]; [unfold Rdiv; ring | reflexivity]. Qed.
  Lemma fmax_div c l : 0 < c -> fmax (map (fun v => v / c) l) = fmax l / c.
  Proof. intros Hc. unfold fmax. rewrite hd_map_div. apply fold_max_div, Hc. Qed.
  Lemma fmin_div c l : 0 < c -> fmin (map (fun v => v / c) l) = fmin l / c.
  Proof. intros Hc. unfold fmin. rewrite hd_map_div. apply fold_min_div, Hc. Qed.

  Lemma norm_p2v_flat z :
    flat2 (norm_p2v O z) = map (fun v => v / (fmax (flat2 z) - fmin (flat2 z))) (flat2 z).
  Proof. unfold norm_p2v. rewrite flat2_map_map. reflexivity. Qed.

  (* max <> min already forces the array to be non-empty *)
  Lemma fmax_neq_fmin_nonempty f : fmax f <> fmin f -> f <> [].
  Proof. intros H E. subst f. apply H. reflexivity. Qed.

  Theorem norm_p2v_unit : forall z,
    fold_left (nmax O) (flat2 z) (hd 0 (flat2 z)) <> fold_left (nmin O) (flat2 z) (hd 0 (flat2 z)) ->
    let f' := flat2 (norm_p2v O z) in
    fold_left (nmax O) f' (hd 0 f') - fold_left (nmin O) f' (hd 0 f') = 1.
  Proof.
    intros z Hne f'. subst f'. fold (fmax (flat2 z)) (fmin (flat2 z)) in Hne.
    fold (fmax (flat2 (norm_p2v O z))) (fmin (flat2 (norm_p2v O z))).
    rewrite norm_p2v_flat.
    pose proof (fmax_ge_fmin (flat2 z)) as Hge.
    set (mx := fmax (flat2 z)) in *. set (mn := fmin (flat2 z)) in *.
    assert (Hc : 0 < mx - mn) by lra.
    rewrite fmax_div, fmin_div by exact Hc. fold mx mn. field. lra.
  Qed.

  (* ---------------------------------------------------------------------------------------- *)
  (* 5. phaseFromZernikes                                                                     *)
  (* ---------------------------------------------------------------------------------------- *)
  Lemma shape_row N m i : shape N m -> (i < N)%nat -> length (nth i m []) = N.
  Proof.
    intros [Hl Hr] Hi. rewrite Forall_forall in Hr. apply Hr, nth_In. lia.
  Qed.
  Lemma shape_map N (f : R -> R) m : shape N m -> shape N (map (map f) m).
  Proof.
    intros [Hl Hr]. split; [rewrite map_length; exact Hl|].
    apply Forall_forall. intros row Hin. apply in_map_iff in Hin. destruct Hin as [r0 [<- Hin]].
    rewrite map_length. rewrite Forall_forall in Hr. apply Hr, Hin.
  Qed.
  Lemma entry_map N (f : R -> R) m i j : shape N m -> (i < N)%nat -> (j < N)%nat ->
    entry (map (map f) m) i j = f (entry m i j).
  Proof.
    intros Hs Hi Hj. unfold entry. destruct Hs as [Hl Hr].
    rewrite (nth_indep (map (map f) m) [] (map f [])) by (rewrite map_length; lia).
    rewrite (map_nth (map f) m [] i).
    assert (Hrow : length (nth i m []) = N) by (apply shape_row; [split|]; assumption).
    rewrite (nth_indep (map f (nth i m [])) 0 (f 0)) by (rewrite map_length; lia).
    apply (map_nth f).
  Qed.
  Lemma shape_add N a b : shape N a -> shape N b -> shape N (map2 (map2 Rplus) a b).
  Proof.
    intros [Hla Hra] [Hlb Hrb]. split; [rewrite map2_length; lia|].
    apply Forall_forall. intros row Hin.
    destruct (In_nth _ _ [] Hin) as [i [Hi <-]]. rewrite map2_length in Hi.
    rewrite (nth_map2 (map2 Rplus) a b i [] [] []) by lia.
    rewrite map2_length, !(shape_row N) by (try split; try assumption; lia). apply Nat.min_id.
  Qed.
  Lemma entry_add N a b i j : shape N a -> shape N b -> (i < N)%nat -> (j < N)%nat ->
    entry (map2 (map2 Rplus) a b) i j = entry a i j + entry b i j.
  Proof.
    intros Ha Hb Hi Hj. unfold entry.
    rewrite (nth_map2 (map2 Rplus) a b i [] [] []) by (destruct Ha, Hb; lia).
    apply nth_map2; rewrite (shape_row N); assumption.
  Qed.
  Lemma shape_zeros N : shape N (repeat (repeat 0 N) N).
  Proof.
    split; [apply repeat_length|]. apply Forall_forall. intros row Hin.
    apply repeat_spec in Hin. subst row. apply repeat_length.
  Qed.
  Lemma entry_zeros N i j : (i < N)%nat -> (j < N)%nat -> entry (repeat (repeat 0 N) N) i j = 0.
  Proof. intros Hi Hj. unfold entry. rewrite (nth_repeat_lt _ _ N i Hi). apply nth_repeat_lt, Hj. Qed.

  (* the accumulation loop over any list of (index, coefficient) pairs and any family of N x N arrays *)
  Lemma accumulate_spec N (M : nat -> list (list R)) (HM : forall k, shape N (M k)) L : forall acc,
    shape N acc ->
    let res := fold_left (fun acc (jc : nat * R) =>
                 map2 (map2 Rplus) acc (map (map (fun v => v * snd jc)) (M (fst jc)))) L acc in
    shape N res /\
    forall i j, (i < N)%nat -> (j < N)%nat ->
      entry res i j = entry acc i j + fold_right Rplus 0 (map (fun jc => entry (M (fst jc)) i j * snd jc) L).
  Proof.
    induction L as [|[k c] L IH]; intros acc Hacc; cbn [fold_left map fold_right fst snd].
    - split; [exact Hacc|]. intros; lra.
    - assert (Hs : shape N (map2 (map2 Rplus) acc (map (map (fun v => v * c)) (M k)))).
      { apply shape_add; [exact Hacc|]. apply shape_map, HM. }
      destruct (IH _ Hs) as [Hres Hent]. split; [exact Hres|].
      intros i j Hi Hj. rewrite (Hent i j Hi Hj).
      rewrite (entry_add N) by (try assumption; apply shape_map, HM).
      rewrite (entry_map N) by (try assumption; apply HM). lra.
  Qed.

  Theorem phase_shape : forall coeffs N rot, shape N (phase_from_zernikes O coeffs N rot).
  Proof.
    intros coeffs N rot. unfold phase_from_zernikes.
    apply (accumulate_spec N (fun k => zernike_noll O (Z.of_nat (S k)) N rot)
             (fun k => zernike_noll_shape _ N rot) _ _ (shape_zeros N)).
  Qed.

  Theorem phase_is_linear_combination : forall coeffs J N rot i j,
    length coeffs = J -> (i < N)%nat -> (j < N)%nat ->
    nth j (nth i (phase_from_zernikes O coeffs N rot) []) 0 =
    fold_right Rplus 0
      (map (fun k => nth j (nth i (zernike_noll O (Z.of_nat (S k)) N rot) []) 0 * nth k coeffs 0) (seq 0 J)).
  Proof.
    intros coeffs J N rot i j HJ Hi Hj. subst J. unfold phase_from_zernikes.
    destruct (accumulate_spec N (fun k => zernike_noll O (Z.of_nat (S k)) N rot)
                (fun k => zernike_noll_shape _ N rot)
                (combine (seq 0 (length coeffs)) coeffs) _ (shape_zeros N)) as [_ Hent].
    refine (eq_trans (Hent i j Hi Hj) _). rewrite entry_zeros by assumption.
    rewrite (combine_seq_nth 0 coeffs 0%nat), map_map. cbn [fst snd]. rewrite Rplus_0_l.
    f_equal. apply map_ext. intros k. rewrite Nat.sub_0_r. reflexivity.
  Qed.
End Real.

(* ------------------------------------------------------------------------------------------ *)
(* the hypotheses are satisfiable: a concrete 2 x 2 array                                     *)
(* ------------------------------------------------------------------------------------------ *)
Section Examples.
  Variables (G : R -> R) (K : R -> R -> R).
  Local Notation O := (ROps G K).
  Definition z22 : list (list R) := [[1; 2]; [3; 4]].

  Example z22_sumsq : nsum O (map (nsqr O) (flat2 z22)) = 30.
  Proof. rewrite nsum_sumsq. unfold sumsq, z22, flat2. cbn [concat app map fold_right]. lra. Qed.
  Example z22_rms_hyps : 0 < npup G K 2 /\ 0 < nsum O (map (nsqr O) (flat2 z22)).
  Proof. split; [apply npup_pos; lia | rewrite z22_sumsq; lra]. Qed.
  Example z22_rms : nsum O (map (nsqr O) (flat2 (norm_rms O 2 z22))) / npup G K 2 = 1.
  Proof. apply norm_rms_unit; apply z22_rms_hyps. Qed.

  Example z22_max : fmax G K (flat2 z22) = 4.
  Proof.
    unfold fmax, z22, flat2. cbn [concat app hd fold_left]. rewrite !nmax_R.
    unfold Rmax. repeat (destruct (Rle_dec _ _); try lra).
  Qed.
  Example z22_min : fmin G K (flat2 z22) = 1.
  Proof.
    unfold fmin, z22, flat2. cbn [concat app hd fold_left]. rewrite !nmin_R.
    unfold Rmin. repeat (destruct (Rle_dec _ _); try lra).
  Qed.
  Example z22_p2v :
    let f' := flat2 (norm_p2v O z22) in
    fold_left (nmax O) f' (hd 0 f') - fold_left (nmin O) f' (hd 0 f') = 1.
  Proof.
    apply norm_p2v_unit. fold (fmax G K (flat2 z22)) (fmin G K (flat2 z22)).
    rewrite z22_max, z22_min. lra.
  Qed.

  (* outside the pupil: both disjuncts occur.  N = 4, corner pixel (0,0): coordinates -0.75, r^2 = 1.125 *)
  Example corner_outside : circle_px O (IZR (Z.of_nat 4) / 2) 4 0 0 true 0 0 = false.
  Proof.
    unfold circle_px, pcoord, ofn. rops. cbn [Z.of_nat Pos.of_succ_nat Pos.succ].
    unfold Rleb. destruct (Rle_dec _ _) as [L | L]; [exfalso; lra | reflexivity].
  Qed.
  Example corner_zero n m rot : zernike_px O n m 4 rot 0 0 = 0.
  Proof. apply zernike_vanishes_outside_pupil. left. apply corner_outside. Qed.
  (* inside: N = 2, every pixel has r^2 = 1/2 *)
  Example piston_22 rot : nth 1 (nth 1 (zernike_noll O 1 2 rot) []) 0 = 1.
  Proof.
    apply zernike_noll_piston; try lia. apply (centre_in_pupil G K 2). lia.
  Qed.
  (* list form: js = [3; 1] out of J = 3 modes; entry 0 of the list form is entry 2 of the count form *)
  Example list_31 N norm rot :
    nth 0 (zernike_array_list O [3; 1]%Z N norm rot) [] = nth 2 (zernike_array_count O 3 N norm rot) [].
  Proof.
    apply (array_list_is_slices_of_array_count O [3; 1]%Z 3 N norm rot 0%nat).
    - repeat constructor; cbn; lia.
    - cbn; lia.
  Qed.
End Examples.

Print Assumptions array_list_is_slices_of_array_count.   (* closed *)
Print Assumptions zernike_array_count_length.
Print Assumptions zernike_vanishes_outside_pupil.        (* classical reals of the standard library only *)
Print Assumptions zernike_nm_outside.
Print Assumptions zernike_noll_outside.
Print Assumptions in_pupil_iff_radius_le_1.
Print Assumptions zernike_piston.
Print Assumptions zernike_noll_piston.
Print Assumptions norm_rms_unit.
Print Assumptions npup_pos.
Print Assumptions fold_max_ge_fold_min.
Print Assumptions fmax_spec.
Print Assumptions norm_p2v_unit.
Print Assumptions phase_shape.
Print Assumptions phase_is_linear_combination.
