(* C01 specification: "the matrix is the covariance of the slopes".
   The three block formulas compute_covariance_xx / yy / xy (GENERATED, gen/Gen_slopecov.v) and the
   assembly (model/SlopeCov.v) are tied to the physical quantity they are meant to hold:

     a phase field   phi : R*R -> H   into a real pre-inner-product space (H, ip, hsub)
     whose structure function is the library's von Karman function of the distance (hypothesis Dphi);
     a sub-aperture of diameter d centred at p measures the finite differences
        sx p d = phi (p + (d/2, 0)) - phi (p - (d/2, 0))      sy p d = phi (p + (0, d/2)) - phi (p - (0, d/2))
     scaled by wvl / (2 pi d) (the factor the assembly applies through r0_scale).

   S0  vnorm symmetries
   S1  the three formulas written with vnorm (general and equal diameters)            [T1]
   S2  parity / swap of the formulas                                                   [T3]
   S3  the blocks are slope covariances (polarisation)                                 [T2]
   S4  r0_scale = (wvl_i / (2 pi d_i)) * (wvl_j / (2 pi d_j)) / 2 ; physical slopes    [T4]
   S5  Gram structure / positive semi-definiteness                                     [T6]
   S6  assembly level: the four blocks of one sensor with itself, one layer            [T5]
   S7  the section hypotheses (other than Dphi) are satisfiable                                *)
From Coq Require Import ZArith Reals Bool List Arith Lra Lia.
Require Import AOV.base.Num AOV.base.NumR AOV.base.RpowTac AOV.base.Cplx AOV.model.Mat AOV.model.SlopeCov
               AOV.gen.Gen_slopecov AOV.proofs.Dft_proofs AOV.proofs.Mat_proofs AOV.proofs.C08_proofs
               AOV.proofs.C01_proofs.
Import ListNotations.
Local Open Scope R_scope.

(* ------------------------------------------------------------------------------------------ *)
(* S0 -- vnorm a b = sqrt (a*a + b*b)                                                          *)
(* ------------------------------------------------------------------------------------------ *)

Lemma vnorm_ext a b a' b' : a * a + b * b = a' * a' + b' * b' -> vnorm a b = vnorm a' b'.
Proof. intros E. unfold vnorm. rewrite E. reflexivity. Qed.

Lemma vnorm_neg_l a b : vnorm (- a) b = vnorm a b.
Proof. apply vnorm_ext. ring. Qed.
Lemma vnorm_neg_r a b : vnorm a (- b) = vnorm a b.
Proof. apply vnorm_ext. ring. Qed.
Lemma vnorm_opp a b : vnorm (- a) (- b) = vnorm a b.
Proof. apply vnorm_ext. ring. Qed.
Lemma vnorm_comm a b : vnorm a b = vnorm b a.
Proof. apply vnorm_ext. ring. Qed.
Lemma vnorm_0 : vnorm 0 0 = 0.
Proof. unfold vnorm. replace (0 * 0 + 0 * 0) with 0 by ring. apply sqrt_0. Qed.

(* ------------------------------------------------------------------------------------------ *)
(* S1, S2 -- the generated formulas, real instance                                             *)
(* ------------------------------------------------------------------------------------------ *)

Section FormulasR.
Variables (G : R -> R) (K : R -> R -> R).
Local Notation O := (ROps G K).
Local Notation SF s r0 L0 := (structure_function_vk O s r0 L0).

(* general diameters *)
Theorem cov_xx_gen_diam ux uy d1 d2 r0 L0 :
  compute_covariance_xx O (ux, uy) d1 d2 r0 L0 =
  SF (vnorm (ux - (d1 + d2) / 2) uy) r0 L0 + SF (vnorm (ux + (d1 + d2) / 2) uy) r0 L0
  - 2 * SF (vnorm (ux + (d2 - d1) / 2) uy) r0 L0.
Proof.
  unfold compute_covariance_xx, vnorm. cbv zeta. cbn [fst snd].
  generalize (@structure_function_vk R O). intros f. rops.
  replace (ux + (d2 - d1) * (5 / 10)) with (ux + (d2 - d1) / 2) by field.
  replace (ux - (d2 + d1) * (5 / 10)) with (ux - (d1 + d2) / 2) by field.
  replace (ux + (d2 + d1) * (5 / 10)) with (ux + (d1 + d2) / 2) by field.
  ring.
Qed.

Theorem cov_yy_gen_diam ux uy d1 d2 r0 L0 :
  compute_covariance_yy O (ux, uy) d1 d2 r0 L0 =
  SF (vnorm ux (uy - (d1 + d2) / 2)) r0 L0 + SF (vnorm ux (uy + (d1 + d2) / 2)) r0 L0
  - 2 * SF (vnorm ux (uy + (d2 - d1) / 2)) r0 L0.
Proof.
  unfold compute_covariance_yy, vnorm. cbv zeta. cbn [fst snd].
  generalize (@structure_function_vk R O). intros f. rops.
  replace (uy + (d2 - d1) * (5 / 10)) with (uy + (d2 - d1) / 2) by field.
  replace (uy - (d2 + d1) * (5 / 10)) with (uy - (d1 + d2) / 2) by field.
  replace (uy + (d2 + d1) * (5 / 10)) with (uy + (d1 + d2) / 2) by field.
  ring.
Qed.

(* the xy formula: d1 goes with the x offset, d2 with the y offset *)
Theorem cov_xy_gen_diam ux uy d1 d2 r0 L0 :
  compute_covariance_xy O (ux, uy) d1 d2 r0 L0 =
  - SF (vnorm (ux + d1 / 2) (uy - d2 / 2)) r0 L0 - SF (vnorm (ux - d1 / 2) (uy + d2 / 2)) r0 L0
  + SF (vnorm (ux + d1 / 2) (uy + d2 / 2)) r0 L0 + SF (vnorm (ux - d1 / 2) (uy - d2 / 2)) r0 L0.
Proof.
  unfold compute_covariance_xy, vnorm. cbv zeta. cbn [fst snd].
  generalize (@structure_function_vk R O). intros f. rops.
  replace (d1 * (5 / 10)) with (d1 / 2) by field.
  replace (d2 * (5 / 10)) with (d2 / 2) by field.
  ring.
Qed.

(* T1 *)
Theorem cov_xy_equal_diam ux uy d r0 L0 :
  compute_covariance_xy O (ux, uy) d d r0 L0 =
  - SF (vnorm (ux + d / 2) (uy - d / 2)) r0 L0 - SF (vnorm (ux - d / 2) (uy + d / 2)) r0 L0
  + SF (vnorm (ux + d / 2) (uy + d / 2)) r0 L0 + SF (vnorm (ux - d / 2) (uy - d / 2)) r0 L0.
Proof. apply cov_xy_gen_diam. Qed.

(* T3: parity.  xy is even in the separation for ALL diameters; xx / yy are even for equal diameters,
   and in general negating the separation exchanges the two diameters. *)
Theorem cov_xy_even_gen ux uy d1 d2 r0 L0 :
  compute_covariance_xy O (- ux, - uy) d1 d2 r0 L0 = compute_covariance_xy O (ux, uy) d1 d2 r0 L0.
Proof.
  rewrite !cov_xy_gen_diam.
  rewrite (vnorm_ext (- ux + d1 / 2) (- uy - d2 / 2) (ux - d1 / 2) (uy + d2 / 2)) by field.
  rewrite (vnorm_ext (- ux - d1 / 2) (- uy + d2 / 2) (ux + d1 / 2) (uy - d2 / 2)) by field.
  rewrite (vnorm_ext (- ux + d1 / 2) (- uy + d2 / 2) (ux - d1 / 2) (uy - d2 / 2)) by field.
  rewrite (vnorm_ext (- ux - d1 / 2) (- uy - d2 / 2) (ux + d1 / 2) (uy + d2 / 2)) by field.
  ring.
Qed.

Theorem cov_xy_even ux uy d r0 L0 :
  compute_covariance_xy O (- ux, - uy) d d r0 L0 = compute_covariance_xy O (ux, uy) d d r0 L0.
Proof. apply cov_xy_even_gen. Qed.

Theorem cov_xx_neg_swap ux uy d1 d2 r0 L0 :
  compute_covariance_xx O (- ux, - uy) d1 d2 r0 L0 = compute_covariance_xx O (ux, uy) d2 d1 r0 L0.
Proof.
  rewrite !cov_xx_gen_diam.
  rewrite (vnorm_ext (- ux - (d1 + d2) / 2) (- uy) (ux + (d2 + d1) / 2) uy) by field.
  rewrite (vnorm_ext (- ux + (d1 + d2) / 2) (- uy) (ux - (d2 + d1) / 2) uy) by field.
  rewrite (vnorm_ext (- ux + (d2 - d1) / 2) (- uy) (ux + (d1 - d2) / 2) uy) by field.
  ring.
Qed.

Theorem cov_yy_neg_swap ux uy d1 d2 r0 L0 :
  compute_covariance_yy O (- ux, - uy) d1 d2 r0 L0 = compute_covariance_yy O (ux, uy) d2 d1 r0 L0.
Proof.
  rewrite !cov_yy_gen_diam.
  rewrite (vnorm_ext (- ux) (- uy - (d1 + d2) / 2) ux (uy + (d2 + d1) / 2)) by field.
  rewrite (vnorm_ext (- ux) (- uy + (d1 + d2) / 2) ux (uy - (d2 + d1) / 2)) by field.
  rewrite (vnorm_ext (- ux) (- uy + (d2 - d1) / 2) ux (uy + (d1 - d2) / 2)) by field.
  ring.
Qed.

Theorem cov_xx_even ux uy d r0 L0 :
  compute_covariance_xx O (- ux, - uy) d d r0 L0 = compute_covariance_xx O (ux, uy) d d r0 L0.
Proof. apply cov_xx_neg_swap. Qed.

Theorem cov_yy_even ux uy d r0 L0 :
  compute_covariance_yy O (- ux, - uy) d d r0 L0 = compute_covariance_yy O (ux, uy) d d r0 L0.
Proof. apply cov_yy_neg_swap. Qed.

(* exchanging the coordinates together with the diameters leaves xy unchanged, and turns xx into yy *)
Theorem cov_xy_swap ux uy d1 d2 r0 L0 :
  compute_covariance_xy O (uy, ux) d2 d1 r0 L0 = compute_covariance_xy O (ux, uy) d1 d2 r0 L0.
Proof.
  rewrite !cov_xy_gen_diam.
  rewrite (vnorm_comm (uy + d2 / 2) (ux - d1 / 2)), (vnorm_comm (uy - d2 / 2) (ux + d1 / 2)),
          (vnorm_comm (uy + d2 / 2) (ux + d1 / 2)), (vnorm_comm (uy - d2 / 2) (ux - d1 / 2)).
  ring.
Qed.

Theorem cov_xx_yy_swap ux uy d1 d2 r0 L0 :
  compute_covariance_yy O (uy, ux) d1 d2 r0 L0 = compute_covariance_xx O (ux, uy) d1 d2 r0 L0.
Proof.
  rewrite cov_xx_gen_diam, cov_yy_gen_diam.
  rewrite (vnorm_comm uy (ux - (d1 + d2) / 2)), (vnorm_comm uy (ux + (d1 + d2) / 2)),
          (vnorm_comm uy (ux + (d2 - d1) / 2)).
  reflexivity.
Qed.

(* T4, first half: the scale factor is half the product of the two slope factors wvl / (2 pi d).
   No side condition: division by zero is total in Coq and the identity survives it. *)
Theorem slope_scale (wi wj : @wfs R) (l : @layer R) :
  r0_scale O wi wj l * 2 =
  (w_wvl wi / (2 * PI * layer_diam O wi l)) * (w_wvl wj / (2 * PI * layer_diam O wj l)).
Proof.
  unfold r0_scale. generalize (layer_diam O wi l) (layer_diam O wj l). intros di dj. rops.
  unfold Rdiv. rewrite !Rinv_mult. generalize (/ PI) (/ di) (/ dj). intros x y z. field.
Qed.

End FormulasR.

(* ------------------------------------------------------------------------------------------ *)
(* S6a -- assembly level, any G K: one sensor, one layer, the four blocks entry by entry        *)
(* ------------------------------------------------------------------------------------------ *)

Section AssemblyR.
Variables (G : R -> R) (K : R -> R -> R).
Local Notation O := (ROps G K).
Local Notation mat := (list (list R)).

Lemma eps20_val : eps20 O = 1 / 100000000000000000000.
Proof. reflexivity. Qed.

Lemma eps20_pos : 0 < eps20 O.
Proof. rewrite eps20_val. lra. Qed.

(* the separation handed to the block formulas for sub-apertures a (of P1) and b (of P2):
   (x_b - x_a + 1e-20, y_b - y_a + 1e-20) -- the 1e-20 is in the source (calculate_wfs_seperations) *)
Definition sep (P1 P2 : list (R * R)) (a b : nat) : R * R :=
  (fst (nth b P2 (0, 0)) - fst (nth a P1 (0, 0)) + eps20 O,
   snd (nth b P2 (0, 0)) - snd (nth a P1 (0, 0)) + eps20 O).

Lemma ent_cov_block (f : R * R -> R) P1 P2 a b : (a < length P1)%nat -> (b < length P2)%nat ->
  ent (map (map f) (seps O P1 P2)) a b = f (sep P1 P2 a b).
Proof.
  intros Ha Hb. unfold ent, seps.
  rewrite (nth_map_lt (map f) _ a [] []) by (rewrite map_length; exact Ha).
  rewrite (nth_map_lt _ P1 a [] (0, 0)) by exact Ha.
  rewrite (nth_map_lt f _ b 0 (0, 0)) by (rewrite map_length; exact Hb).
  rewrite (nth_map_lt _ P2 b (0, 0) (0, 0)) by exact Hb.
  reflexivity.
Qed.

Lemma ent_flip2 r c (m : mat) i j : wf_mat r c m -> (i < r)%nat -> (j < c)%nat ->
  ent (flip2 m) i j = ent m (r - 1 - i) (c - 1 - j).
Proof.
  intros Hm Hi Hj. pose proof Hm as [Hl _]. unfold flip2, ent.
  rewrite rev_nth by (rewrite map_length; lia). rewrite map_length, Hl.
  rewrite (nth_map_lt (@rev R) m (r - S i) [] []) by lia.
  rewrite rev_nth by (rewrite (wf_nth_length r c m (r - S i) Hm) by lia; exact Hj).
  rewrite (wf_nth_length r c m (r - S i) Hm) by lia.
  replace (r - S i)%nat with (r - 1 - i)%nat by lia. replace (c - S j)%nat with (c - 1 - j)%nat by lia.
  reflexivity.
Qed.

Lemma pairs_1 : pairs 1 = [(0, 0)]%nat.
Proof. reflexivity. Qed.

Lemma total2_single (w : @wfs R) : total2 [w] = (2 * n_subaps w)%nat.
Proof. unfold total2, offset. simpl. lia. Qed.

Section OneSensor.
Variables (D : R) (w : @wfs R) (l : @layer R).
Let P := layer_positions O D w l.
Let n := n_subaps w.
Let dl := layer_diam O w l.
Let s := r0_scale O w w l.
Let M := assemble_seq O D [w] [l].

Lemma P_length : length P = n.
Proof. apply layer_positions_length. Qed.

Definition own_cxx : mat := map (map (fun u => compute_covariance_xx O u dl dl (l_r0 l) (l_L0 l))) (seps O P P).
Definition own_cyy : mat := map (map (fun u => compute_covariance_yy O u dl dl (l_r0 l) (l_L0 l))) (seps O P P).
Definition own_cxy : mat := map (map (fun u => compute_covariance_xy O u dl dl (l_r0 l) (l_L0 l))) (seps O P P).

Lemma own_wf (f : R * R -> R) : wf_mat n n (map (map f) (seps O P P)).
Proof. rewrite <- P_length. apply wf_map_map', seps_wf. Qed.
Lemma own_cxx_wf : wf_mat n n own_cxx.  Proof. apply own_wf. Qed.
Lemma own_cyy_wf : wf_mat n n own_cyy.  Proof. apply own_wf. Qed.
Lemma own_cxy_wf : wf_mat n n own_cxy.  Proof. apply own_wf. Qed.
Lemma own_flip_wf : wf_mat n n (flip2 own_cxy).  Proof. apply flip2_wf, own_cxy_wf. Qed.

(* the whole 2n x 2n matrix as four explicit block contributions *)
Lemma single_entry r c : (r < 2 * n)%nat -> (c < 2 * n)%nat ->
  ent M r c = bval own_cxx 0 0 s r c + bval own_cxy n 0 s r c
              + bval (flip2 own_cxy) 0 n s r c + bval own_cyy n n s r c.
Proof.
  intros Hr Hc. unfold M.
  rewrite assemble_seq_ent by (rewrite total2_single; assumption).
  cbn [map lsum]. unfold layer_val. change (length [w]) with 1%nat. rewrite pairs_1. cbn [map lsum fst snd].
  unfold pval. cbv zeta. change (offset [w] 0) with 0%nat. cbn [nth Nat.add].
  change (pair_result O D [w] l (0%nat, 0%nat)) with (own_cxx, own_cyy, own_cxy). cbn [fst snd].
  fold n. fold s. ring.
Qed.

Lemma bval_in (blk : mat) r0 c0 i j : (r0 <= i)%nat -> (c0 <= j)%nat ->
  bval blk r0 c0 s i j = s * ent blk (i - r0) (j - c0).
Proof.
  intros Hi Hj. unfold bval.
  destruct (Nat.leb_spec r0 i); [|lia]. destruct (Nat.leb_spec c0 j); [|lia]. cbn [andb]. ring.
Qed.

(* T5: [x, x] block, rows / columns 0 .. n-1 *)
Theorem own_xx_entry a b : (a < n)%nat -> (b < n)%nat ->
  ent M a b = s * compute_covariance_xx O (sep P P a b) dl dl (l_r0 l) (l_L0 l).
Proof.
  intros Ha Hb. rewrite single_entry by lia.
  rewrite (bval_zero_outside n n own_cxy) by (try apply own_cxy_wf; lia).
  rewrite (bval_zero_outside n n (flip2 own_cxy)) by (try apply own_flip_wf; lia).
  rewrite (bval_zero_outside n n own_cyy) by (try apply own_cyy_wf; lia).
  rewrite bval_in by lia. rewrite !Nat.sub_0_r.
  unfold own_cxx. rewrite ent_cov_block by (rewrite P_length; assumption). ring.
Qed.

(* [y, y] block: rows / columns n .. 2n-1 *)
Theorem own_yy_entry a b : (a < n)%nat -> (b < n)%nat ->
  ent M (n + a) (n + b) = s * compute_covariance_yy O (sep P P a b) dl dl (l_r0 l) (l_L0 l).
Proof.
  intros Ha Hb. rewrite single_entry by lia.
  rewrite (bval_zero_outside n n own_cxx) by (try apply own_cxx_wf; lia).
  rewrite (bval_zero_outside n n own_cxy) by (try apply own_cxy_wf; lia).
  rewrite (bval_zero_outside n n (flip2 own_cxy)) by (try apply own_flip_wf; lia).
  rewrite bval_in by lia.
  replace (n + a - n)%nat with a by lia. replace (n + b - n)%nat with b by lia.
  unfold own_cyy. rewrite ent_cov_block by (rewrite P_length; assumption). ring.
Qed.

(* [y, x] block (rows n .. 2n-1, columns 0 .. n-1): where the code stores cov_xy *)
Theorem own_yx_entry a b : (a < n)%nat -> (b < n)%nat ->
  ent M (n + a) b = s * compute_covariance_xy O (sep P P a b) dl dl (l_r0 l) (l_L0 l).
Proof.
  intros Ha Hb. rewrite single_entry by lia.
  rewrite (bval_zero_outside n n own_cxx) by (try apply own_cxx_wf; lia).
  rewrite (bval_zero_outside n n (flip2 own_cxy)) by (try apply own_flip_wf; lia).
  rewrite (bval_zero_outside n n own_cyy) by (try apply own_cyy_wf; lia).
  rewrite bval_in by lia.
  replace (n + a - n)%nat with a by lia. rewrite !Nat.sub_0_r.
  unfold own_cxy. rewrite ent_cov_block by (rewrite P_length; assumption). ring.
Qed.

(* [x, y] block (rows 0 .. n-1, columns n .. 2n-1): where the code stores fliplr(flipud(cov_xy)).
   Entry (a, n+b) is the xy formula at the separation of the sub-apertures n-1-a and n-1-b -- NOT of a and b. *)
Theorem own_xy_entry a b : (a < n)%nat -> (b < n)%nat ->
  ent M a (n + b) = s * compute_covariance_xy O (sep P P (n - 1 - a) (n - 1 - b)) dl dl (l_r0 l) (l_L0 l).
Proof.
  intros Ha Hb. rewrite single_entry by lia.
  rewrite (bval_zero_outside n n own_cxx) by (try apply own_cxx_wf; lia).
  rewrite (bval_zero_outside n n own_cxy) by (try apply own_cxy_wf; lia).
  rewrite (bval_zero_outside n n own_cyy) by (try apply own_cyy_wf; lia).
  rewrite bval_in by lia.
  replace (n + b - n)%nat with b by lia. rewrite !Nat.sub_0_r.
  rewrite (ent_flip2 n n) by (try apply own_cxy_wf; lia).
  unfold own_cxy. rewrite ent_cov_block by (rewrite P_length; lia). ring.
Qed.

End OneSensor.
End AssemblyR.

(* ------------------------------------------------------------------------------------------ *)
(* S3 - S5, S6b -- the blocks are covariances of finite-difference slopes                       *)
(* ------------------------------------------------------------------------------------------ *)

Section Slopes.
Variables (G : R -> R) (K : R -> R -> R).
Local Notation O := (ROps G K).
Local Notation SF s r0 L0 := (structure_function_vk O s r0 L0).

(* a real pre-inner-product space: exactly the hypotheses of C01_proofs.Polarisation *)
Variables (V : Type) (ip : V -> V -> R) (hsub : V -> V -> V).
Hypothesis ip_sym : forall a b, ip a b = ip b a.
Hypothesis ip_sub_l : forall a b c, ip (hsub a b) c = ip a c - ip b c.

(* the phase field, with the library's von Karman structure function of the distance.
   (For square-integrable random variables ip x y = E[x y].  That such a field EXISTS for the von Karman
   function is Bochner/Schoenberg's theorem -- not provable here; it is the modelling hypothesis.) *)
Variable phi : R * R -> V.
Variables r0 L0 : R.
Hypothesis Dphi : forall a b : R * R,
  ip (hsub (phi a) (phi b)) (hsub (phi a) (phi b)) =
  structure_function_vk O (vnorm (fst a - fst b) (snd a - snd b)) r0 L0.

Local Notation Dvk a b := (structure_function_vk O (vnorm (fst a - fst b) (snd a - snd b)) r0 L0).

(* what Dphi says at a = b: the formula must return 0 at separation 0, i.e. Dphi constrains the abstract
   K at argument 0 to the limit value (scipy's kv(5/6, 0) is inf, 0 * inf = nan: this is why the code adds 1e-20) *)
Lemma Dphi_at_zero : SF 0 r0 L0 = 0.
Proof.
  pose proof (Dphi (0, 0) (0, 0)) as E. cbn [fst snd] in E.
  replace (0 - 0) with 0 in E by ring. rewrite vnorm_0 in E. rewrite <- E.
  rewrite ip_sub_l. ring.
Qed.

Lemma ip_diff a b c e :
  ip (hsub (phi a) (phi b)) (hsub (phi c) (phi e)) = (Dvk a e + Dvk b c - Dvk a c - Dvk b e) / 2.
Proof.
  rewrite (polarisation V ip hsub ip_sym ip_sub_l (R * R)%type phi). unfold Dfun. rewrite !Dphi. reflexivity.
Qed.

(* finite-difference slopes of a sub-aperture of diameter d centred at p *)
Definition sx (p : R * R) (d : R) : V := hsub (phi (fst p + d / 2, snd p)) (phi (fst p - d / 2, snd p)).
Definition sy (p : R * R) (d : R) : V := hsub (phi (fst p, snd p + d / 2)) (phi (fst p, snd p - d / 2)).

(* ---- the true covariances for arbitrary diameters ---- *)

Theorem slope_cov_xx_gen p1 p2 d1 d2 :
  let ux := fst p2 - fst p1 in let uy := snd p2 - snd p1 in
  2 * ip (sx p1 d1) (sx p2 d2) =
  SF (vnorm (ux - (d1 + d2) / 2) uy) r0 L0 + SF (vnorm (ux + (d1 + d2) / 2) uy) r0 L0
  - SF (vnorm (ux + (d2 - d1) / 2) uy) r0 L0 - SF (vnorm (ux - (d2 - d1) / 2) uy) r0 L0.
Proof.
  destruct p1 as [x1 y1], p2 as [x2 y2]. cbv zeta. unfold sx. cbn [fst snd]. rewrite ip_diff. cbn [fst snd].
  rewrite (vnorm_ext (x1 + d1 / 2 - (x2 - d2 / 2)) (y1 - y2) (x2 - x1 - (d1 + d2) / 2) (y2 - y1)) by field.
  rewrite (vnorm_ext (x1 - d1 / 2 - (x2 + d2 / 2)) (y1 - y2) (x2 - x1 + (d1 + d2) / 2) (y2 - y1)) by field.
  rewrite (vnorm_ext (x1 + d1 / 2 - (x2 + d2 / 2)) (y1 - y2) (x2 - x1 + (d2 - d1) / 2) (y2 - y1)) by field.
  rewrite (vnorm_ext (x1 - d1 / 2 - (x2 - d2 / 2)) (y1 - y2) (x2 - x1 - (d2 - d1) / 2) (y2 - y1)) by field.
  field.
Qed.

Theorem slope_cov_yy_gen p1 p2 d1 d2 :
  let ux := fst p2 - fst p1 in let uy := snd p2 - snd p1 in
  2 * ip (sy p1 d1) (sy p2 d2) =
  SF (vnorm ux (uy - (d1 + d2) / 2)) r0 L0 + SF (vnorm ux (uy + (d1 + d2) / 2)) r0 L0
  - SF (vnorm ux (uy + (d2 - d1) / 2)) r0 L0 - SF (vnorm ux (uy - (d2 - d1) / 2)) r0 L0.
Proof.
  destruct p1 as [x1 y1], p2 as [x2 y2]. cbv zeta. unfold sy. cbn [fst snd]. rewrite ip_diff. cbn [fst snd].
  rewrite (vnorm_ext (x1 - x2) (y1 + d1 / 2 - (y2 - d2 / 2)) (x2 - x1) (y2 - y1 - (d1 + d2) / 2)) by field.
  rewrite (vnorm_ext (x1 - x2) (y1 - d1 / 2 - (y2 + d2 / 2)) (x2 - x1) (y2 - y1 + (d1 + d2) / 2)) by field.
  rewrite (vnorm_ext (x1 - x2) (y1 + d1 / 2 - (y2 + d2 / 2)) (x2 - x1) (y2 - y1 + (d2 - d1) / 2)) by field.
  rewrite (vnorm_ext (x1 - x2) (y1 - d1 / 2 - (y2 - d2 / 2)) (x2 - x1) (y2 - y1 - (d2 - d1) / 2)) by field.
  field.
Qed.

(* ---- T2: the blocks ---- *)

(* xy, ANY two diameters: the formula is (twice) the covariance of the x-slope of the FIRST sub-aperture
   (diameter subap1_diam) with the y-slope of the SECOND (diameter subap2_diam) *)
Theorem block_xy_is_slope_covariance_gen p1 p2 d1 d2 :
  compute_covariance_xy O (fst p2 - fst p1, snd p2 - snd p1) d1 d2 r0 L0 = 2 * ip (sx p1 d1) (sy p2 d2).
Proof.
  rewrite cov_xy_gen_diam. destruct p1 as [x1 y1], p2 as [x2 y2]. unfold sx, sy. cbn [fst snd].
  rewrite ip_diff. cbn [fst snd].
  rewrite (vnorm_ext (x1 + d1 / 2 - x2) (y1 - (y2 - d2 / 2)) (x2 - x1 - d1 / 2) (y2 - y1 - d2 / 2)) by field.
  rewrite (vnorm_ext (x1 - d1 / 2 - x2) (y1 - (y2 + d2 / 2)) (x2 - x1 + d1 / 2) (y2 - y1 + d2 / 2)) by field.
  rewrite (vnorm_ext (x1 + d1 / 2 - x2) (y1 - (y2 + d2 / 2)) (x2 - x1 - d1 / 2) (y2 - y1 + d2 / 2)) by field.
  rewrite (vnorm_ext (x1 - d1 / 2 - x2) (y1 - (y2 - d2 / 2)) (x2 - x1 + d1 / 2) (y2 - y1 - d2 / 2)) by field.
  field.
Qed.

(* the other ordering, y-slope of the first with x-slope of the second: the SAME formula with the two
   diameters exchanged *)
Theorem block_yx_is_slope_covariance_gen p1 p2 d1 d2 :
  compute_covariance_xy O (fst p2 - fst p1, snd p2 - snd p1) d2 d1 r0 L0 = 2 * ip (sy p1 d1) (sx p2 d2).
Proof.
  rewrite (ip_sym (sy p1 d1)), <- block_xy_is_slope_covariance_gen.
  rewrite <- (cov_xy_even_gen G K (fst p2 - fst p1)).
  f_equal. f_equal; ring.
Qed.

Theorem block_xx_is_slope_covariance p1 p2 d :
  compute_covariance_xx O (fst p2 - fst p1, snd p2 - snd p1) d d r0 L0 = 2 * ip (sx p1 d) (sx p2 d).
Proof.
  rewrite cov_xx_gen_diam, slope_cov_xx_gen. cbv zeta.
  rewrite (vnorm_ext (fst p2 - fst p1 - (d - d) / 2) (snd p2 - snd p1)
                     (fst p2 - fst p1 + (d - d) / 2) (snd p2 - snd p1)) by field.
  ring.
Qed.

Theorem block_yy_is_slope_covariance p1 p2 d :
  compute_covariance_yy O (fst p2 - fst p1, snd p2 - snd p1) d d r0 L0 = 2 * ip (sy p1 d) (sy p2 d).
Proof.
  rewrite cov_yy_gen_diam, slope_cov_yy_gen. cbv zeta.
  rewrite (vnorm_ext (fst p2 - fst p1) (snd p2 - snd p1 - (d - d) / 2)
                     (fst p2 - fst p1) (snd p2 - snd p1 + (d - d) / 2)) by field.
  ring.
Qed.

(* equal diameters: the xy formula is BOTH cross-covariances (x of 1 with y of 2, and y of 1 with x of 2) *)
Theorem block_xy_is_slope_covariance p1 p2 d :
  compute_covariance_xy O (fst p2 - fst p1, snd p2 - snd p1) d d r0 L0 = 2 * ip (sx p1 d) (sy p2 d).
Proof. apply block_xy_is_slope_covariance_gen. Qed.

Theorem block_yx_is_slope_covariance p1 p2 d :
  compute_covariance_xy O (fst p2 - fst p1, snd p2 - snd p1) d d r0 L0 = 2 * ip (sy p1 d) (sx p2 d).
Proof. apply block_yx_is_slope_covariance_gen. Qed.

Corollary cross_slope_covariance_symmetric p1 p2 d : ip (sx p1 d) (sy p2 d) = ip (sy p1 d) (sx p2 d).
Proof.
  pose proof (block_xy_is_slope_covariance p1 p2 d). pose proof (block_yx_is_slope_covariance p1 p2 d). lra.
Qed.

(* unequal diameters: xx / yy are the slope covariance only up to the difference of the structure function
   at the two "mixed" separations (the code uses twice one of them) *)
Theorem block_xx_unequal_diam p1 p2 d1 d2 :
  let ux := fst p2 - fst p1 in let uy := snd p2 - snd p1 in
  compute_covariance_xx O (ux, uy) d1 d2 r0 L0 =
  2 * ip (sx p1 d1) (sx p2 d2)
  + (SF (vnorm (ux - (d2 - d1) / 2) uy) r0 L0 - SF (vnorm (ux + (d2 - d1) / 2) uy) r0 L0).
Proof. cbv zeta. rewrite cov_xx_gen_diam, slope_cov_xx_gen. cbv zeta. ring. Qed.

Theorem block_yy_unequal_diam p1 p2 d1 d2 :
  let ux := fst p2 - fst p1 in let uy := snd p2 - snd p1 in
  compute_covariance_yy O (ux, uy) d1 d2 r0 L0 =
  2 * ip (sy p1 d1) (sy p2 d2)
  + (SF (vnorm ux (uy - (d2 - d1) / 2)) r0 L0 - SF (vnorm ux (uy + (d2 - d1) / 2)) r0 L0).
Proof. cbv zeta. rewrite cov_yy_gen_diam, slope_cov_yy_gen. cbv zeta. ring. Qed.

(* ---- T4: physical slopes (wvl / (2 pi d)) * finite difference ---- *)

Variable hscal : R -> V -> V.
Hypothesis ip_scal_l : forall a x y, ip (hscal a x) y = a * ip x y.

Lemma ip_scal_r a x y : ip x (hscal a y) = a * ip x y.
Proof. rewrite ip_sym, ip_scal_l, (ip_sym y x). reflexivity. Qed.

Definition psx (wvl : R) (p : R * R) (d : R) : V := hscal (wvl / (2 * PI * d)) (sx p d).
Definition psy (wvl : R) (p : R * R) (d : R) : V := hscal (wvl / (2 * PI * d)) (sy p d).

Lemma scale_half (wi wj : @wfs R) (l : @layer R) X :
  r0_scale O wi wj l * (2 * X) =
  (w_wvl wi / (2 * PI * layer_diam O wi l)) * ((w_wvl wj / (2 * PI * layer_diam O wj l)) * X).
Proof. rewrite <- Rmult_assoc, slope_scale. ring. Qed.

Theorem scaled_block_xx wi wj l d p1 p2 : layer_diam O wi l = d -> layer_diam O wj l = d ->
  r0_scale O wi wj l * compute_covariance_xx O (fst p2 - fst p1, snd p2 - snd p1) d d r0 L0
  = ip (psx (w_wvl wi) p1 d) (psx (w_wvl wj) p2 d).
Proof.
  intros Hi Hj. rewrite block_xx_is_slope_covariance, scale_half, Hi, Hj.
  unfold psx. rewrite ip_scal_l, ip_scal_r. reflexivity.
Qed.

Theorem scaled_block_yy wi wj l d p1 p2 : layer_diam O wi l = d -> layer_diam O wj l = d ->
  r0_scale O wi wj l * compute_covariance_yy O (fst p2 - fst p1, snd p2 - snd p1) d d r0 L0
  = ip (psy (w_wvl wi) p1 d) (psy (w_wvl wj) p2 d).
Proof.
  intros Hi Hj. rewrite block_yy_is_slope_covariance, scale_half, Hi, Hj.
  unfold psy. rewrite ip_scal_l, ip_scal_r. reflexivity.
Qed.

(* xy: any two layer diameters *)
Theorem scaled_block_xy wi wj l p1 p2 :
  r0_scale O wi wj l *
  compute_covariance_xy O (fst p2 - fst p1, snd p2 - snd p1) (layer_diam O wi l) (layer_diam O wj l) r0 L0
  = ip (psx (w_wvl wi) p1 (layer_diam O wi l)) (psy (w_wvl wj) p2 (layer_diam O wj l)).
Proof.
  rewrite block_xy_is_slope_covariance_gen, scale_half.
  unfold psx, psy. rewrite ip_scal_l, ip_scal_r. reflexivity.
Qed.

(* what the [y_i, x_j] block SHOULD hold, cov (y-slope of i, x-slope of j), is the xy formula with the
   diameters in the order (d_j, d_i); the code passes (d_i, d_j) -- the same thing iff the formula is
   insensitive to the exchange, e.g. for equal diameters *)
Theorem scaled_block_yx wi wj l p1 p2 :
  r0_scale O wi wj l *
  compute_covariance_xy O (fst p2 - fst p1, snd p2 - snd p1) (layer_diam O wj l) (layer_diam O wi l) r0 L0
  = ip (psy (w_wvl wi) p1 (layer_diam O wi l)) (psx (w_wvl wj) p2 (layer_diam O wj l)).
Proof.
  rewrite block_yx_is_slope_covariance_gen, scale_half.
  unfold psx, psy. rewrite ip_scal_l, ip_scal_r. reflexivity.
Qed.

(* ---- T5 continued: the four blocks of one sensor, one layer, as covariances of physical slopes ---- *)

Section OwnBlocks.
Variables (D : R) (w : @wfs R) (l : @layer R).
Hypothesis Hr0 : l_r0 l = r0.
Hypothesis HL0 : l_L0 l = L0.
Let P := layer_positions O D w l.
Let n := n_subaps w.
Let d := layer_diam O w l.
Let M := assemble_seq O D [w] [l].
(* centre of sub-aperture a at the layer; the same displaced by (+1e-20, +1e-20), resp. (-1e-20, -1e-20) *)
Definition pos (a : nat) : R * R := nth a P (0, 0).
Definition pos_plus (b : nat) : R * R := (fst (pos b) + eps20 O, snd (pos b) + eps20 O).
Definition pos_minus (b : nat) : R * R := (fst (pos b) - eps20 O, snd (pos b) - eps20 O).

Lemma sep_as_difference a b :
  sep G K P P a b = (fst (pos_plus b) - fst (pos a), snd (pos_plus b) - snd (pos a)).
Proof. unfold sep, pos_plus, pos. cbn [fst snd]. f_equal; ring. Qed.

Theorem own_xx_entry_is_slope_covariance a b : (a < n)%nat -> (b < n)%nat ->
  ent M a b = ip (psx (w_wvl w) (pos a) d) (psx (w_wvl w) (pos_plus b) d).
Proof.
  intros Ha Hb. unfold M. rewrite own_xx_entry by assumption. fold P. rewrite Hr0, HL0, sep_as_difference.
  apply scaled_block_xx; reflexivity.
Qed.

Theorem own_yy_entry_is_slope_covariance a b : (a < n)%nat -> (b < n)%nat ->
  ent M (n + a) (n + b) = ip (psy (w_wvl w) (pos a) d) (psy (w_wvl w) (pos_plus b) d).
Proof.
  intros Ha Hb. unfold M. rewrite own_yy_entry by assumption. fold P. rewrite Hr0, HL0, sep_as_difference.
  apply scaled_block_yy; reflexivity.
Qed.

(* rows n.., columns 0..: holds cov (y-slope of a, x-slope of b) -- and, the diameters being equal, also
   cov (x-slope of a, y-slope of b) *)
Theorem own_yx_entry_is_slope_covariance a b : (a < n)%nat -> (b < n)%nat ->
  ent M (n + a) b = ip (psy (w_wvl w) (pos a) d) (psx (w_wvl w) (pos_plus b) d) /\
  ent M (n + a) b = ip (psx (w_wvl w) (pos a) d) (psy (w_wvl w) (pos_plus b) d).
Proof.
  intros Ha Hb. unfold M. rewrite own_yx_entry by assumption. fold P. rewrite Hr0, HL0, sep_as_difference.
  split; [apply scaled_block_yx | apply scaled_block_xy].
Qed.

(* rows 0.., columns n..: holds the cross-covariance of the sub-apertures n-1-a and n-1-b (flip), where
   cov (x-slope of a, y-slope of b) is wanted *)
Theorem own_xy_entry_is_flipped_slope_covariance a b : (a < n)%nat -> (b < n)%nat ->
  ent M a (n + b) = ip (psx (w_wvl w) (pos (n - 1 - a)) d) (psy (w_wvl w) (pos_plus (n - 1 - b)) d).
Proof.
  intros Ha Hb. unfold M. rewrite own_xy_entry by assumption. fold P. fold n. rewrite Hr0, HL0, sep_as_difference.
  apply scaled_block_xy.
Qed.

(* the flip is harmless when the sub-aperture list is point-symmetric (reversing the list = reflecting every
   centre through one point): then the entry is the wanted cross-covariance, with the 1e-20 displacement
   of opposite sign *)
Theorem own_xy_entry_point_symmetric cx cy a b :
  (forall k, (k < n)%nat -> pos (n - 1 - k) = (cx - fst (pos k), cy - snd (pos k))) ->
  (a < n)%nat -> (b < n)%nat ->
  ent M a (n + b) = ip (psx (w_wvl w) (pos a) d) (psy (w_wvl w) (pos_minus b) d).
Proof.
  intros Hsym Ha Hb. unfold M. rewrite own_xy_entry by assumption. fold P. fold n. rewrite Hr0, HL0.
  assert (E : sep G K P P (n - 1 - a) (n - 1 - b) =
              (- (fst (pos_minus b) - fst (pos a)), - (snd (pos_minus b) - snd (pos a)))).
  { unfold sep. fold (pos (n - 1 - a)). fold (pos (n - 1 - b)). rewrite (Hsym a Ha), (Hsym b Hb).
    unfold pos_minus. cbn [fst snd]. f_equal; ring. }
  rewrite E, cov_xy_even_gen. apply scaled_block_xy.
Qed.

End OwnBlocks.

(* ---- T6: Gram structure, positive semi-definiteness ---- *)

Variables (hadd : V -> V -> V) (hzero : V).
Hypothesis ip_add_l : forall x y z, ip (hadd x y) z = ip x z + ip y z.
Hypothesis ip_zero_l : forall z, ip hzero z = 0.
Hypothesis ip_nonneg : forall x, 0 <= ip x x.

(* linear combination  sum_k c_k x_k *)
Definition hcomb (cs : list (R * V)) : V :=
  fold_right (fun cx acc => hadd (hscal (fst cx) (snd cx)) acc) hzero cs.

Lemma ip_hcomb_l cs z : ip (hcomb cs) z = lsum (map (fun cx => fst cx * ip (snd cx) z) cs).
Proof.
  induction cs as [|cx cs IH]; cbn [hcomb fold_right map lsum]; [apply ip_zero_l|].
  fold (hcomb cs). rewrite ip_add_l, ip_scal_l, IH. reflexivity.
Qed.

Lemma ip_hcomb cs1 cs2 :
  ip (hcomb cs1) (hcomb cs2) =
  lsum (map (fun a => lsum (map (fun b => fst a * fst b * ip (snd a) (snd b)) cs2)) cs1).
Proof.
  rewrite ip_hcomb_l. apply lsum_map_ext_in. intros a _.
  rewrite ip_sym, ip_hcomb_l, <- lsum_map_scal. apply lsum_map_ext_in. intros b _.
  rewrite (ip_sym (snd b)). ring.
Qed.

(* the quadratic form of the xx block of sub-apertures at arbitrary centres p_k (equal diameters),
   with arbitrary coefficients c_k, is twice the squared norm of  sum_k c_k sx(p_k) *)
Theorem xx_block_gram (cs : list (R * (R * R))) d :
  lsum (map (fun a => lsum (map (fun b =>
     fst a * fst b * compute_covariance_xx O (fst (snd b) - fst (snd a), snd (snd b) - snd (snd a)) d d r0 L0) cs)) cs)
  = 2 * ip (hcomb (map (fun a => (fst a, sx (snd a) d)) cs)) (hcomb (map (fun a => (fst a, sx (snd a) d)) cs)).
Proof.
  rewrite ip_hcomb, map_map, <- lsum_map_scal. apply lsum_map_ext_in. intros a _.
  rewrite map_map, <- lsum_map_scal. apply lsum_map_ext_in. intros b _. cbn [fst snd].
  rewrite block_xx_is_slope_covariance. ring.
Qed.

Theorem xx_block_psd (cs : list (R * (R * R))) d :
  0 <= lsum (map (fun a => lsum (map (fun b =>
     fst a * fst b * compute_covariance_xx O (fst (snd b) - fst (snd a), snd (snd b) - snd (snd a)) d d r0 L0) cs)) cs).
Proof. rewrite xx_block_gram. pose proof (ip_nonneg (hcomb (map (fun a => (fst a, sx (snd a) d)) cs))). lra. Qed.

Theorem yy_block_gram (cs : list (R * (R * R))) d :
  lsum (map (fun a => lsum (map (fun b =>
     fst a * fst b * compute_covariance_yy O (fst (snd b) - fst (snd a), snd (snd b) - snd (snd a)) d d r0 L0) cs)) cs)
  = 2 * ip (hcomb (map (fun a => (fst a, sy (snd a) d)) cs)) (hcomb (map (fun a => (fst a, sy (snd a) d)) cs)).
Proof.
  rewrite ip_hcomb, map_map, <- lsum_map_scal. apply lsum_map_ext_in. intros a _.
  rewrite map_map, <- lsum_map_scal. apply lsum_map_ext_in. intros b _. cbn [fst snd].
  rewrite block_yy_is_slope_covariance. ring.
Qed.

Theorem yy_block_psd (cs : list (R * (R * R))) d :
  0 <= lsum (map (fun a => lsum (map (fun b =>
     fst a * fst b * compute_covariance_yy O (fst (snd b) - fst (snd a), snd (snd b) - snd (snd a)) d d r0 L0) cs)) cs).
Proof. rewrite yy_block_gram. pose proof (ip_nonneg (hcomb (map (fun a => (fst a, sy (snd a) d)) cs))). lra. Qed.

End Slopes.

(* ------------------------------------------------------------------------------------------ *)
(* S7 -- the hypotheses of Section Slopes other than Dphi are satisfiable (V = R, ip = product). *)
(* Dphi itself -- existence of a field with the von Karman structure function -- is Bochner /    *)
(* Schoenberg (the von Karman spectrum is a non-negative measure); it is not provable here and   *)
(* stays the modelling hypothesis.  It also forces the formula to vanish at separation 0         *)
(* (Dphi_at_zero): for a K that violates this the theorems of Section Slopes hold vacuously.     *)
(* ------------------------------------------------------------------------------------------ *)

Example slope_space_hypotheses_satisfiable :
  exists (V : Type) (ip : V -> V -> R) (hsub : V -> V -> V) (hscal : R -> V -> V)
         (hadd : V -> V -> V) (hzero : V),
    (forall a b, ip a b = ip b a) /\
    (forall a b c, ip (hsub a b) c = ip a c - ip b c) /\
    (forall a x y, ip (hscal a x) y = a * ip x y) /\
    (forall x y z, ip (hadd x y) z = ip x z + ip y z) /\
    (forall z, ip hzero z = 0) /\
    (forall x, 0 <= ip x x).
Proof.
  exists R, Rmult, Rminus, Rmult, Rplus, 0.
  repeat split; intros; try ring. apply Rle_0_sqr.
Qed.

(* ---- assumptions ---- *)
Print Assumptions cov_xy_equal_diam.
Print Assumptions cov_xy_swap.
Print Assumptions slope_scale.
Print Assumptions block_xx_is_slope_covariance.
Print Assumptions block_yy_is_slope_covariance.
Print Assumptions block_xy_is_slope_covariance.
Print Assumptions block_yx_is_slope_covariance_gen.
Print Assumptions scaled_block_xx.
Print Assumptions own_xx_entry.
Print Assumptions own_xy_entry.
Print Assumptions own_xx_entry_is_slope_covariance.
Print Assumptions own_yy_entry_is_slope_covariance.
Print Assumptions own_yx_entry_is_slope_covariance.
Print Assumptions own_xy_entry_is_flipped_slope_covariance.
Print Assumptions own_xy_entry_point_symmetric.
Print Assumptions xx_block_psd.
