(* C08, clause "zero at zero separation": the generated definition, run at binary64 with the values
   scipy returns for Gamma(5/6) and K_{5/6}(0) = +inf, yields NaN (0 * inf), not 0.  The same input is
   replayed on the implementation by the check (known finding C08-vk-nan-at-zero). *)
From Coq Require Import ZArith List Bool PrimFloat.
Require Import AOV.base.Num AOV.base.FloatFun AOV.base.NumF AOV.gen.Gen_slopecov AOV.gen.Gen_kl.
Import ListNotations.
Local Open Scope float_scope.

(* (nu, x, value): Gamma(5/6) (nu=-1) and K_{5/6}(0) as scipy.special reports them *)
Definition tbl_zero : otable :=
  [ (-1, 0x1.aaaaaaaaaaaabp-1, 0x1.20f82fd19ab86p+0); (0x1.aaaaaaaaaaaabp-1, 0, infinity) ].

Lemma vk_at_zero_is_nan :
  is_nan (structure_function_vk (FOps tbl_zero) 0 0x1.999999999999ap-4 25) = true
  /\ is_nan (stf_vonKarman (FOps tbl_zero) 0 3) = true.
Proof. split; vm_compute; reflexivity. Qed.

(* ... whereas the Kolmogorov law is exactly 0 at 0 *)
Lemma kolmogorov_at_zero :
  structure_function_kolmogorov (FOps []) 0 0x1.999999999999ap-4 = 0
  /\ stf_kolmogorov (FOps []) 0 = 0.
Proof. split; vm_compute; reflexivity. Qed.
