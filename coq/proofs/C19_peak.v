(* C19 (peak clause): the temporal power spectrum peaks at the bin of a pure sinusoid *)
From Coq Require Import Reals Lra Lia ZArith List Arith Psatz.
Require Import AOV.base.Num AOV.base.NumR AOV.base.RpowTac AOV.base.Cplx AOV.model.Estim
               AOV.proofs.Dft_proofs AOV.proofs.C09_proofs AOV.proofs.C19_proofs.
Import ListNotations.
Local Open Scope R_scope.

(* x_t = A cos (2 pi k0 t / n + ph),  t = 0 .. n-1 *)
Definition sinus (A ph : R) (k0 n : nat) : list R :=
  map (fun t => A * cos (2 * PI * INR k0 * INR t / INR n + ph)) (seq 0 n).

Section C19peak.
Variables (G : R -> R) (K : R -> R -> R).
Local Notation O := (ROps G K).

Lemma sinus_length A ph k0 n : length (sinus A ph k0 n) = n.
Proof. unfold sinus. rewrite map_length, seq_length. reflexivity. Qed.

Lemma nth_sinus A ph k0 n t : (t < n)%nat ->
  nth t (sinus A ph k0 n) 0 = A * cos (2 * PI * INR k0 * INR t / INR n + ph).
Proof. intros Ht. unfold sinus. rewrite nth_map_seq by exact Ht. reflexivity. Qed.

(* one term of the transform: Euler's formula *)
Lemma sinus_term A ph k0 n k t : (0 < n)%nat -> (k0 <= n)%nat ->
  cmul O (cofR O (A * cos (2 * PI * INR k0 * INR t / INR n + ph))) (W n (t * k))
  = cadd O (cmul O (cscale O (A / 2) (E ph)) (E (INR t * (2 * PI * (INR k0 - INR k) / INR n))))
           (cmul O (cscale O (A / 2) (E (- ph))) (E (INR t * (2 * PI * (INR (n - k0) - INR k) / INR n)))).
Proof.
  intros Hn Hk0. assert (HN : 0 < INR n) by (apply lt_0_INR; exact Hn).
  unfold W. rewrite mult_INR, minus_INR by exact Hk0.
  set (a := 2 * PI * INR k0 * INR t / INR n).
  set (b := 2 * PI * (INR t * INR k) / INR n).
  replace (INR t * (2 * PI * (INR k0 - INR k) / INR n)) with (a + - b)
    by (unfold a, b; field; lra).
  replace (INR t * (2 * PI * (INR n - INR k0 - INR k) / INR n)) with (- a + - b + 2 * PI * INR t)
    by (unfold a, b; field; lra).
  rewrite E_period, !(E_add G K), !(E_neg G K), cos_plus.
  unfold E. cunf. f_equal; field.
Qed.

(* 1. the transform of a sampled cosine at an integer bin: two conjugate spikes *)
Theorem dft_cosine_bin A ph k0 n k : (0 < k0)%nat -> (2 * k0 < n)%nat -> (k < n)%nat ->
  nth k (dft O (map (cofR O) (sinus A ph k0 n))) (czero O)
  = if Nat.eq_dec k k0 then cscale O (A * INR n / 2) (E ph)
    else if Nat.eq_dec k (n - k0) then cscale O (A * INR n / 2) (E (- ph))
    else (0, 0).
Proof.
  intros Hk0 Hn Hk.
  assert (HL : length (map (cofR O) (sinus A ph k0 n)) = n) by (rewrite map_length; apply sinus_length).
  rewrite dft_ktr. ncx. rewrite nth_ktr by (rewrite HL; exact Hk). rewrite HL.
  rewrite (bigsum_ext G K _ (fun t =>
     cadd O (cmul O (cscale O (A / 2) (E ph)) (E (INR t * (2 * PI * (INR k0 - INR k) / INR n))))
            (cmul O (cscale O (A / 2) (E (- ph))) (E (INR t * (2 * PI * (INR (n - k0) - INR k) / INR n)))))).
  2:{ intros t Ht. unfold Kdft.
      rewrite (nth_map_lt (cofR O) _ t (czero O) 0) by (rewrite sinus_length; exact Ht).
      rewrite nth_sinus by exact Ht. apply sinus_term; lia. }
  rewrite (bigsum_add G K), !(bigsum_mul_l G K).
  rewrite (orth G K n k0 k) by lia. rewrite (orth G K n (n - k0) k) by lia.
  destruct (Nat.eq_dec k k0) as [E1|E1].
  - subst k. destruct (Nat.eq_dec k0 k0) as [_|C]; [|contradiction].
    destruct (Nat.eq_dec (n - k0) k0) as [C|_]; [lia|]. cfield.
  - destruct (Nat.eq_dec k0 k) as [C|_]; [congruence|].
    destruct (Nat.eq_dec k (n - k0)) as [E2|E2].
    + destruct (Nat.eq_dec (n - k0) k) as [_|C]; [|congruence]. cfield.
    + destruct (Nat.eq_dec (n - k0) k) as [C|_]; [congruence|]. cfield.
Qed.

(* 2. power spectrum of the sampled cosine: (A n / 2)^2 at k0 and at the mirror bin n - k0, 0 elsewhere *)
Theorem spectrum_of_sinusoid A ph k0 n k : (0 < k0)%nat -> (2 * k0 < n)%nat -> (k < n)%nat ->
  cabs2 O (nth k (dft O (map (cofR O) (sinus A ph k0 n))) (czero O))
  = if Nat.eq_dec k k0 then (A * INR n / 2) ^ 2
    else if Nat.eq_dec k (n - k0) then (A * INR n / 2) ^ 2
    else 0.
Proof.
  intros Hk0 Hn Hk. rewrite dft_cosine_bin by assumption.
  destruct (Nat.eq_dec k k0) as [E1|E1]; [|destruct (Nat.eq_dec k (n - k0)) as [E2|E2]].
  - cunf. pose proof (sin2_cos2 ph) as H. unfold Rsqr in H.
    transitivity ((A * INR n / 2) ^ 2 * (sin ph * sin ph + cos ph * cos ph)); [ring|rewrite H; ring].
  - cunf. pose proof (sin2_cos2 (- ph)) as H. unfold Rsqr in H.
    transitivity ((A * INR n / 2) ^ 2 * (sin (- ph) * sin (- ph) + cos (- ph) * cos (- ph))); [ring|rewrite H; ring].
  - cunf. ring.
Qed.

(* the kept half k < n/2 never contains the mirror bin *)
Corollary spectrum_of_sinusoid_half A ph k0 n k : (0 < k0)%nat -> (2 * k0 < n)%nat -> (k < n / 2)%nat ->
  cabs2 O (nth k (dft O (map (cofR O) (sinus A ph k0 n))) (czero O))
  = if Nat.eq_dec k k0 then (A * INR n / 2) ^ 2 else 0.
Proof.
  intros Hk0 Hn Hk.
  assert (H2 : (2 * (n / 2) <= n)%nat) by (apply Nat.mul_div_le; lia).
  rewrite spectrum_of_sinusoid by lia.
  destruct (Nat.eq_dec k k0); [reflexivity|]. destruct (Nat.eq_dec k (n - k0)); [lia|reflexivity].
Qed.

(* ---- the estimator: entry k of mean_tps is the mean over the columns of |DFT_k(column)|^2 ---- *)
Lemma ncolsE_wf {A} (data : list (list A)) c : data <> [] ->
  Forall (fun row => length row = c) data -> ncolsE data = c.
Proof. intros Hne Hf. destruct data as [|r rest]; [contradiction|]. inversion Hf; subst. reflexivity. Qed.

Lemma mean_tps_entry (data : list (list R)) k : (k < length data / 2)%nat ->
  nth k (mean_tps O data) 0
  = nmean O (map (fun j => cabs2 O (nth k (dft O (map (cofR O) (column 0 data j))) (czero O)))
                 (seq 0 (ncolsE data))).
Proof.
  intros Hk. unfold mean_tps, tps_bins. cbv zeta. rewrite map_map, nth_map_seq by exact Hk.
  rewrite map_map. f_equal. apply map_ext. intros j.
  change (nzero O) with 0.
  set (l := dft O (map (cofR O) (column 0 data j))).
  assert (HL : length l = length data).
  { unfold l. rewrite (dft_length G K). unfold column. rewrite !map_length. reflexivity. }
  assert (H2 : (length data / 2 <= length data)%nat) by apply half_le.
  rewrite (nth_map_lt (cabs2 O) _ k 0 (czero O)) by (rewrite firstn_length, HL; lia).
  rewrite nth_firstn' by exact Hk. reflexivity.
Qed.

Lemma column_sinus (data : list (list R)) (A ph : nat -> R) k0 n c j :
  length data = n ->
  (forall t j, (t < n)%nat -> (j < c)%nat ->
     nth j (nth t data []) 0 = A j * cos (2 * PI * INR k0 * INR t / INR n + ph j)) ->
  (j < c)%nat -> column 0 data j = sinus (A j) (ph j) k0 n.
Proof.
  intros Hlen Hs Hj. apply (nth_ext _ _ 0 0).
  - unfold column. rewrite map_length, sinus_length. exact Hlen.
  - intros t Ht. unfold column in *. rewrite map_length, Hlen in Ht.
    rewrite (nth_map_lt (fun row => nth j row 0) data t 0 []) by (rewrite Hlen; exact Ht).
    rewrite nth_sinus by exact Ht. apply Hs; assumption.
Qed.

(* 3. data whose every column is a sinusoid at the common bin k0 (amplitudes A_j, phases ph_j):
      the mean spectrum is 0 in every kept bin but k0, where it is the mean of (A_j n / 2)^2 *)
Theorem tps_peaks_at_sinusoid_bin (data : list (list R)) (A ph : nat -> R) k0 n c k :
  (0 < k0)%nat -> (k0 < n / 2)%nat -> (1 <= c)%nat ->
  length data = n -> Forall (fun row => length row = c) data ->
  (forall t j, (t < n)%nat -> (j < c)%nat ->
     nth j (nth t data []) 0 = A j * cos (2 * PI * INR k0 * INR t / INR n + ph j)) ->
  (k < n / 2)%nat ->
  nth k (mean_tps O data) 0
  = if Nat.eq_dec k k0 then nmean O (map (fun j => (A j * INR n / 2) ^ 2) (seq 0 c)) else 0.
Proof.
  intros Hk0 Hk0n Hc Hlen Hwf Hs Hk.
  assert (H2 : (2 * (n / 2) <= n)%nat) by (apply Nat.mul_div_le; lia).
  assert (Hne : data <> []) by (intros ->; simpl in Hlen; lia).
  rewrite mean_tps_entry by (rewrite Hlen; exact Hk).
  rewrite (ncolsE_wf data c Hne Hwf).
  rewrite (map_ext_in _ (fun j => if Nat.eq_dec k k0 then (A j * INR n / 2) ^ 2 else 0)).
  2:{ intros j Hj. apply in_seq in Hj.
      rewrite (column_sinus data A ph k0 n c j Hlen Hs) by lia.
      apply spectrum_of_sinusoid_half; lia. }
  destruct (Nat.eq_dec k k0) as [E1|E1]; [reflexivity|].
  apply (nmean_const G K).
  - destruct c; [lia|]. discriminate.
  - apply Forall_forall. intros x Hx. apply in_map_iff in Hx. destruct Hx as [j [Hx _]]. symmetry; exact Hx.
Qed.

(* sums of non-negative reals *)
Lemma nsum_nonneg (l : list R) : Forall (fun x => 0 <= x) l -> 0 <= nsum O l.
Proof. induction 1 as [|x l Hx _ IH]; [rewrite nsum_R_nil; lra|rewrite nsum_R_cons; lra]. Qed.
Lemma nsum_pos (l : list R) x : Forall (fun x => 0 <= x) l -> In x l -> 0 < x -> 0 < nsum O l.
Proof.
  intros Hf Hin Hx. induction Hf as [|y l Hy Hf IH]; [destruct Hin|].
  rewrite nsum_R_cons. pose proof (nsum_nonneg l Hf). destruct Hin as [->|Hin]; [lra|].
  specialize (IH Hin). lra.
Qed.

Corollary tps_peak_is_strict (data : list (list R)) (A ph : nat -> R) k0 n c :
  (0 < k0)%nat -> (k0 < n / 2)%nat -> (1 <= c)%nat ->
  length data = n -> Forall (fun row => length row = c) data ->
  (forall t j, (t < n)%nat -> (j < c)%nat ->
     nth j (nth t data []) 0 = A j * cos (2 * PI * INR k0 * INR t / INR n + ph j)) ->
  (exists j, (j < c)%nat /\ A j <> 0) ->
  forall k, (k < n / 2)%nat -> k <> k0 ->
  nth k (mean_tps O data) 0 < nth k0 (mean_tps O data) 0.
Proof.
  intros Hk0 Hk0n Hc Hlen Hwf Hs [j0 [Hj0 HA]] k Hk Hne.
  rewrite (tps_peaks_at_sinusoid_bin data A ph k0 n c k) by assumption.
  rewrite (tps_peaks_at_sinusoid_bin data A ph k0 n c k0) by assumption.
  destruct (Nat.eq_dec k k0) as [C|_]; [contradiction|].
  destruct (Nat.eq_dec k0 k0) as [_|C]; [|contradiction].
  assert (H2 : (2 * (n / 2) <= n)%nat) by (apply Nat.mul_div_le; lia).
  assert (HN : 0 < INR n) by (apply lt_0_INR; lia).
  unfold nmean. rewrite map_length, seq_length. rops. rewrite <- INR_IZR_INZ.
  apply Rdiv_lt_0_compat; [|apply lt_0_INR; lia].
  apply (nsum_pos _ ((A j0 * INR n / 2) ^ 2)).
  - apply Forall_forall. intros x Hx. apply in_map_iff in Hx. destruct Hx as [j [<- _]]. apply pow2_ge_0.
  - apply in_map_iff. exists j0. split; [reflexivity|]. apply in_seq. lia.
  - assert (Hq : A j0 * INR n / 2 <> 0).
    { unfold Rdiv. apply Rmult_integral_contrapositive_currified; [|lra].
      apply Rmult_integral_contrapositive_currified; lra. }
    pose proof (pow2_ge_0 (A j0 * INR n / 2)) as Hge.
    destruct Hge as [Hgt|Heq]; [exact Hgt|]. exfalso. apply Hq.
    symmetry in Heq. replace ((A j0 * INR n / 2) ^ 2) with (Rsqr (A j0 * INR n / 2)) in Heq by (unfold Rsqr; ring).
    apply Rsqr_0_uniq. exact Heq.
Qed.

(* ---- non-vacuity ---- *)
(* the hypotheses are satisfiable for every shape: the sampled-sinusoid data set itself *)
Definition sindata (A ph : nat -> R) (k0 n c : nat) : list (list R) :=
  map (fun t => map (fun j => A j * cos (2 * PI * INR k0 * INR t / INR n + ph j)) (seq 0 c)) (seq 0 n).
Lemma sindata_wf A ph k0 n c :
  length (sindata A ph k0 n c) = n /\ Forall (fun row => length row = c) (sindata A ph k0 n c) /\
  (forall t j, (t < n)%nat -> (j < c)%nat ->
     nth j (nth t (sindata A ph k0 n c) []) 0 = A j * cos (2 * PI * INR k0 * INR t / INR n + ph j)).
Proof.
  unfold sindata. split; [|split].
  - rewrite map_length, seq_length. reflexivity.
  - apply Forall_forall. intros row Hr. apply in_map_iff in Hr. destruct Hr as [t [<- _]].
    rewrite map_length, seq_length. reflexivity.
  - intros t j Ht Hj.
    rewrite (nth_map_lt _ (seq 0 n) t [] 0%nat) by (rewrite seq_length; exact Ht).
    rewrite seq_nth by exact Ht. rewrite nth_map_seq by exact Hj. reflexivity.
Qed.

(* n = 4, k0 = 1, one column, A = 1, ph = 0: the samples of cos (pi t / 2) are 1, 0, -1, 0;
   the two kept bins are 0 and 4 = (1 * 4 / 2)^2 *)
Example tps_peak_n4 :
  let data := [[1]; [0]; [-1]; [0]] in
  nth 0 (mean_tps O data) 0 = 0 /\ nth 1 (mean_tps O data) 0 = 4 /\
  nth 0 (mean_tps O data) 0 < nth 1 (mean_tps O data) 0.
Proof.
  intros data.
  assert (Hs : forall t j, (t < 4)%nat -> (j < 1)%nat ->
     nth j (nth t data []) 0 = (fun _ => 1) j * cos (2 * PI * INR 1 * INR t / INR 4 + (fun _ : nat => 0) j)).
  { intros t j Ht Hj. assert (j = 0%nat) by lia. subst j.
    destruct t as [|[|[|[|t]]]]; [| | | |lia]; unfold data; cbn [nth].
    - replace (2 * PI * INR 1 * INR 0 / INR 4 + 0) with 0 by (simpl; field). rewrite cos_0. ring.
    - replace (2 * PI * INR 1 * INR 1 / INR 4 + 0) with (PI / 2) by (simpl; field). rewrite cos_PI2. ring.
    - replace (2 * PI * INR 1 * INR 2 / INR 4 + 0) with PI by (simpl; field). rewrite cos_PI. ring.
    - replace (2 * PI * INR 1 * INR 3 / INR 4 + 0) with (3 * (PI / 2)) by (simpl; field). rewrite cos_3PI2. ring. }
  assert (Hwf : Forall (fun row : list R => length row = 1%nat) data) by (repeat constructor).
  assert (Hh : (1 < 4 / 2)%nat) by (change (4 / 2)%nat with 2%nat; lia).
  assert (H0 : nth 0 (mean_tps O data) 0 = 0).
  { rewrite (tps_peaks_at_sinusoid_bin data (fun _ => 1) (fun _ => 0) 1 4 1 0);
      try assumption; try reflexivity; try lia. }
  assert (H1 : nth 1 (mean_tps O data) 0 = 4).
  { rewrite (tps_peaks_at_sinusoid_bin data (fun _ => 1) (fun _ => 0) 1 4 1 1);
      try assumption; try reflexivity; try lia.
    destruct (Nat.eq_dec 1 1) as [_|C]; [|contradiction].
    unfold nmean, nsum. cbn [seq map fold_left length]. rops. simpl. field. }
  rewrite H0, H1. repeat split; lra.
Qed.

End C19peak.

Print Assumptions dft_cosine_bin.
Print Assumptions spectrum_of_sinusoid.
Print Assumptions spectrum_of_sinusoid_half.
Print Assumptions tps_peaks_at_sinusoid_bin.
Print Assumptions tps_peak_is_strict.
Print Assumptions tps_peak_n4.
