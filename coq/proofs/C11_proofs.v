(* C11: angular-spectrum propagation at unit magnification is a one-parameter group; the lens
   propagator is the one-step Fresnel propagator applied after the lens phase. *)
From Coq Require Import Reals Lra Lia ZArith List Arith Psatz.
Require Import AOV.base.Num AOV.base.NumR AOV.base.RpowTac AOV.base.Cplx AOV.model.Fourier AOV.model.Optics
               AOV.proofs.Dft_proofs AOV.proofs.C09_proofs AOV.proofs.C10_proofs.
Import ListNotations.
Local Open Scope R_scope.

Section C11.
Variables (G : R -> R) (K : R -> R -> R).
Local Notation O := (ROps G K).
Local Notation RC := (R * R)%type.

Lemma map2_assoc_row : forall (p q r : list RC),
  map2 (cmul O) p (map2 (cmul O) q r) = map2 (cmul O) (map2 (cmul O) p q) r.
Proof. induction p as [|a p IH]; intros [|b q] [|c r]; try reflexivity.
  cbn [map2]. f_equal; [cring|apply IH]. Qed.
Lemma cmul_m_assoc : forall (A B C : list (list RC)),
  cmul_m O A (cmul_m O B C) = cmul_m O (cmul_m O A B) C.
Proof. unfold cmul_m. induction A as [|a A IH]; intros [|b B] [|c C]; try reflexivity.
  cbn [map2]. f_equal; [apply map2_assoc_row|apply IH]. Qed.
Lemma map2_map_same {A B C D} (f : B -> C -> D) (g1 : A -> B) (g2 : A -> C) (c : list A) :
  map2 f (map g1 c) (map g2 c) = map (fun x => f (g1 x) (g2 x)) c.
Proof. induction c as [|x c IH]; [reflexivity|]. cbn [map map2]. f_equal. exact IH. Qed.

Lemma cis_add a b : cmul O (cis O a) (cis O b) = cis O (a + b).
Proof. symmetry. apply (E_add G K). Qed.
Lemma phase_mul (c : list R) a b :
  cmul_m O (phase_grid O c a (nzero O)) (phase_grid O c b (nzero O)) = phase_grid O c (a + b) (nzero O).
Proof. unfold cmul_m, phase_grid. rewrite map2_map_same. apply map_ext. intros y.
  rewrite map2_map_same. apply map_ext. intros x. rewrite cis_add. f_equal. rops. ring. Qed.

Lemma ones_row : forall (c : list R) (g : R -> RC) (row : list RC), (forall x, g x = (1, 0)) ->
  length c = length row -> map2 (cmul O) (map g c) row = row.
Proof. induction c as [|x c IH]; intros g [|z row] Hg Hl; try discriminate Hl; [reflexivity|].
  cbn [map map2]. f_equal; [rewrite Hg; cring|apply IH; [exact Hg|simpl in Hl; congruence]]. Qed.
Lemma phase_zero_l (c : list R) a off (M : list (list RC)) : a = 0 ->
  wf_mat (length c) (length c) M -> cmul_m O (phase_grid O c a off) M = M.
Proof. intros -> [Hl Hf]. unfold cmul_m, phase_grid.
  assert (Hgen : forall (ys : list R) (M : list (list RC)), length ys = length M ->
            Forall (fun row => length row = length c) M ->
            map2 (map2 (cmul O)) (map (fun y => map (fun x => cis O (nmul O 0 (nadd O (nadd O (nsqr O x) (nsqr O y)) off))) c) ys) M = M).
  { induction ys as [|y ys IH]; intros [|row M'] Hlen HF; try discriminate Hlen; [reflexivity|].
    cbn [map map2]. f_equal.
    - apply ones_row; [|symmetry; exact (Forall_inv HF)].
      intros x. cbv [cis]; rops. rewrite Rmult_0_l, cos_0, sin_0. reflexivity.
    - apply IH; [simpl in Hlen; congruence|exact (Forall_inv_tail HF)]. }
  apply Hgen; [symmetry; exact Hl|exact Hf]. Qed.
Lemma cdivr_one (M : list (list RC)) : cdivr_m O M 1 = M.
Proof. unfold cdivr_m. apply map_map_id. intros [u v]. cbn [fst snd]. rops. f_equal; field. Qed.

(* the transfer-function form at unit magnification *)
Definition Q2grid (N : nat) (wvl d z : R) : list (list RC) :=
  phase_grid O (coordsN O N (1 / (INR N * d))) (- (PI * PI) * 2 * z / 1 / kwave O wvl) (nzero O).
Lemma AS_unit_mag N (U : list (list RC)) wvl d z : wf_mat N N U -> (0 < N)%nat -> z <> 0 -> d <> 0 ->
  angularSpectrum O U wvl d d z = ift2 O (cmul_m O (Q2grid N wvl d z) (ft2 O U d)) (1 / (INR N * d)).
Proof.
  intros Hwf HN Hz Hd. unfold angularSpectrum, Q2grid.
  replace (neqb O z (nzero O)) with false
    by (symmetry; cbv [neqb nzero nofZ ROps Reqb]; destruct (Req_EM_T z 0); [contradiction|reflexivity]).
  ncx. rewrite (wf_len _ _ _ Hwf).
  replace (ndiv O d d) with 1 by (rops; field; exact Hd).
  replace (ndiv O (none O) (nmul O (ofnat O N) d)) with (1 / (INR N * d))
    by (unfold ofnat; rops; rewrite <- INR_IZR_INZ; reflexivity).
  assert (W0 : wf_mat N N (ft2 O U d)) by (apply wf_ft2; assumption).
  assert (Hc : forall dd, wf_mat (length (coordsN O N dd)) (length (coordsN O N dd)) U)
    by (intros dd; rewrite coordsN_length; exact Hwf).
  assert (Ha1 : ndiv O (nmul O (ndiv O (kwave O wvl) (nofZ O 2)) (nsub O (none O) 1)) z = 0)
    by (rops; field; exact Hz).
  rewrite (phase_zero_l (coordsN O N d) _ (eps10 O) U Ha1 (Hc d)).
  rewrite cdivr_one.
  assert (Ha3 : ndiv O (nmul O (ndiv O (kwave O wvl) (nofZ O 2)) (nsub O 1 (none O))) (nmul O 1 z) = 0)
    by (rops; field; exact Hz).
  rewrite phase_zero_l; [reflexivity|exact Ha3|].
  rewrite coordsN_length. apply wf_ift2; try assumption. apply wf_cmul_m; [apply wf_phase|exact W0].
Qed.

Lemma AS_zero (U : list (list RC)) wvl d1 d2 : angularSpectrum O U wvl d1 d2 0 = U.
Proof. unfold angularSpectrum. replace (neqb O 0 (nzero O)) with true; [reflexivity|].
  cbv [neqb nzero nofZ ROps Reqb]. destruct (Req_EM_T 0 0); [reflexivity|contradiction]. Qed.

Lemma inv_scale N d : (0 < N)%nat -> d <> 0 -> 1 / (INR N * d) * INR N * d = 1.
Proof. intros HN Hd. assert (0 < INR N) by (apply lt_0_INR; exact HN). field. split; lra. Qed.

Lemma AS_additive N (U : list (list RC)) wvl d z1 z2 : wf_mat N N U -> (0 < N)%nat -> d <> 0 ->
  z1 <> 0 -> z2 <> 0 -> z1 + z2 <> 0 ->
  angularSpectrum O (angularSpectrum O U wvl d d z1) wvl d d z2 = angularSpectrum O U wvl d d (z1 + z2).
Proof.
  intros Hwf HN Hd H1 H2 H12.
  assert (W0 : wf_mat N N (ft2 O U d)) by (apply wf_ft2; assumption).
  assert (W1 : wf_mat N N (cmul_m O (Q2grid N wvl d z1) (ft2 O U d))) by (apply wf_cmul_m; [apply wf_phase|exact W0]).
  rewrite (AS_unit_mag N U wvl d z1) by assumption.
  rewrite (AS_unit_mag N _ wvl d z2) by (try assumption; apply wf_ift2; assumption).
  rewrite (AS_unit_mag N U wvl d (z1 + z2)) by assumption.
  rewrite (ft2_ift2 G K N N _ d (1 / (INR N * d)) W1 HN HN (inv_scale N d HN Hd)).
  rewrite cmul_m_assoc. unfold Q2grid. rewrite phase_mul. f_equal. f_equal. f_equal.
  unfold Rdiv. ring.
Qed.

(* -z undoes +z *)
Lemma AS_inverse N (U : list (list RC)) wvl d z : wf_mat N N U -> (0 < N)%nat -> d <> 0 -> z <> 0 ->
  angularSpectrum O (angularSpectrum O U wvl d d z) wvl d d (- z) = U.
Proof.
  intros Hwf HN Hd Hz.
  assert (W0 : wf_mat N N (ft2 O U d)) by (apply wf_ft2; assumption).
  assert (W1 : wf_mat N N (cmul_m O (Q2grid N wvl d z) (ft2 O U d))) by (apply wf_cmul_m; [apply wf_phase|exact W0]).
  rewrite (AS_unit_mag N U wvl d z) by assumption.
  rewrite (AS_unit_mag N _ wvl d (- z)) by (try assumption; try lra; apply wf_ift2; assumption).
  rewrite (ft2_ift2 G K N N _ d (1 / (INR N * d)) W1 HN HN (inv_scale N d HN Hd)).
  rewrite cmul_m_assoc. unfold Q2grid. rewrite phase_mul.
  rewrite phase_zero_l; [|unfold Rdiv; ring|rewrite coordsN_length; exact W0].
  apply (ift2_ft2 G K N N U d (1 / (INR N * d)) Hwf HN HN (inv_scale N d HN Hd)).
Qed.

(* lens to focal plane = one-step Fresnel over z = f after the thin-lens phase exp(-i k r^2/(2f)) *)
Lemma lens_is_onestep N (U : list (list RC)) wvl d1 f : wf_mat N N U -> (0 < N)%nat ->
  wvl <> 0 -> f <> 0 -> d1 <> 0 ->
  lensAgainst O U wvl d1 f
  = oneStepFresnel O (cmul_m O U (phase_grid O (coordsN O N d1) (- (kwave O wvl / (2 * f))) (nzero O))) wvl d1 f.
Proof.
  intros Hwf HN Hw Hf Hd.
  assert (WP : wf_mat N N (cmul_m O U (phase_grid O (coordsN O N d1) (- (kwave O wvl / (2 * f))) (nzero O))))
    by (apply wf_cmul_m; [exact Hwf|apply wf_phase]).
  pose proof (wf_len _ _ _ Hwf) as HlU. pose proof (wf_len _ _ _ WP) as HlP.
  unfold lensAgainst, oneStepFresnel. ncx. rewrite HlU, HlP.
  assert (HN' : 0 < INR N) by (apply lt_0_INR; exact HN).
  (* the inner quadratic phases cancel *)
  rewrite <- cmul_m_assoc, phase_mul.
  replace (cmul_m O U (phase_grid O (coordsN O N d1) _ (nzero O))) with U.
  2:{ symmetry. rewrite <- (phase_zero_l (coordsN O N d1) 0 (nzero O) U eq_refl) at 2
        by (rewrite coordsN_length; exact Hwf).
      (* commutativity of the pointwise product with a phase grid *)
      assert (Hcomm : forall (A B : list (list RC)), cmul_m O A B = cmul_m O B A).
      { unfold cmul_m. induction A as [|a A IH]; intros [|b B]; try reflexivity. cbn [map2]. f_equal; [|apply IH].
        revert b. induction a as [|p a IHa]; intros [|q b]; try reflexivity. cbn [map2]. f_equal; [cring|apply IHa]. }
      rewrite Hcomm. f_equal. f_equal. rops. field. exact Hf. }
  f_equal.
  unfold cmulc_m, phase_grid, coordsN. rewrite !map_map. apply map_ext. intros i.
  rewrite !map_map. apply map_ext. intros j. rewrite cdiv_comm. unfold inv_i, cdiv.
  replace (cmul O (cone O) (cinv O (nzero O, nmul O wvl f))) with (cinv O (nzero O, nmul O wvl f)) by cring.
  f_equal. f_equal. unfold ofnat; rops. rewrite <- !INR_IZR_INZ. unfold nsqr; rops. field. split; lra.
Qed.
End C11.
