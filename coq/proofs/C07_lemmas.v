(* C07 helpers: finite real sums, entries of shifted / transformed matrices, and the centred form of
   the inverse 2-D transform used by the phase-screen code (phasescreen.ift2) for even N. *)
From Coq Require Import ZArith Reals Bool List Arith Lra Lia Psatz.
Require Import AOV.base.Num AOV.base.NumR AOV.base.RpowTac AOV.base.Cplx AOV.model.Fourier
               AOV.proofs.Dft_proofs AOV.proofs.C09_proofs AOV.proofs.C10_proofs.
Import ListNotations.
Local Open Scope R_scope.

(* ------------------------------------------------------------------------------------------ *)
(* finite sums over R                                                                          *)
(* ------------------------------------------------------------------------------------------ *)

Fixpoint rsum (f : nat -> R) (n : nat) : R :=
  match n with O => 0 | S m => rsum f m + f m end.

Lemma rsum_ext f g n : (forall i, (i < n)%nat -> f i = g i) -> rsum f n = rsum g n.
Proof.
  induction n as [|n IH]; intros H; [reflexivity|]. cbn [rsum].
  rewrite IH, H by (intros; try apply H; lia). reflexivity.
Qed.
Lemma rsum_zero n : rsum (fun _ => 0) n = 0.
Proof. induction n as [|n IH]; cbn [rsum]; [reflexivity|]. rewrite IH. ring. Qed.
Lemma rsum_add f g n : rsum (fun i => f i + g i) n = rsum f n + rsum g n.
Proof. induction n as [|n IH]; cbn [rsum]; [ring|]. rewrite IH. ring. Qed.
Lemma rsum_scal s f n : rsum (fun i => s * f i) n = s * rsum f n.
Proof. induction n as [|n IH]; cbn [rsum]; [ring|]. rewrite IH. ring. Qed.
Lemma rsum_exch (f : nat -> nat -> R) n m :
  rsum (fun i => rsum (fun j => f i j) m) n = rsum (fun j => rsum (fun i => f i j) n) m.
Proof.
  induction n as [|n IH]; cbn [rsum].
  - symmetry. apply rsum_zero.
  - rewrite IH, <- rsum_add. reflexivity.
Qed.
Lemma rsum_single f n m : (m < n)%nat ->
  (forall i, (i < n)%nat -> i <> m -> f i = 0) -> rsum f n = f m.
Proof.
  induction n as [|n IH]; intros Hm Hz; [lia|]. cbn [rsum].
  destruct (Nat.eq_dec m n) as [->|Hne].
  - rewrite (rsum_ext f (fun _ => 0) n) by (intros; apply Hz; lia). rewrite rsum_zero. ring.
  - rewrite IH by (try lia; intros; apply Hz; lia). rewrite (Hz n) by lia. ring.
Qed.
Lemma rsum_nonneg f n : (forall i, (i < n)%nat -> 0 <= f i) -> 0 <= rsum f n.
Proof.
  induction n as [|n IH]; intros H; cbn [rsum]; [lra|].
  assert (0 <= rsum f n) by (apply IH; intros; apply H; lia).
  assert (0 <= f n) by (apply H; lia). lra.
Qed.
Lemma rsum_const x n : rsum (fun _ => x) n = INR n * x.
Proof. induction n as [|n IH]; [simpl; ring|]. cbn [rsum]. rewrite IH, S_INR. ring. Qed.

Lemma fst_bigsum f n : fst (bigsum f n) = rsum (fun i => fst (f i)) n.
Proof. induction n as [|n IH]; [reflexivity|]. cbn [bigsum rsum fst]. rewrite IH. reflexivity. Qed.
Lemma snd_bigsum f n : snd (bigsum f n) = rsum (fun i => snd (f i)) n.
Proof. induction n as [|n IH]; [reflexivity|]. cbn [bigsum rsum snd]. rewrite IH. reflexivity. Qed.

Lemma rsum_S_l f n : rsum f (S n) = f 0%nat + rsum (fun i => f (S i)) n.
Proof. induction n as [|n IH]; [cbn [rsum]; ring|]. cbn [rsum] in *. rewrite IH. ring. Qed.

Lemma nsum_rsum G K (l : list R) : nsum (ROps G K) l = rsum (fun i => nth i l 0) (length l).
Proof.
  induction l as [|a l IH]; [reflexivity|].
  rewrite nsum_R_cons, IH. cbn [length]. rewrite rsum_S_l. reflexivity.
Qed.

(* ------------------------------------------------------------------------------------------ *)
(* entries                                                                                     *)
(* ------------------------------------------------------------------------------------------ *)

Definition ent {A} (d : A) (m : list (list A)) (i j : nat) : A := nth j (nth i m []) d.

Lemma nth_map2 {A B C} (f : A -> B -> C) l1 l2 i d d1 d2 :
  (i < length l1)%nat -> (i < length l2)%nat ->
  nth i (map2 f l1 l2) d = f (nth i l1 d1) (nth i l2 d2).
Proof.
  revert l2 i; induction l1 as [|a l1 IH]; intros [|b l2] i H1 H2; simpl in *; try lia.
  destruct i as [|i]; [reflexivity|]. apply IH; lia.
Qed.

Lemma ent_map_map {A B} (g : A -> B) (d : A) (d' : B) r c m i j :
  wf_mat r c m -> (i < r)%nat -> (j < c)%nat ->
  ent d' (map (map g) m) i j = g (ent d m i j).
Proof.
  intros Hwf Hi Hj. unfold ent.
  rewrite (nth_map_lt (map g) m i [] []) by (destruct Hwf as [-> _]; exact Hi).
  apply nth_map_lt. rewrite (wf_nth_length r c m i Hwf Hi). exact Hj.
Qed.

Lemma ent_map2_map2 {A B C} (f : A -> B -> C) d da db r c m1 m2 i j :
  wf_mat r c m1 -> wf_mat r c m2 -> (i < r)%nat -> (j < c)%nat ->
  ent d (map2 (map2 f) m1 m2) i j = f (ent da m1 i j) (ent db m2 i j).
Proof.
  intros H1 H2 Hi Hj. unfold ent.
  rewrite (nth_map2 (map2 f) m1 m2 i [] [] [])
    by (destruct H1 as [L1 _], H2 as [L2 _]; lia).
  apply nth_map2.
  - rewrite (wf_nth_length r c m1 i H1 Hi). exact Hj.
  - rewrite (wf_nth_length r c m2 i H2 Hi). exact Hj.
Qed.

Lemma wf_map2_map2 {A B C} (f : A -> B -> C) r c m1 m2 :
  wf_mat r c m1 -> wf_mat r c m2 -> wf_mat r c (map2 (map2 f) m1 m2).
Proof.
  intros [L1 F1] [L2 F2]. split.
  - rewrite map2_length_eq; congruence.
  - clear L1 L2. revert m2 F2. induction m1 as [|a m1 IH]; intros [|b m2] F2; cbn [map2]; try constructor.
    + apply Forall_cons_iff in F1. apply Forall_cons_iff in F2.
      rewrite map2_length_eq; [tauto|]. destruct F1 as [-> _], F2 as [-> _]. reflexivity.
    + apply Forall_cons_iff in F1. apply Forall_cons_iff in F2. apply IH; tauto.
Qed.

Lemma wf_map_seq {A} (f : nat -> nat -> A) r c :
  wf_mat r c (map (fun i => map (fun j => f i j) (seq 0 c)) (seq 0 r)).
Proof.
  split; [rewrite map_length, seq_length; reflexivity|].
  apply Forall_forall. intros row H. apply in_map_iff in H. destruct H as [i [<- _]].
  rewrite map_length, seq_length. reflexivity.
Qed.

Lemma ent_map_seq {A} (f : nat -> nat -> A) d r c i j : (i < r)%nat -> (j < c)%nat ->
  ent d (map (fun i => map (fun j => f i j) (seq 0 c)) (seq 0 r)) i j = f i j.
Proof. intros Hi Hj. unfold ent. rewrite nth_map_seq by exact Hi. apply nth_map_seq. exact Hj. Qed.

(* ---- the half-length rotation ---- *)

Definition sh (c k : nat) : nat := if (k <? c)%nat then (k + c)%nat else (k - c)%nat.

Lemma sh_lt c k : (k < 2 * c)%nat -> (sh c k < 2 * c)%nat.
Proof. intros H. unfold sh. destruct (Nat.ltb_spec k c); lia. Qed.
Lemma sh_sh c k : (k < 2 * c)%nat -> sh c (sh c k) = k.
Proof.
  intros H. unfold sh. destruct (Nat.ltb_spec k c).
  - destruct (Nat.ltb_spec (k + c) c); lia.
  - destruct (Nat.ltb_spec (k - c) c); lia.
Qed.

Lemma even_2c c : Nat.even (2 * c) = true.
Proof. apply Nat.even_spec. exists c. reflexivity. Qed.

Lemma nth_ifftshift_even {A} (l : list A) c k d : length l = (2 * c)%nat -> (k < 2 * c)%nat ->
  nth k (ifftshift l) d = nth (sh c k) l d.
Proof.
  intros Hl Hk. rewrite <- fftshift_even by (rewrite Hl; apply even_2c).
  apply nth_fftshift_even; assumption.
Qed.

Lemma ent_fftshift2 {A} (d : A) c (m : list (list A)) y x :
  wf_mat (2 * c) (2 * c) m -> (y < 2 * c)%nat -> (x < 2 * c)%nat ->
  ent d (fftshift2 m) y x = ent d m (sh c y) (sh c x).
Proof.
  intros Hwf Hy Hx. unfold ent, fftshift2.
  pose proof (sh_lt c y Hy) as Hy'.
  rewrite (nth_fftshift_even _ c y) by (try assumption; rewrite map_length; destruct Hwf; assumption).
  fold (sh c y).
  rewrite (nth_map_lt fftshift m (sh c y) [] []) by (destruct Hwf as [L _]; rewrite L; exact Hy').
  rewrite (nth_fftshift_even _ c x) by (try assumption; apply (wf_nth_length _ _ _ _ Hwf Hy')).
  reflexivity.
Qed.

Lemma ent_ifftshift2 {A} (d : A) c (m : list (list A)) y x :
  wf_mat (2 * c) (2 * c) m -> (y < 2 * c)%nat -> (x < 2 * c)%nat ->
  ent d (ifftshift2 m) y x = ent d m (sh c y) (sh c x).
Proof.
  intros Hwf Hy Hx. unfold ent, ifftshift2.
  pose proof (sh_lt c y Hy) as Hy'.
  rewrite (nth_ifftshift_even _ c y) by (try assumption; rewrite map_length; destruct Hwf; assumption).
  rewrite (nth_map_lt ifftshift m (sh c y) [] []) by (destruct Hwf as [L _]; rewrite L; exact Hy').
  rewrite (nth_ifftshift_even _ c x) by (try assumption; apply (wf_nth_length _ _ _ _ Hwf Hy')).
  reflexivity.
Qed.

Section C07L.
Variables (G : R -> R) (K : R -> R -> R).
Local Notation O := (ROps G K).
Local Notation RC := (R * R)%type.

Lemma bigsum_sh (f : nat -> RC) c : bigsum (fun l => f (sh c l)) (2 * c) = bigsum f (2 * c).
Proof.
  rewrite !(bigsum_split2 G K).
  assert (H1 : bigsum (fun l => f (sh c l)) c = bigsum (fun i => f (c + i)%nat) c).
  { apply (bigsum_ext G K). intros l Hl. unfold sh. destruct (Nat.ltb_spec l c); [|lia].
    f_equal. lia. }
  assert (H2 : bigsum (fun i => f (sh c (c + i))) c = bigsum f c).
  { apply (bigsum_ext G K). intros l Hl. unfold sh. destruct (Nat.ltb_spec (c + l) c); [lia|].
    f_equal. lia. }
  rewrite H1, H2. cring.
Qed.

(* entries of the 2-D inverse transform *)
Lemma ent_idft2 r c (m : list (list RC)) y x :
  wf_mat r c m -> (y < r)%nat -> (x < c)%nat ->
  @ent RC (czero O) (idft2 O m) y x
  = bigsum (fun l => cmul O
       (bigsum (fun j => cmul O (@ent RC (czero O) m l j) (Kidft G K c j x)) c)
       (Kidft G K r l y)) r.
Proof.
  intros Hwf Hy Hx. unfold ent. rewrite idft2_ktr.
  assert (Hr : (0 < r)%nat) by lia.
  assert (W1 : wf_mat r c (map (ktr G K (Kidft G K)) m)) by (apply wf_map_ktr; exact Hwf).
  assert (W2 : wf_mat c r (transpose (map (ktr G K (Kidft G K)) m)))
    by (apply wf_transpose; assumption).
  assert (W3 : wf_mat c r (map (ktr G K (Kidft G K)) (transpose (map (ktr G K (Kidft G K)) m))))
    by (apply wf_map_ktr; exact W2).
  ncx.
  rewrite (@ent_transpose RC (czero O) c r _ x y W3 Hx Hy).
  rewrite (ent_map_ktr G K (Kidft G K) c r _ x y W2 Hx Hy).
  apply (bigsum_ext G K). intros l Hl. f_equal.
  rewrite (@ent_transpose RC (czero O) r c _ l x W1 Hl Hx).
  apply (ent_map_ktr G K (Kidft G K) r c m l x Hwf Hl Hx).
Qed.

(* the inverse kernel at rotated indices is the centred kernel *)
Lemma Kidft_sh c j x : (0 < c)%nat -> (j < 2 * c)%nat -> (x < 2 * c)%nat ->
  Kidft G K (2 * c) (sh c j) (sh c x)
  = cscale O (1 / INR (2 * c)) (E (2 * PI * ((INR j - INR c) * (INR x - INR c)) / INR (2 * c))).
Proof.
  intros Hc Hj Hx. unfold Kidft, W. f_equal. rewrite <- (E_neg G K), Ropp_involutive.
  assert (Hc' : 0 < INR c) by (apply lt_0_INR; lia).
  assert (HN : INR (2 * c) = 2 * INR c) by (rewrite mult_INR; simpl; ring).
  unfold sh. destruct (Nat.ltb_spec j c) as [Hjc|Hjc]; destruct (Nat.ltb_spec x c) as [Hxc|Hxc].
  - rewrite <- (E_period (2 * PI * ((INR j - INR c) * (INR x - INR c)) / INR (2 * c)) (j + x)).
    f_equal. rewrite HN, !mult_INR, !plus_INR. field. lra.
  - rewrite <- (E_period (2 * PI * ((INR j - INR c) * (INR x - INR c)) / INR (2 * c)) (x - c)).
    f_equal. rewrite HN, !mult_INR, !plus_INR, !minus_INR by lia. field. lra.
  - rewrite <- (E_period (2 * PI * ((INR j - INR c) * (INR x - INR c)) / INR (2 * c)) (j - c)).
    f_equal. rewrite HN, !mult_INR, !plus_INR, !minus_INR by lia. field. lra.
  - f_equal. rewrite HN, !mult_INR, !minus_INR by lia. field. lra.
Qed.

Definition theta (c i y j x : nat) : R :=
  2 * PI * ((INR i - INR c) * (INR y - INR c) + (INR j - INR c) * (INR x - INR c)) / INR (2 * c).

(* phasescreen.ift2(m, 1) for an N x N grid, N = 2c: centred inverse transform without any scale *)
Theorem ps_ift2_ent c (m : list (list RC)) y x :
  (0 < c)%nat -> wf_mat (2 * c) (2 * c) m -> (y < 2 * c)%nat -> (x < 2 * c)%nat ->
  @ent RC (czero O) (ps_ift2 O m (none O)) y x
  = bigsum (fun i => bigsum (fun j =>
       cmul O (@ent RC (czero O) m i j) (E (theta c i y j x))) (2 * c)) (2 * c).
Proof.
  intros Hc Hwf Hy Hx. unfold ps_ift2.
  assert (HN : (0 < 2 * c)%nat) by lia.
  assert (HN' : 0 < INR (2 * c)) by (apply lt_0_INR; lia).
  assert (W1 : wf_mat (2 * c) (2 * c) (fftshift2 m)) by (apply wf_fftshift2; exact Hwf).
  assert (W2 : wf_mat (2 * c) (2 * c) (idft2 O (fftshift2 m))) by (apply wf_idft2; assumption).
  assert (W3 : wf_mat (2 * c) (2 * c) (ifftshift2 (idft2 O (fftshift2 m))))
    by (apply wf_ifftshift2; exact W2).
  rewrite cscale_m_map. ncx.
  rewrite (@ent_map_map RC RC (cscale O _) (czero O) (czero O) (2 * c) (2 * c) _ y x W3 Hy Hx). ncx.
  rewrite (@ent_ifftshift2 RC (czero O) c _ y x W2 Hy Hx). ncx.
  rewrite (ent_idft2 (2 * c) (2 * c) _ _ _ W1 (sh_lt c y Hy) (sh_lt c x Hx)).
  match goal with |- context [bigsum ?f (2 * c)%nat] =>
    match f with context [idft2] => fail 1 | context [fftshift2] => rewrite <- (bigsum_sh f c) end end.
  cbv beta. rewrite nlen_INR. destruct Hwf as [Hlen Hrows]. ncx. rewrite Hlen.
  rewrite <- (bigsum_scale G K). apply (bigsum_ext G K). intros i Hi.
  rewrite (Kidft_sh c i y Hc Hi Hy).
  match goal with |- context [cmul O (bigsum ?f (2 * c)%nat) _] => rewrite <- (bigsum_sh f c) end.
  cbv beta.
  rewrite <- (bigsum_mul_r G K), <- (bigsum_scale G K). apply (bigsum_ext G K). intros j Hj. ncx.
  rewrite (Kidft_sh c j x Hc Hj Hx).
  rewrite (@ent_fftshift2 RC (czero O) c m _ _ (conj Hlen Hrows) (sh_lt c i Hi) (sh_lt c j Hj)).
  rewrite !sh_sh by assumption.
  unfold theta.
  replace (2 * PI * ((INR i - INR c) * (INR y - INR c) + (INR j - INR c) * (INR x - INR c)) / INR (2 * c))
    with (2 * PI * ((INR j - INR c) * (INR x - INR c)) / INR (2 * c)
          + 2 * PI * ((INR i - INR c) * (INR y - INR c)) / INR (2 * c)) by (field; lra).
  rewrite (E_add G K).
  generalize (E (2 * PI * ((INR j - INR c) * (INR x - INR c)) / INR (2 * c))).
  generalize (E (2 * PI * ((INR i - INR c) * (INR y - INR c)) / INR (2 * c))).
  generalize (@ent RC (czero O) m i j). intros [m1 m2] [e1 e2] [f1 f2].
  cunf. apply injective_projections; cbn [fst snd]; field; lra.
Qed.

End C07L.
