(* C20 / C06: programs made of functions whose footprint is pure leave every array and the hidden state
   unchanged, and each result depends only on the argument values (so equal calls return equal results in
   any order, whatever else is interleaved). *)
From Coq Require Import String List Bool Arith Lia.
Require Import AOV.model.Purity.
Import ListNotations.

Section C20.
Variables (V H : Type).

Lemma setargs_same (d : V) : forall (idx : list nat) (store : list V),
  Forall (fun i => i < List.length store) idx -> setargs V store idx (getargs V d store idx) = store.
Proof.
  induction idx as [|i idx IH]; intros store Hf; [reflexivity|].
  cbn [getargs map setargs]. inversion Hf as [|? ? Hi Hr]; subst.
  assert (E : firstn i store ++ nth i store d :: skipn (S i) store = store).
  { clear -Hi. revert i Hi. induction store as [|x st IHs]; intros i Hi; [simpl in Hi; lia|].
    destruct i as [|i]; [reflexivity|]. cbn [firstn nth skipn app]. f_equal. apply IHs. simpl in Hi. lia. }
  rewrite E. apply IH. exact Hr.
Qed.

Definition prog_pure (prog : list (call)) : Prop := Forall (fun c => entry_pure (c_fn c) = true) prog.
Definition prog_wf (n : nat) (prog : list call) : Prop := Forall (fun c => Forall (fun i => i < n) (c_args c)) prog.

Theorem pure_program_changes_nothing (s : sem V H) (d : V) : respects V H s ->
  forall prog store h, prog_pure prog -> prog_wf (List.length store) prog ->
  snd (fst (exec V H s d prog store h)) = store /\ snd (exec V H s d prog store h) = h.
Proof.
  intros Hs. induction prog as [|c rest IH]; intros store h Hp Hw; [split; reflexivity|].
  inversion Hp as [|? ? Hc Hr]; subst. inversion Hw as [|? ? Hwc Hwr]; subst.
  cbn [exec]. destruct (Hs (c_fn c) (getargs V d store (c_args c)) h Hc) as (Ea & Eh & _).
  destruct (s (c_fn c) (getargs V d store (c_args c)) h) as [[r args'] h'] eqn:Es. cbn [fst snd] in Ea, Eh. subst args' h'.
  rewrite setargs_same by exact Hwc.
  specialize (IH store h Hr Hwr). destruct (exec V H s d rest store h) as [[rs st] hf]. cbn [fst snd] in *. exact IH.
Qed.

(* the result of every call is the function of its argument values only *)
Theorem pure_program_results (s : sem V H) (d : V) (h0 : H) : respects V H s ->
  forall prog store h, prog_pure prog -> prog_wf (List.length store) prog ->
  fst (fst (exec V H s d prog store h))
  = map (fun c => fst (fst (s (c_fn c) (getargs V d store (c_args c)) h0))) prog.
Proof.
  intros Hs. induction prog as [|c rest IH]; intros store h Hp Hw; [reflexivity|].
  inversion Hp as [|? ? Hc Hr]; subst. inversion Hw as [|? ? Hwc Hwr]; subst.
  cbn [exec map]. destruct (Hs (c_fn c) (getargs V d store (c_args c)) h Hc) as (Ea & Eh & Er).
  destruct (s (c_fn c) (getargs V d store (c_args c)) h) as [[r args'] h'] eqn:Es. cbn [fst snd] in Ea, Eh, Er. subst args' h'.
  rewrite setargs_same by exact Hwc.
  specialize (IH store h Hr Hwr). destruct (exec V H s d rest store h) as [[rs st] hf]. cbn [fst snd] in *.
  f_equal; [|exact IH]. specialize (Er h0). rewrite Er. reflexivity.
Qed.

(* hence: the same call gives the same result wherever it stands in whichever pure program *)
Corollary equal_calls_equal_results (s : sem V H) (d : V) : respects V H s ->
  forall p1 p2 c store h1 h2 q1 q2,
  prog_pure (p1 ++ c :: q1) -> prog_pure (p2 ++ c :: q2) ->
  prog_wf (List.length store) (p1 ++ c :: q1) -> prog_wf (List.length store) (p2 ++ c :: q2) ->
  nth (List.length p1) (fst (fst (exec V H s d (p1 ++ c :: q1) store h1))) d
  = nth (List.length p2) (fst (fst (exec V H s d (p2 ++ c :: q2) store h2))) d.
Proof.
  intros Hs p1 p2 c store h1 h2 q1 q2 P1 P2 W1 W2.
  rewrite (pure_program_results s d h1 Hs _ store h1 P1 W1), (pure_program_results s d h1 Hs _ store h2 P2 W2).
  rewrite !map_app. cbn [map].
  rewrite !app_nth2 by (rewrite map_length; lia). rewrite !map_length, !Nat.sub_diag. reflexivity.
Qed.
End C20.
