(* C12 (rotation): the `rot` argument of the pixel-grid Zernike generator mixes the cosine mode (n, m) and the
   sine mode (n, -m) of the unrotated generator by the plane rotation through `rot`; m = 0 modes ignore it.
   Real instance ROps G K. *)
From Coq Require Import ZArith Reals Bool List Arith Lra Lia.
Require Import AOV.base.Num AOV.base.NumR AOV.model.Pupil AOV.model.Zernike AOV.proofs.C12_rest.
Import ListNotations.
Local Open Scope R_scope.

Section Rot.
  Variables (G : R -> R) (K : R -> R -> R).
  Local Notation O := (ROps G K).

  Lemma zernike_px_rot_cos : forall n m N rot i j, (0 < m)%Z ->
    zernike_px O n m N rot i j =
    cos rot * zernike_px O n m N 0 i j - sin rot * zernike_px O n (- m) N 0 i j.
  Proof.
    intros n m N rot i j Hm.
    assert (E1 : (m =? 0)%Z = false) by (apply Z.eqb_neq; lia).
    assert (E2 : (0 <? m)%Z = true) by (apply Z.ltb_lt; lia).
    assert (E3 : (- m =? 0)%Z = false) by (apply Z.eqb_neq; lia).
    assert (E4 : (0 <? - m)%Z = false) by (apply Z.ltb_ge; lia).
    unfold zernike_px. rewrite E1, E2, E3, E4, Z.opp_involutive. unfold zN. rops.
    rewrite !Rplus_0_r, cos_plus. ring.
  Qed.

  Lemma zernike_px_rot_sin : forall n m N rot i j, (0 < m)%Z ->
    zernike_px O n (- m) N rot i j =
    sin rot * zernike_px O n m N 0 i j + cos rot * zernike_px O n (- m) N 0 i j.
  Proof.
    intros n m N rot i j Hm.
    assert (E1 : (m =? 0)%Z = false) by (apply Z.eqb_neq; lia).
    assert (E2 : (0 <? m)%Z = true) by (apply Z.ltb_lt; lia).
    assert (E3 : (- m =? 0)%Z = false) by (apply Z.eqb_neq; lia).
    assert (E4 : (0 <? - m)%Z = false) by (apply Z.ltb_ge; lia).
    unfold zernike_px. rewrite E1, E2, E3, E4, Z.opp_involutive. unfold zN. rops.
    rewrite !Rplus_0_r, sin_plus. ring.
  Qed.

  Lemma zernike_px_rot_m0 : forall n N rot i j,
    zernike_px O n 0 N rot i j = zernike_px O n 0 N 0 i j.
  Proof. intros n N rot i j. unfold zernike_px. rewrite Z.eqb_refl. reflexivity. Qed.

  Theorem zernike_nm_rot_pair : forall n m N rot i j, (0 < m)%Z -> (i < N)%nat -> (j < N)%nat ->
    nth j (nth i (zernike_nm O n m N rot) []) 0 =
      cos rot * nth j (nth i (zernike_nm O n m N 0) []) 0
      - sin rot * nth j (nth i (zernike_nm O n (- m) N 0) []) 0
    /\ nth j (nth i (zernike_nm O n (- m) N rot) []) 0 =
      sin rot * nth j (nth i (zernike_nm O n m N 0) []) 0
      + cos rot * nth j (nth i (zernike_nm O n (- m) N 0) []) 0.
  Proof.
    intros n m N rot i j Hm Hi Hj.
    pose proof (zernike_nm_entry G K n m N rot i j Hi Hj) as A1.
    pose proof (zernike_nm_entry G K n (- m)%Z N rot i j Hi Hj) as A2.
    pose proof (zernike_nm_entry G K n m N 0 i j Hi Hj) as A3.
    pose proof (zernike_nm_entry G K n (- m)%Z N 0 i j Hi Hj) as A4.
    unfold entry in A1, A2, A3, A4. rewrite A1, A2, A3, A4.
    split; [apply zernike_px_rot_cos | apply zernike_px_rot_sin]; exact Hm.
  Qed.

  Theorem zernike_nm_rot_m0 : forall n N rot i j, (i < N)%nat -> (j < N)%nat ->
    nth j (nth i (zernike_nm O n 0 N rot) []) 0 = nth j (nth i (zernike_nm O n 0 N 0) []) 0.
  Proof.
    intros n N rot i j Hi Hj.
    pose proof (zernike_nm_entry G K n 0%Z N rot i j Hi Hj) as A1.
    pose proof (zernike_nm_entry G K n 0%Z N 0 i j Hi Hj) as A2.
    unfold entry in A1, A2. rewrite A1, A2. apply zernike_px_rot_m0.
  Qed.
End Rot.

Check zernike_px_rot_cos.
Check zernike_nm_rot_pair.
Print Assumptions zernike_nm_rot_pair.
Print Assumptions zernike_nm_rot_m0.
