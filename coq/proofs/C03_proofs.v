(* C03: the multi-process assembly of the slope covariance matrix (model/SlopeCov.v) is independent of the
   order in which the pool workers complete, and equal to the sequential assembly.  Everything here is
   proved for EVERY carrier T and EVERY O : NumOps T: no arithmetic law is used, the statements are about
   lists, indices and permutations, hence they are bit-identities at the IEEE instance as well. *)
From Coq Require Import ZArith Bool List Arith Lia Permutation.
Require Import AOV.base.Num AOV.base.Cplx AOV.model.Mat AOV.model.SlopeCov.
Import ListNotations.

(* ------------------------------------------------------------------------------------------ *)
(* generic list facts                                                                          *)
(* ------------------------------------------------------------------------------------------ *)

Lemma c3_mapi_from_length {A B} (f : nat -> A -> B) i l : length (mapi_from f i l) = length l.
Proof. revert i; induction l as [|a l IH]; intros i; simpl; auto. Qed.

Lemma c3_mapi_length {A B} (f : nat -> A -> B) l : length (mapi f l) = length l.
Proof. apply c3_mapi_from_length. Qed.

Lemma c3_nth_error_mapi_from {A B} (f : nat -> A -> B) i l n :
  nth_error (mapi_from f i l) n = option_map (f (i + n)) (nth_error l n).
Proof.
  revert i n; induction l as [|a l IH]; intros i [|n]; simpl; auto.
  - now rewrite Nat.add_0_r.
  - rewrite IH. now replace (S i + n) with (i + S n) by lia.
Qed.

Lemma c3_nth_error_mapi {A B} (f : nat -> A -> B) l n :
  nth_error (mapi f l) n = option_map (f n) (nth_error l n).
Proof. unfold mapi. now rewrite c3_nth_error_mapi_from. Qed.

Lemma c3_nth_error_ext {A} (l1 l2 : list A) :
  (forall n, nth_error l1 n = nth_error l2 n) -> l1 = l2.
Proof.
  revert l2; induction l1 as [|a l1 IH]; intros [|b l2] H; auto.
  - specialize (H 0); discriminate.
  - specialize (H 0); discriminate.
  - f_equal.
    + specialize (H 0); simpl in H; now inversion H.
    + apply IH; intros n; exact (H (S n)).
Qed.

Lemma c3_nth_error_repeat {A} (x : A) n i :
  nth_error (repeat x n) i = if i <? n then Some x else None.
Proof.
  revert i; induction n as [|n IH]; intros [|i]; simpl; auto.
  rewrite IH. reflexivity.
Qed.

(* ------------------------------------------------------------------------------------------ *)
(* S1: Pool.map returns the results in submission order whatever the completion order         *)
(* ------------------------------------------------------------------------------------------ *)

Section PoolMap.
  Context {A B : Type} (f : A -> B) (args : list A).

  Definition pm_step (slots : list (option B)) (k : nat) : list (option B) :=
    mapi (fun i s => if Nat.eqb i k then option_map f (nth_error args k) else s) slots.

  Lemma pool_map_unfold sched :
    pool_map f args sched = fold_left pm_step sched (repeat None (length args)).
  Proof. reflexivity. Qed.

  Lemma pm_fold_length sched slots : length (fold_left pm_step sched slots) = length slots.
  Proof.
    revert slots; induction sched as [|k sched IH]; intros slots; simpl; auto.
    rewrite IH. apply c3_mapi_length.
  Qed.

  (* slot i after the whole schedule: the result of task i if i completed at least once, the old
     content otherwise *)
  Lemma pm_fold_nth sched slots i :
    nth_error (fold_left pm_step sched slots) i =
    option_map (fun s => if existsb (Nat.eqb i) sched then option_map f (nth_error args i) else s)
               (nth_error slots i).
  Proof.
    revert slots; induction sched as [|k sched IH]; intros slots; simpl.
    - destruct (nth_error slots i); reflexivity.
    - rewrite IH. unfold pm_step at 1. rewrite c3_nth_error_mapi.
      destruct (nth_error slots i) as [s|]; simpl; auto.
      destruct (Nat.eqb_spec i k) as [->|Hne]; simpl; auto.
      destruct (existsb (Nat.eqb k) sched); reflexivity.
  Qed.
End PoolMap.

Theorem pool_map_length : forall A B (f : A -> B) args sched,
  length (pool_map f args sched) = length args.
Proof.
  intros. rewrite pool_map_unfold, pm_fold_length. apply repeat_length.
Qed.

(* exact content of every slot, for an arbitrary schedule (tasks may be lost or repeated, indices
   may even be out of range: such completions touch no slot) *)
Theorem pool_map_nth : forall A B (f : A -> B) args sched i,
  nth_error (pool_map f args sched) i =
  option_map (fun a => if existsb (Nat.eqb i) sched then Some (f a) else None) (nth_error args i).
Proof.
  intros. rewrite pool_map_unfold, pm_fold_nth, c3_nth_error_repeat.
  destruct (Nat.ltb_spec i (length args)) as [Hlt|Hge]; simpl.
  - destruct (nth_error args i) as [a|] eqn:E; simpl.
    + reflexivity.
    + apply nth_error_None in E; lia.
  - apply nth_error_None in Hge. now rewrite Hge.
Qed.

(* general version: it suffices that no task is lost.  Duplicates are harmless (f is a function) and so
   are out-of-range completions (they touch no slot), so no bound on the elements of sched is needed. *)
Theorem pool_map_sched_indep_gen : forall A B (f : A -> B) args sched,
  (forall i, i < length args -> In i sched) ->
  pool_map f args sched = map (fun a => Some (f a)) args.
Proof.
  intros A B f args sched H. apply c3_nth_error_ext; intros i.
  rewrite pool_map_nth, nth_error_map.
  destruct (nth_error args i) as [a|] eqn:E; simpl; auto.
  assert (Hi : i < length args) by (apply nth_error_Some; congruence).
  assert (Hex : existsb (Nat.eqb i) sched = true).
  { apply existsb_exists. exists i; split; [now apply H | apply Nat.eqb_refl]. }
  now rewrite Hex.
Qed.

(* the version with the explicit bound asked for in the task statement (the bound is not used) *)
Corollary pool_map_sched_indep_cover : forall A B (f : A -> B) args sched,
  (forall i, i < length args -> In i sched) -> Forall (fun k => k < length args) sched ->
  pool_map f args sched = map (fun a => Some (f a)) args.
Proof. intros; now apply pool_map_sched_indep_gen. Qed.

Theorem pool_map_sched_indep : forall A B (f : A -> B) args sched,
  Permutation sched (seq 0 (length args)) ->
  pool_map f args sched = map (fun a => Some (f a)) args.
Proof.
  intros A B f args sched HP. apply pool_map_sched_indep_gen; intros i Hi.
  apply Permutation_in with (l := seq 0 (length args)); [now apply Permutation_sym|].
  apply in_seq; lia.
Qed.

(* converse: if a task is lost, its slot stays None, so the hypothesis is necessary as well *)
Theorem pool_map_lost_task : forall A B (f : A -> B) args sched i,
  i < length args -> ~ In i sched -> nth_error (pool_map f args sched) i = Some None.
Proof.
  intros A B f args sched i Hi Hn. rewrite pool_map_nth.
  destruct (nth_error args i) as [a|] eqn:E; simpl.
  - destruct (existsb (Nat.eqb i) sched) eqn:Ex; auto.
    apply existsb_exists in Ex. destruct Ex as [k [Hk Hik]].
    apply Nat.eqb_eq in Hik; subst k; contradiction.
  - apply nth_error_None in E; lia.
Qed.

Theorem pool_map_sched_indep_iff : forall A B (f : A -> B) args sched,
  pool_map f args sched = map (fun a => Some (f a)) args <->
  (forall i, i < length args -> In i sched).
Proof.
  intros A B f args sched; split; [|apply pool_map_sched_indep_gen].
  intros H i Hi.
  destruct (in_dec Nat.eq_dec i sched) as [Hin|Hn]; auto.
  pose proof (pool_map_lost_task A B f args sched i Hi Hn) as HL.
  rewrite H, nth_error_map in HL.
  destruct (nth_error args i); simpl in HL; discriminate.
Qed.

(* S4: the hypothesis matters: the schedule [0; 2] drops task 1 of three *)
Example pool_map_dropped_task :
  pool_map S [10; 20; 30] [0; 2] = [Some 11; None; Some 31] /\
  pool_map S [10; 20; 30] [0; 2] <> map (fun a => Some (S a)) [10; 20; 30].
Proof. split; [reflexivity | vm_compute; discriminate]. Qed.

(* completion order and duplicates are irrelevant *)
Example pool_map_reordered_dup :
  pool_map S [10; 20; 30] [2; 0; 2; 1; 0] = map (fun a => Some (S a)) [10; 20; 30].
Proof. reflexivity. Qed.

(* ------------------------------------------------------------------------------------------ *)
(* S5: the task list `pairs n` = lower triangle, row-major                                     *)
(* ------------------------------------------------------------------------------------------ *)

Lemma pairs_S n : pairs (S n) = pairs n ++ map (fun j => (n, j)) (seq 0 (S n)).
Proof.
  unfold pairs. rewrite seq_S, flat_map_app. f_equal.
  cbn [flat_map Nat.add]. rewrite app_nil_r. now rewrite (seq_S n 0).
Qed.

Lemma c3_tri_S n : S n * (S n + 1) / 2 = n * (n + 1) / 2 + S n.
Proof.
  replace (S n * (S n + 1)) with (n * (n + 1) + S n * 2) by lia.
  apply Nat.div_add; lia.
Qed.

Theorem pairs_length : forall n, length (pairs n) = n * (n + 1) / 2.
Proof.
  induction n as [|n IH]; [reflexivity|].
  rewrite pairs_S, app_length, map_length, seq_length, IH. symmetry; apply c3_tri_S.
Qed.

Theorem pairs_In : forall n i j, In (i, j) (pairs n) <-> j <= i /\ i < n.
Proof.
  intros n i j. unfold pairs. rewrite in_flat_map. split.
  - intros [x [Hx Hin]]. apply in_map_iff in Hin. destruct Hin as [y [Heq Hy]].
    inversion Heq; subst. apply in_seq in Hx. apply in_seq in Hy. lia.
  - intros [H1 H2]. exists i; split; [apply in_seq; lia|].
    apply in_map_iff. exists j; split; auto. apply in_seq; lia.
Qed.

Lemma c3_NoDup_app {A} (l1 l2 : list A) :
  NoDup l1 -> NoDup l2 -> (forall x, In x l1 -> ~ In x l2) -> NoDup (l1 ++ l2).
Proof.
  induction l1 as [|a l1 IH]; intros H1 H2 Hd; simpl; auto.
  inversion H1; subst. constructor.
  - intros Hin. apply in_app_or in Hin. destruct Hin as [Hin|Hin]; [contradiction|].
    apply (Hd a); simpl; auto.
  - apply IH; auto. intros x Hx. apply Hd; simpl; auto.
Qed.

Theorem pairs_NoDup : forall n, NoDup (pairs n).
Proof.
  induction n as [|n IH]; [constructor|].
  rewrite pairs_S. apply c3_NoDup_app; auto.
  - apply FinFun.Injective_map_NoDup; [|apply seq_NoDup].
    intros a b H; now inversion H.
  - intros [i j] Hin Hin2. apply pairs_In in Hin.
    apply in_map_iff in Hin2. destruct Hin2 as [y [Heq _]]. inversion Heq; subst. lia.
Qed.

(* the three facts together *)
Corollary pairs_enumerates : forall n,
  NoDup (pairs n) /\ (forall i j, In (i, j) (pairs n) <-> j <= i /\ i < n) /\
  length (pairs n) = n * (n + 1) / 2.
Proof. intros n; split; [apply pairs_NoDup | split; [apply pairs_In | apply pairs_length]]. Qed.

(* ------------------------------------------------------------------------------------------ *)
(* S2, S3: the multi-process assembly equals the sequential one                                *)
(* ------------------------------------------------------------------------------------------ *)

Lemma c3_fold_combine_some {X R M} (g : X -> R) (h : M -> X -> R -> M) (l : list X) (m : M) :
  fold_left (fun m xr => match snd xr with Some r => h m (fst xr) r | None => m end)
            (combine l (map (fun a => Some (g a)) l)) m =
  fold_left (fun m x => h m x (g x)) l m.
Proof. revert m; induction l as [|x l IH]; intros m; simpl; auto. Qed.

Section Assemble.
  Context {T : Type} (O : NumOps T).

  Definition good_sched (ws : list (@wfs T)) (s : list nat) : Prop :=
    Permutation s (seq 0 (length (pairs (length ws)))).

  (* general form: no task lost *)
  Theorem assemble_layer_mp_eq_seq_gen : forall D ws sched M l,
    (forall i, i < length (pairs (length ws)) -> In i sched) ->
    assemble_layer_mp O D ws sched M l = assemble_layer_seq O D ws M l.
  Proof.
    intros D ws sched M l H. unfold assemble_layer_mp, assemble_layer_seq.
    rewrite (pool_map_sched_indep_gen _ _ (pair_result O D ws l) (pairs (length ws)) sched H).
    exact (c3_fold_combine_some (pair_result O D ws l)
             (fun M ij r => add_pair O ws l M (fst ij) (snd ij) r) (pairs (length ws)) M).
  Qed.

  Theorem assemble_layer_mp_eq_seq : forall D ws sched M l,
    Permutation sched (seq 0 (length (pairs (length ws)))) ->
    assemble_layer_mp O D ws sched M l = assemble_layer_seq O D ws M l.
  Proof.
    intros D ws sched M l HP. apply assemble_layer_mp_eq_seq_gen; intros i Hi.
    apply Permutation_in with (l := seq 0 (length (pairs (length ws)))); [now apply Permutation_sym|].
    apply in_seq; lia.
  Qed.

  Lemma assemble_mp_eq_seq_from : forall D ws ls scheds M,
    length scheds = length ls ->
    Forall (fun s => Permutation s (seq 0 (length (pairs (length ws))))) scheds ->
    fold_left (fun M ls_ => assemble_layer_mp O D ws (snd ls_) M (fst ls_)) (combine ls scheds) M =
    fold_left (assemble_layer_seq O D ws) ls M.
  Proof.
    intros D ws ls; induction ls as [|l ls IH]; intros [|s scheds] M Hlen HF; simpl in *;
      try discriminate; auto.
    inversion HF; subst. rewrite assemble_layer_mp_eq_seq by assumption.
    apply IH; auto.
  Qed.

  Theorem assemble_mp_eq_seq : forall D ws ls scheds,
    length scheds = length ls ->
    Forall (fun s => Permutation s (seq 0 (length (pairs (length ws))))) scheds ->
    assemble_mp O D ws ls scheds = assemble_seq O D ws ls.
  Proof. intros; unfold assemble_mp, assemble_seq; now apply assemble_mp_eq_seq_from. Qed.

  Theorem C03_mp_eq_seq : forall D ws ls scheds,
    length scheds = length ls ->
    Forall (fun s => Permutation s (seq 0 (length (pairs (length ws))))) scheds ->
    make_covariance_matrix_mp O D ws ls scheds = make_covariance_matrix O D ws ls.
  Proof.
    intros; unfold make_covariance_matrix_mp, make_covariance_matrix.
    now rewrite assemble_mp_eq_seq.
  Qed.

  (* two admissible families of schedules give the same matrix *)
  Corollary C03_mp_sched_indep : forall D ws ls scheds1 scheds2,
    length scheds1 = length ls -> length scheds2 = length ls ->
    Forall (good_sched ws) scheds1 -> Forall (good_sched ws) scheds2 ->
    make_covariance_matrix_mp O D ws ls scheds1 = make_covariance_matrix_mp O D ws ls scheds2.
  Proof. intros; rewrite !C03_mp_eq_seq; auto. Qed.

  (* ---------------------------------------------------------------------------------------- *)
  (* S6: no state between builds                                                               *)
  (* ---------------------------------------------------------------------------------------- *)

  Section History.
    Context (D : T) (ws : list (@wfs T)) (ls : list (@layer T)).

    Inductive op := SetThreads (t : nat) | Build (scheds : list (list nat)) | Recon.

    Record state := { threads : nat; stored : option (@mat T) }.

    (* one operation: new state and the matrix handed back to the caller (Build returns the matrix it
       has just stored; Recon reads the stored matrix; SetThreads returns nothing) *)
    Definition run_op (s : state) (o : op) : state * option (@mat T) :=
      match o with
      | SetThreads t => ({| threads := t; stored := stored s |}, None)
      | Build scheds =>
          let M := if Nat.eqb (threads s) 1 then make_covariance_matrix O D ws ls
                   else make_covariance_matrix_mp O D ws ls scheds in
          ({| threads := threads s; stored := Some M |}, Some M)
      | Recon => (s, stored s)
      end.

    (* the whole history: final state and the list of (operation, returned matrix) *)
    Fixpoint run (s : state) (ops : list op) : state * list (op * option (@mat T)) :=
      match ops with
      | [] => (s, [])
      | o :: rest => let '(s1, r) := run_op s o in
                     let '(s2, rs) := run s1 rest in (s2, (o, r) :: rs)
      end.

    Definition op_ok (o : op) : Prop :=
      match o with
      | Build scheds => length scheds = length ls /\ Forall (good_sched ws) scheds
      | _ => True
      end.

    Definition reference : @mat T := make_covariance_matrix O D ws ls.

    (* the stored matrix is either absent (no build yet) or the reference matrix *)
    Definition clean (s : state) : Prop := stored s = None \/ stored s = Some reference.

    Lemma run_op_build : forall s scheds, op_ok (Build scheds) ->
      run_op s (Build scheds) = ({| threads := threads s; stored := Some reference |}, Some reference).
    Proof.
      intros s scheds [Hlen HF]. unfold run_op, reference.
      destruct (Nat.eqb (threads s) 1); auto.
      rewrite C03_mp_eq_seq; auto.
    Qed.

    Lemma run_op_clean : forall s o, op_ok o -> clean s -> clean (fst (run_op s o)).
    Proof.
      intros s [t|scheds|] Hok Hc; [exact Hc | | exact Hc].
      rewrite run_op_build by assumption. right; reflexivity.
    Qed.

    (* every matrix returned by a Build is the reference matrix: whatever the initial state (thread
       count, stored matrix), whatever happened before, whatever the schedules *)
    Theorem build_history_indep : forall ops s0 scheds M,
      Forall op_ok ops ->
      In (Build scheds, Some M) (snd (run s0 ops)) -> M = make_covariance_matrix O D ws ls.
    Proof.
      induction ops as [|o ops IH]; intros s0 scheds M HF Hin; [destruct Hin|].
      inversion HF as [|o' ops' Hok HF']; subst. simpl in Hin.
      destruct (run_op s0 o) as [s1 r] eqn:E1. destruct (run s1 ops) as [s2 rs] eqn:E2.
      simpl in Hin. destruct Hin as [Heq|Hin].
      - inversion Heq; subst. rewrite run_op_build in E1 by assumption.
        inversion E1; subst. reflexivity.
      - apply (IH s1 scheds M HF'). now rewrite E2.
    Qed.

    (* every Build returns a matrix *)
    Theorem build_returns : forall ops s0 scheds r,
      Forall op_ok ops -> In (Build scheds, r) (snd (run s0 ops)) -> r = Some reference.
    Proof.
      induction ops as [|o ops IH]; intros s0 scheds r HF Hin; [destruct Hin|].
      inversion HF as [|o' ops' Hok HF']; subst. simpl in Hin.
      destruct (run_op s0 o) as [s1 r1] eqn:E1. destruct (run s1 ops) as [s2 rs] eqn:E2.
      simpl in Hin. destruct Hin as [Heq|Hin].
      - inversion Heq; subst. rewrite run_op_build in E1 by assumption.
        inversion E1; subst. reflexivity.
      - apply (IH s1 scheds r HF'). now rewrite E2.
    Qed.

    (* the stored matrix too: from a clean state every reachable state is clean, so every matrix read
       back by Recon is the reference matrix *)
    Theorem run_clean : forall ops s0, Forall op_ok ops -> clean s0 -> clean (fst (run s0 ops)).
    Proof.
      induction ops as [|o ops IH]; intros s0 HF Hc; [exact Hc|].
      inversion HF as [|o' ops' Hok HF']; subst. simpl.
      pose proof (run_op_clean s0 o Hok Hc) as Hc1.
      destruct (run_op s0 o) as [s1 r] eqn:E1. destruct (run s1 ops) as [s2 rs] eqn:E2.
      simpl. specialize (IH s1 HF' Hc1). now rewrite E2 in IH.
    Qed.

    Theorem recon_history_indep : forall ops s0 M,
      Forall op_ok ops -> clean s0 ->
      In (Recon, Some M) (snd (run s0 ops)) -> M = make_covariance_matrix O D ws ls.
    Proof.
      induction ops as [|o ops IH]; intros s0 M HF Hc Hin; [destruct Hin|].
      inversion HF as [|o' ops' Hok HF']; subst. simpl in Hin.
      pose proof (run_op_clean s0 o Hok Hc) as Hc1.
      destruct (run_op s0 o) as [s1 r] eqn:E1. destruct (run s1 ops) as [s2 rs] eqn:E2.
      simpl in Hin. destruct Hin as [Heq|Hin].
      - inversion Heq; subst. simpl in E1. inversion E1; subst.
        destruct Hc as [Hc|Hc]; rewrite Hc in *; [discriminate|].
        match goal with H : Some _ = Some _ |- _ => inversion H end. reflexivity.
      - simpl in Hc1. apply (IH s1 M HF' Hc1). now rewrite E2.
    Qed.

    (* the thread count is only ever changed by SetThreads, and a build does not depend on it *)
    Theorem build_thread_indep : forall s s' scheds scheds',
      op_ok (Build scheds) -> op_ok (Build scheds') ->
      snd (run_op s (Build scheds)) = snd (run_op s' (Build scheds')).
    Proof. intros. now rewrite !run_op_build. Qed.
  End History.
End Assemble.

Print Assumptions pool_map_sched_indep.
Print Assumptions pairs_enumerates.
Print Assumptions assemble_mp_eq_seq.
Print Assumptions C03_mp_eq_seq.
Print Assumptions build_history_indep.
Print Assumptions recon_history_indep.
