(* C19 -- Empirical estimators implement their definitions (model: coq/model/Estim.v, tied to
   slopecovariance.calculate_structure_function and temporal_ps.py by the correspondence check). *)
From Coq Require Import Reals List Arith.
Require Import AOV.base.Num AOV.base.NumR AOV.base.Cplx AOV.model.Estim AOV.proofs.C19_proofs AOV.proofs.C19_peak.
Import ListNotations.
Local Open Scope R_scope.

(* value 0 at lag 0; at lag j the mean squared difference with the array shifted by j*step rows *)
Theorem C19_sf_is_mean_squared_lag_difference : forall G K phase nb step j,
  ((0 < sf_xm (ROps G K) phase nb step)%nat -> nth 0 (calc_sf (ROps G K) phase nb step) 1 = 0) /\
  ((0 < j < sf_xm (ROps G K) phase nb step)%nat ->
     nth j (calc_sf (ROps G K) phase nb step) 0
     = nmean (ROps G K) (concat (map2 (map2 (sqdiff (ROps G K)))
          (firstn (length phase - j * step) phase) (skipn (j * step) phase)))).
Proof. intros; split; [apply sf_lag0|intros; rewrite sf_lagj by assumption; reflexivity]. Qed.
Print Assumptions C19_sf_is_mean_squared_lag_difference.

(* exact on a ramp of slope a: a^2 (j step)^2, whatever the per-column offsets *)
Theorem C19_sf_exact_on_ramp : forall G K a offs n i, offs <> [] -> (0 < i < n)%nat ->
  sf_lag (ROps G K) (ramp a offs n) i = a * a * (INR i * INR i).
Proof. exact sf_ramp. Qed.
Print Assumptions C19_sf_exact_on_ramp.

Theorem C19_sf_quadratic_in_amplitude : forall G K (phase : list (list R)) s i,
  sf_lag (ROps G K) (map (map (fun x => s * x)) phase) i = s * s * sf_lag (ROps G K) phase i.
Proof. exact sf_lag_quadratic. Qed.
Print Assumptions C19_sf_quadratic_in_amplitude.

(* temporal power spectrum: squared modulus of the DFT of each centroid's time series *)
Theorem C19_tps_quadratic_and_parseval : forall G K s (x : list (R * R)),
  map (cabs2 (ROps G K)) (dft (ROps G K) (cscale_l (ROps G K) s x))
    = map (fun v => s * s * v) (map (cabs2 (ROps G K)) (dft (ROps G K) x)) /\
  nsum (ROps G K) (map (cabs2 (ROps G K)) (dft (ROps G K) x))
    = INR (length x) * nsum (ROps G K) (map (cabs2 (ROps G K)) x).
Proof. intros; split; [apply spectrum_quadratic|apply spectrum_parseval]. Qed.
Print Assumptions C19_tps_quadratic_and_parseval.

(* a pure sinusoid at an exact bin k0 (any amplitude and phase per sub-aperture): every other kept bin of the
   averaged spectrum is exactly 0, bin k0 holds the mean of (A n/2)^2 -- so the spectrum peaks there *)
Theorem C19_tps_peaks_at_the_bin_of_a_sinusoid : forall G K (data : list (list R)) (A ph : nat -> R) k0 n c,
  (0 < k0)%nat -> (k0 < n / 2)%nat -> (1 <= c)%nat ->
  length data = n -> Forall (fun row => length row = c) data ->
  (forall t j, (t < n)%nat -> (j < c)%nat ->
     nth j (nth t data []) 0 = A j * cos (2 * PI * INR k0 * INR t / INR n + ph j)) ->
  (forall k, (k < n / 2)%nat ->
     nth k (mean_tps (ROps G K) data) 0
     = if Nat.eq_dec k k0 then nmean (ROps G K) (map (fun j => (A j * INR n / 2) ^ 2) (seq 0 c)) else 0) /\
  ((exists j, (j < c)%nat /\ A j <> 0) ->
     forall k, (k < n / 2)%nat -> k <> k0 -> nth k (mean_tps (ROps G K) data) 0 < nth k0 (mean_tps (ROps G K) data) 0).
Proof.
  intros G K data A ph k0 n c H0 Hk Hc Hl Hw Hd. split.
  - intros k Hkk. apply (tps_peaks_at_sinusoid_bin G K data A ph k0 n c k); assumption.
  - intros Hex k Hkk Hne. apply (tps_peak_is_strict G K data A ph k0 n c); assumption.
Qed.
Print Assumptions C19_tps_peaks_at_the_bin_of_a_sinusoid.

Example C19_sinusoid_nonvacuous : forall G K,
  let data := [[1]; [0]; [-1]; [0]] in
  nth 0 (mean_tps (ROps G K) data) 0 = 0 /\ nth 1 (mean_tps (ROps G K) data) 0 = 4 /\
  nth 0 (mean_tps (ROps G K) data) 0 < nth 1 (mean_tps (ROps G K) data) 0.
Proof. exact tps_peak_n4. Qed.

Theorem C19_frequency_axis : forall G K rate n k, rate <> 0 -> (0 < n)%nat -> (k < n / 2)%nat ->
  nth k (tps_axis (ROps G K) rate n) 0 = INR k * rate / INR n /\ length (tps_axis (ROps G K) rate n) = (n / 2)%nat.
Proof. intros; split; [apply tps_axis_spec; assumption|apply tps_axis_length]. Qed.
Print Assumptions C19_frequency_axis.

Example C19_nonvacuous : [1] <> [] /\ (0 < 2 < 5)%nat.
Proof. split; [discriminate|split; repeat constructor]. Qed.
