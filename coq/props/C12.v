(* C12 -- Zernike indexing, modes, normalisations and gradient matrices.
   Model: coq/model/Zernike.v (hand-written; Noll indexing over Z, radial coefficients over Q, the
   makegammas tables as data, pixel-level mode synthesis), tied to aotools/functions/zernike.py by the
   correspondence check. *)
From Coq Require Import ZArith QArith Reals List.
Require Import AOV.base.Num AOV.model.Zernike AOV.proofs.C12_proofs.
Import ListNotations.
Local Open Scope Z_scope.

(* the Noll index is a bijection onto {n >= 0, |m| <= n, n - |m| even} -- for ALL j >= 1 *)
Theorem C12_noll_index_bijection :
  (forall j, 1 <= j -> valid_nm (fst (zern_index j)) (snd (zern_index j))
                       /\ noll_of_nm (fst (zern_index j)) (snd (zern_index j)) = j) /\
  (forall n m, valid_nm n m -> zern_index (noll_of_nm n m) = (n, m) /\ 1 <= noll_of_nm n m).
Proof. split; [intros j Hj; split; [apply zern_index_valid|apply noll_zern]; exact Hj|exact zern_noll]. Qed.
Print Assumptions C12_noll_index_bijection.

(* ordered by n then |m|; even indices cosine (m > 0), odd indices sine (m < 0) *)
Theorem C12_noll_order_and_parity : forall j1 j2, 1 <= j1 -> j1 <= j2 ->
  (fst (zern_index j1) <= fst (zern_index j2) /\
   (fst (zern_index j1) = fst (zern_index j2) -> Z.abs (snd (zern_index j1)) <= Z.abs (snd (zern_index j2)))) /\
  ((0 < snd (zern_index j1) -> Z.even j1 = true) /\ (snd (zern_index j1) < 0 -> Z.even j1 = false)).
Proof. intros j1 j2 H1 H2. split; [apply zern_index_order; assumption|apply zern_index_parity; exact H1]. Qed.
Print Assumptions C12_noll_order_and_parity.

(* Noll-normalised modes are orthonormal over the unit disc: exact (rational) integration,
   for all Noll indices up to 861 (radial orders up to 40) *)
Theorem C12_orthonormal_over_the_disc_bounded : forall j1 j2, 1 <= j1 <= 861 -> 1 <= j2 <= 861 ->
  (zern_ip j1 j2 == if j1 =? j2 then 1 else 0)%Q.
Proof. exact noll_orthonormal_bounded. Qed.
Print Assumptions C12_orthonormal_over_the_disc_bounded.

(* the gamma matrices of makegammas(nzrad) reproduce the x- and y-gradients of every mode as combinations
   of lower-order modes: exact polynomial identities in Q[x,y], all nzrad <= 12 (91 modes), every row *)
Theorem C12_gamma_matrices_are_the_gradients_bounded : forall nzrad, (nzrad <= 12)%nat ->
  gam_nm nzrad = noll_nm_list nzrad /\
  forall i, (i < length (gam_nm nzrad))%nat ->
    row_holds (gamx_entry (gam_nm nzrad)) pdx (length (gam_nm nzrad)) i /\
    row_holds (gamy_entry (gam_nm nzrad)) pdy (length (gam_nm nzrad)) i.
Proof. intros nzrad H. split; [apply gam_nm_noll_bounded; exact H|].
  intros i Hi. split; [apply gamma_x_bounded|apply gamma_y_bounded]; assumption. Qed.
Print Assumptions C12_gamma_matrices_are_the_gradients_bounded.

(* ... and as statements about real derivatives of the normalised modes *)
Theorem C12_gamma_x_real_derivative_bounded : forall nzrad, (nzrad <= 12)%nat ->
  forall i, (i < length (gam_nm nzrad))%nat -> forall x y : R,
  derivable_pt_lim (fun x0 => ZR (Z.of_nat (S i)) x0 y) x
    (rsum (map (fun j => (gamR (gamx_entry (gam_nm nzrad) i j) * ZR (Z.of_nat (S j)) x y)%R) (seq 0 (length (gam_nm nzrad))))).
Proof. exact gamma_x_R_bounded. Qed.
Print Assumptions C12_gamma_x_real_derivative_bounded.

Example C12_nonvacuous : valid_nm 4 (-2) /\ zern_index 13 = (4, -2) /\ noll_of_nm 4 (-2) = 13.
Proof. repeat split; try reflexivity; cbv; intros; discriminate. Qed.
