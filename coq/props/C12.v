(* C12 -- Zernike indexing, modes, normalisations and gradient matrices.
   Model: coq/model/Zernike.v (hand-written; Noll indexing over Z, radial coefficients over Q, the
   makegammas tables as data, pixel-level mode synthesis), tied to aotools/functions/zernike.py by the
   correspondence check. *)
From Coq Require Import ZArith QArith Reals List.
Require Import AOV.base.Num AOV.base.NumR AOV.model.Pupil AOV.model.Zernike AOV.proofs.C12_proofs AOV.proofs.C12_rest AOV.proofs.C12_rot.
Import ListNotations.
Local Open Scope Z_scope.

(* the Noll index is a bijection onto {n >= 0, |m| <= n, n - |m| even} -- for ALL j >= 1 *)
Theorem C12_noll_index_bijection :
  (forall j, 1 <= j -> valid_nm (fst (zern_index j)) (snd (zern_index j))
                       /\ noll_of_nm (fst (zern_index j)) (snd (zern_index j)) = j) /\
  (forall n m, valid_nm n m -> zern_index (noll_of_nm n m) = (n, m) /\ 1 <= noll_of_nm n m).
Proof. split; [intros j Hj; split; [apply zern_index_valid|apply noll_zern]; exact Hj|exact zern_noll]. Qed.
Print Assumptions C12_noll_index_bijection.

(* ordered by n then |m|; even indices cosine (m > 0), odd indices sine (m < 0) *)
Theorem C12_noll_order_and_parity : forall j1 j2, 1 <= j1 -> j1 <= j2 ->
  (fst (zern_index j1) <= fst (zern_index j2) /\
   (fst (zern_index j1) = fst (zern_index j2) -> Z.abs (snd (zern_index j1)) <= Z.abs (snd (zern_index j2)))) /\
  ((0 < snd (zern_index j1) -> Z.even j1 = true) /\ (snd (zern_index j1) < 0 -> Z.even j1 = false)).
Proof. intros j1 j2 H1 H2. split; [apply zern_index_order; assumption|apply zern_index_parity; exact H1]. Qed.
Print Assumptions C12_noll_order_and_parity.

(* Noll-normalised modes are orthonormal over the unit disc: exact (rational) integration,
   for all Noll indices up to 861 (radial orders up to 40) *)
Theorem C12_orthonormal_over_the_disc_bounded : forall j1 j2, 1 <= j1 <= 861 -> 1 <= j2 <= 861 ->
  (zern_ip j1 j2 == if j1 =? j2 then 1 else 0)%Q.
Proof. exact noll_orthonormal_bounded. Qed.
Print Assumptions C12_orthonormal_over_the_disc_bounded.

(* the gamma matrices of makegammas(nzrad) reproduce the x- and y-gradients of every mode as combinations
   of lower-order modes: exact polynomial identities in Q[x,y], all nzrad <= 12 (91 modes), every row *)
Theorem C12_gamma_matrices_are_the_gradients_bounded : forall nzrad, (nzrad <= 12)%nat ->
  gam_nm nzrad = noll_nm_list nzrad /\
  forall i, (i < length (gam_nm nzrad))%nat ->
    row_holds (gamx_entry (gam_nm nzrad)) pdx (length (gam_nm nzrad)) i /\
    row_holds (gamy_entry (gam_nm nzrad)) pdy (length (gam_nm nzrad)) i.
Proof. intros nzrad H. split; [apply gam_nm_noll_bounded; exact H|].
  intros i Hi. split; [apply gamma_x_bounded|apply gamma_y_bounded]; assumption. Qed.
Print Assumptions C12_gamma_matrices_are_the_gradients_bounded.

(* ... and as statements about real derivatives of the normalised modes *)
Theorem C12_gamma_x_real_derivative_bounded : forall nzrad, (nzrad <= 12)%nat ->
  forall i, (i < length (gam_nm nzrad))%nat -> forall x y : R,
  derivable_pt_lim (fun x0 => ZR (Z.of_nat (S i)) x0 y) x
    (rsum (map (fun j => (gamR (gamx_entry (gam_nm nzrad) i j) * ZR (Z.of_nat (S j)) x y)%R) (seq 0 (length (gam_nm nzrad))))).
Proof. exact gamma_x_R_bounded. Qed.
Print Assumptions C12_gamma_x_real_derivative_bounded.

(* ---- generated modes (pixel level, real arithmetic) ---- *)
Local Close Scope Z_scope.
Local Open Scope R_scope.
(* modes vanish outside the inscribed pupil; on the reals the pupil mask and the "r <= 1" clip coincide *)
Theorem C12_modes_vanish_outside_the_pupil : forall G K jn N rot i j, (i < N)%nat -> (j < N)%nat ->
  circle_px (ROps G K) (IZR (Z.of_nat N) / 2) N 0 0 true i j = false \/
  1 < sqrt (zcoord (ROps G K) N j * zcoord (ROps G K) N j + zcoord (ROps G K) N i * zcoord (ROps G K) N i) ->
  nth j (nth i (zernike_noll (ROps G K) jn N rot) []) 0 = 0.
Proof. exact zernike_noll_outside. Qed.
Print Assumptions C12_modes_vanish_outside_the_pupil.

Theorem C12_piston_is_one_inside_the_pupil : forall G K N rot i j, (i < N)%nat -> (j < N)%nat ->
  circle_px (ROps G K) (IZR (Z.of_nat N) / 2) N 0 0 true i j = true ->
  nth j (nth i (zernike_noll (ROps G K) 1 N rot) []) 0 = 1.
Proof. exact zernike_noll_piston. Qed.

(* unit RMS over the pupil under the rms normalisation (the pupil is never empty for N >= 1) ... *)
Theorem C12_unit_rms_under_rms_normalisation : forall G K N z, (1 <= N)%nat ->
  0 < nsum (ROps G K) (map (nsqr (ROps G K)) (flat2 z)) ->
  0 < npup G K N /\
  sqrt (nsum (ROps G K) (map (nsqr (ROps G K)) (flat2 (norm_rms (ROps G K) N z))) / npup G K N) = 1.
Proof.
  intros G K N z HN Hs. split; [apply npup_pos; exact HN|].
  apply norm_rms_unit_sqrt; [apply npup_pos; exact HN|exact Hs].
Qed.
Print Assumptions C12_unit_rms_under_rms_normalisation.

(* ... and unit peak-to-valley under the p2v normalisation, whenever the mode is not constant over the array *)
Theorem C12_unit_peak_to_valley_under_p2v_normalisation : forall G K z,
  fold_left (nmax (ROps G K)) (flat2 z) (hd 0 (flat2 z)) <> fold_left (nmin (ROps G K)) (flat2 z) (hd 0 (flat2 z)) ->
  let f' := flat2 (norm_p2v (ROps G K) z) in
  fold_left (nmax (ROps G K)) f' (hd 0 f') - fold_left (nmin (ROps G K)) f' (hd 0 f') = 1.
Proof. exact norm_p2v_unit. Qed.

(* an array built from an index list = the matching slices of the array built from a count (any carrier, any norm) *)
Theorem C12_array_from_list_is_slices_of_array_from_count : forall T (O : NumOps T) js J N norm rot k,
  Forall (fun j => (1 <= j <= Z.of_nat J)%Z) js -> (k < length js)%nat ->
  nth k (zernike_array_list O js N norm rot) [] = nth (Z.to_nat (nth k js 0%Z) - 1) (zernike_array_count O J N norm rot) []
  /\ length (zernike_array_count O J N norm rot) = J.
Proof. intros; split; [apply array_list_is_slices_of_array_count; assumption|apply zernike_array_count_length]. Qed.

(* a phase built from coefficients is that linear combination of the modes *)
Theorem C12_phase_is_the_linear_combination : forall G K coeffs J N rot i j, length coeffs = J -> (i < N)%nat -> (j < N)%nat ->
  nth j (nth i (phase_from_zernikes (ROps G K) coeffs N rot) []) 0
  = fold_right Rplus 0 (map (fun k => nth j (nth i (zernike_noll (ROps G K) (Z.of_nat (S k)) N rot) []) 0 * nth k coeffs 0) (seq 0 J)).
Proof. exact phase_is_linear_combination. Qed.
Print Assumptions C12_phase_is_the_linear_combination.
Local Close Scope R_scope.
Local Open Scope Z_scope.

Example C12_nonvacuous : valid_nm 4 (-2) /\ zern_index 13 = (4, -2) /\ noll_of_nm 4 (-2) = 13.
Proof. repeat split; try reflexivity; cbv; intros; discriminate. Qed.


(* rotation: the cos / sin partners of one (n, |m|) rotate together -- the rotated pair is the 2 x 2 rotation of the
   unrotated pair, pixel by pixel, for every n, m > 0, grid size and angle; m = 0 modes do not depend on the angle *)
Theorem C12_rotation_of_a_cos_sin_pair : forall G K n m N rot i j, (0 < m)%Z -> (i < N)%nat -> (j < N)%nat ->
  nth j (nth i (zernike_nm (ROps G K) n m N rot) []) 0%R =
    (cos rot * nth j (nth i (zernike_nm (ROps G K) n m N 0%R) []) 0 - sin rot * nth j (nth i (zernike_nm (ROps G K) n (- m) N 0%R) []) 0)%R
  /\ nth j (nth i (zernike_nm (ROps G K) n (- m) N rot) []) 0%R =
    (sin rot * nth j (nth i (zernike_nm (ROps G K) n m N 0%R) []) 0 + cos rot * nth j (nth i (zernike_nm (ROps G K) n (- m) N 0%R) []) 0)%R.
Proof. exact zernike_nm_rot_pair. Qed.
Print Assumptions C12_rotation_of_a_cos_sin_pair.

Theorem C12_rotation_leaves_m0_modes_alone : forall G K n N rot i j, (i < N)%nat -> (j < N)%nat ->
  nth j (nth i (zernike_nm (ROps G K) n 0 N rot) []) 0%R = nth j (nth i (zernike_nm (ROps G K) n 0 N 0%R) []) 0%R.
Proof. exact zernike_nm_rot_m0. Qed.
