(* C13 -- Karhunen-Loeve modes are orthonormal, piston-free and diagonalise the Kolmogorov covariance.
   Model: coq/model/KL.v (hand-written; stf_kolmogorov regenerated from source in gen/Gen_kl.v), tied to
   aotools/functions/karhunenLoeve.py stage by stage by the correspondence check (harness/pC13.py).
   numpy.linalg.eigh and numpy.argsort results are INPUTS of the model: their contracts (orthonormal
   eigenvector columns, eigen-equations, descending order of the selected eigenvalues, distinct indices) are
   explicit premises below, shown satisfiable by Examples in proofs/C13_proofs.v. *)
From Coq Require Import Reals Arith List.
Require Import AOV.base.Num AOV.base.NumR AOV.base.Cplx AOV.model.Mat AOV.model.KL
               AOV.proofs.Mat_proofs AOV.proofs.C13_lemmas AOV.proofs.C13_proofs AOV.proofs.C13_diag AOV.gen.Gen_kl.
Import ListNotations.
Local Open Scope R_scope.

(* ---- piston filtering: piston_orth(nr) is orthogonal, all but its last column sum to zero ---- *)
Theorem C13_piston_orth_is_orthogonal : forall G K nr a b, (1 <= nr)%nat -> (a < nr)%nat -> (b < nr)%nat ->
  wf_mat nr nr (piston_orth (ROps G K) nr) /\
  rsum (fun i => ent (piston_orth (ROps G K) nr) i a * ent (piston_orth (ROps G K) nr) i b) nr
  = (if (a =? b)%nat then 1 else 0) /\
  rsum (fun j => ent (piston_orth (ROps G K) nr) a j * ent (piston_orth (ROps G K) nr) b j) nr
  = (if (a =? b)%nat then 1 else 0).
Proof.
  intros G K nr a b H1 Ha Hb. destruct (piston_orth_orthogonal G K nr a b H1 Ha Hb) as [W E].
  split; [exact W|]. split; [exact E|]. apply piston_orth_rows_orthogonal; assumption.
Qed.
Print Assumptions C13_piston_orth_is_orthogonal.

Theorem C13_piston_free_columns : forall G K nr j, (S j < nr)%nat ->
  rsum (fun i => ent (piston_orth (ROps G K) nr) i j) nr = 0.
Proof. exact piston_orth_columns_zero_sum. Qed.

(* ---- azimuthal functions: discrete orthogonality on the uniform grid, as long as frequencies do not alias ---- *)
Theorem C13_azimuthal_rows_orthogonal : forall G K nord npp a b,
  (1 <= npp)%nat -> (a < nord)%nat -> (b < nord)%nat -> (az_freq a + az_freq b < npp)%nat ->
  / INR npp * rsum (fun t => ent (azimuthal (ROps G K) nord npp) a t * ent (azimuthal (ROps G K) nord npp) b t) npp
  = if (a =? b)%nat then (if (a =? 0)%nat then 1 else 1 / 2) else 0.
Proof. exact azimuthal_orthogonal. Qed.

(* the no-aliasing bound cannot be dropped: at 2 f = npp the cosine row has mean square 1 and the sine row vanishes *)
Theorem C13_azimuthal_aliasing_bound_is_tight : forall G K,
  / INR 2 * rsum (fun t => ent (azimuthal (ROps G K) 3 2) 1 t * ent (azimuthal (ROps G K) 3 2) 1 t) 2 = 1 /\
  (forall t, (t < 2)%nat -> ent (azimuthal (ROps G K) 3 2) 2 t = 0).
Proof. exact azimuthal_alias_tight. Qed.

(* ---- selection, cos/sin pairing, sorting (integers only) ---- *)
Theorem C13_exactly_nfunc_modes : forall nr nfunc sorted, (nfunc <= length sorted)%nat ->
  length (oind nr nfunc sorted) = nfunc.
Proof. exact oind_length. Qed.

(* every selected eigenvalue of azimuthal order t >= 1 yields two CONSECUTIVE modes with the same radial function,
   one on the cosine row 2t-1 and one on the sine row 2t, whatever the parity of its position; an order-0
   eigenvalue yields one mode on row 0; only the second member of the last pair can be cut by the truncation *)
Theorem C13_cos_sin_pairing : forall nr nfunc sorted, (0 < nr)%nat ->
  let oi := oind nr nfunc sorted in
  exists m, (m <= length sorted)%nat /\
    pair_up (S nfunc) nr nfunc sorted [] = expand nr (firstn m sorted) /\
    forall j, (j < m)%nat ->
      let k := length (expand nr (firstn j sorted)) in
      let x := nth j sorted 0%nat in
      let t := (x / nr)%nat in
      (k < nfunc)%nat /\ nth k oi 0%nat = x /\ nth k (tord nr oi) 0%nat = t /\ nth k (pio nr oi) 0%nat = (x mod nr)%nat /\
      ((x < nr)%nat -> t = 0%nat /\ nth k (oord nr oi) 0%nat = 0%nat) /\
      ((nr <= x)%nat -> (1 <= t)%nat /\
         nth k (oord nr oi) 0%nat = (if Nat.odd k then 2 * t - 1 else 2 * t)%nat /\
         ((S k < nfunc)%nat ->
            nth (S k) oi 0%nat = x /\ nth (S k) (tord nr oi) 0%nat = t /\ nth (S k) (pio nr oi) 0%nat = (x mod nr)%nat /\
            nth (S k) (oord nr oi) 0%nat = (if Nat.odd k then 2 * t else 2 * t - 1)%nat)).
Proof. exact oind_pairs. Qed.

(* returned variances are in non-increasing order (argsort contract), the two members of a pair are equal *)
Theorem C13_variances_sorted_and_pairs_equal : forall G K (evs : list R) nr nfunc sorted,
  (forall k, (S k < length sorted)%nat -> nth (nth (S k) sorted 0%nat) evs 0 <= nth (nth k sorted 0%nat) evs 0) ->
  (forall k, (S k < length (oind nr nfunc sorted))%nat ->
     nth (S k) (evals_out (ROps G K) evs (oind nr nfunc sorted)) 0 <= nth k (evals_out (ROps G K) evs (oind nr nfunc sorted)) 0) /\
  (forall k, (S k < length (oind nr nfunc sorted))%nat ->
     nth k (oind nr nfunc sorted) 0%nat = nth (S k) (oind nr nfunc sorted) 0%nat ->
     nth k (evals_out (ROps G K) evs (oind nr nfunc sorted)) 0 = nth (S k) (evals_out (ROps G K) evs (oind nr nfunc sorted)) 0).
Proof. intros G K evs nr nfunc sorted H; split; [apply evals_sorted; exact H|apply evals_pair_equal]. Qed.

(* ---- the modes the model builds from the eigh / argsort results are orthonormal over the pupil on the native
   polar grid (equal-area radii x uniform azimuth: the plain mean is the pupil average) ... ---- *)
Theorem C13_modes_orthonormal_over_the_pupil : forall G K nr npp nord nfunc (sorted : list nat) (kers : list (list (list R)))
    (v0 : list (list R)) (vsp : nat -> list (list R)) pmax,
  (1 <= nr)%nat -> (1 <= npp)%nat -> NoDup sorted ->
  (forall x, In x sorted -> (x < nr * S pmax)%nat) ->
  (2 * pmax < nord)%nat -> (2 * pmax < npp)%nat ->
  (forall a b, (a < nr - 1)%nat -> (b < nr - 1)%nat ->
     rsum (fun j => ent v0 j a * ent v0 j b) (nr - 1) = if (a =? b)%nat then 1 else 0) ->
  nth 0 kers [] = radial0 (ROps G K) nr v0 ->
  (forall p, (1 <= p <= pmax)%nat ->
     wf_mat nr nr (vsp p) /\
     (forall a b, (a < nr)%nat -> (b < nr)%nat ->
        rsum (fun k => ent (vsp p) k a * ent (vsp p) k b) nr = if (a =? b)%nat then 1 else 0) /\
     nth p kers [] = radialp (ROps G K) nr (vsp p)) ->
  let oi := oind nr nfunc sorted in
  forall i i', (i < length oi)%nat -> (i' < length oi)%nat ->
    pupil_inner nr npp (kl_mode G K kers nr nord npp oi i) (kl_mode G K kers nr nord npp oi i')
    = if (i =? i')%nat then 1 else 0.
Proof. exact kl_modes_orthonormal. Qed.
Print Assumptions C13_modes_orthonormal_over_the_pupil.

(* ... and piston-free: every selected mode except the constant one (flat index nr-1, variance 0) has zero mean *)
Theorem C13_modes_have_zero_mean : forall G K nr npp nord nfunc (sorted : list nat) (kers : list (list (list R)))
    (v0 : list (list R)) pmax,
  (1 <= nr)%nat -> (1 <= npp)%nat ->
  (forall x, In x sorted -> (x < nr * S pmax)%nat) ->
  (2 * pmax < nord)%nat -> (pmax < npp)%nat ->
  nth 0 kers [] = radial0 (ROps G K) nr v0 ->
  let oi := oind nr nfunc sorted in
  forall i, (i < length oi)%nat -> nth i oi 0%nat <> (nr - 1)%nat ->
    pupil_avg nr npp (kl_mode G K kers nr nord npp oi i) = 0.
Proof. exact kl_modes_zero_mean. Qed.

(* kl_mode is literally what gkl_sfi returns in the model *)
Theorem C13_kl_mode_is_gkl_sfi : forall G K kers nr nord npp oi i,
  kl_mode G K kers nr nord npp oi i
  = sfi (ROps G K) (rabas_col (ROps G K) kers nr oi i) (nth (nth i (oord nr oi) 0%nat) (azimuthal (ROps G K) nord npp) []).
Proof. reflexivity. Qed.

(* ---- kernel: the sampled structure function is even in the azimuthal lag, so its DFT is real (the stored real
   part loses nothing) and each order's kernel matrix is symmetric; eigenvectors of the order-p matrix
   diagonalise it ---- *)
Theorem C13_kernel_is_real_and_symmetric : forall G K ri nr rad,
  (forall i j k, (k < 5 * nr)%nat ->
     snd (nth k (dft (ROps G K) (map (cofR (ROps G K)) (kl_sf G K nr rad i j))) (czero (ROps G K))) = 0) /\
  (forall p i j, (i < nr)%nat -> (j < nr)%nat ->
     ent (kernel_order (ROps G K) ri nr rad p) i j = ent (kernel_order (ROps G K) ri nr rad p) j i).
Proof.
  intros G K ri nr rad; split.
  - intros i j k Hk. destruct (kernel_real_even G K ri nr rad i j) as (_ & _ & _ & H). apply H; exact Hk.
  - intros p i j Hi Hj. apply kernel_order_symmetric; assumption.
Qed.

Theorem C13_eigenvectors_diagonalise_their_order : forall G K ri nr kp (vs : list (list R)) (lam : list R),
  wf_mat nr nr vs ->
  (forall b, (b < nr)%nat ->
     mvec (ROps G K) (orderp_matrix (ROps G K) ri nr kp) (mcol vs b) = vscale (ROps G K) (nth b lam 0) (mcol vs b)) ->
  (forall a b, (a < nr)%nat -> (b < nr)%nat ->
     rsum (fun k => ent vs k a * ent vs k b) nr = if (a =? b)%nat then 1 else 0) ->
  forall a b, (a < nr)%nat -> (b < nr)%nat ->
    ndot (ROps G K) (mcol vs a) (mvec (ROps G K) (orderp_matrix (ROps G K) ri nr kp) (mcol vs b))
    = if (a =? b)%nat then nth a lam 0 else 0.
Proof. exact order_p_diagonalises. Qed.

(* ---- the modes diagonalise the Kolmogorov phase covariance on the native polar grid (npp = 5 nr) ----
   cov2 F1 F2 = -1/2 * (1/(nr N))^2 * sum_{k,t} sum_{k',t'} F1[k][t] * D(k, k', (t - t') mod N) * F2[k'][t'],
   the double pupil average of F1(x) D(|x - x'|) F2(x'), where D(k,k',s) is the structure function of the
   separation of the polar grid points (r_k, theta) and (r_k', theta + 2 pi s/N) in units of the diameter, for the
   radii the model itself generates: *)
Theorem C13_cov2_uses_the_kolmogorov_structure_function : forall G K ri nr k k' s, (s < 5 * nr)%nat ->
  let rad := gkl_radii (ROps G K) ri nr in
  Dsf G K nr rad k k' s
  = stf_kolmogorov (ROps G K)
      (5 / 10 * sqrt ((nth k rad 0 * nth k rad 0 + nth k' rad 0 * nth k' rad 0)
                      - 2 * nth k rad 0 * nth k' rad 0 * cos (INR s * 2 * PI / INR (5 * nr)))).
Proof. exact Dsf_model_radii. Qed.
(* (the code clips the squared separation at 0 before the square root -- a rounding guard, fix 0b251bc; over the reals
   the clip is the identity because the squared separation (a-b)^2 + 2ab(1 - cos) of non-negative radii is >= 0) *)

(* for the modes the model builds from eigenvector matrices satisfying the eigen-equations of the matrices it hands
   to eigh (order 0 after piston filtering, orders 1..pmax), every pair of selected modes other than the constant
   one satisfies  -1/2 <K_i D K_j> = delta_ij * (returned variance of mode i) *)
Theorem C13_modes_diagonalise_the_kolmogorov_covariance :
  forall G K ri nr rad nord nfunc (sorted : list nat) (kers : list (list (list R)))
         (v0 : list (list R)) (lam0 : list R) (vsp : nat -> list (list R)) (lamp : nat -> list R) (evs : list (list R)) pmax,
  (1 <= nr)%nat -> 1 - ri * ri <> 0 -> NoDup sorted ->
  (forall x, In x sorted -> (x < nr * S pmax)%nat) ->
  (2 * pmax < nord)%nat -> (2 * pmax < 5 * nr)%nat ->
  wf_mat (nr - 1) (nr - 1) v0 ->
  (forall b, (b < nr - 1)%nat ->
     mvec (ROps G K) (order0_matrix (ROps G K) ri nr (kernel_order (ROps G K) ri nr rad 0)) (mcol v0 b)
     = vscale (ROps G K) (nth b lam0 0) (mcol v0 b)) ->
  (forall a b, (a < nr - 1)%nat -> (b < nr - 1)%nat ->
     rsum (fun j => ent v0 j a * ent v0 j b) (nr - 1) = if (a =? b)%nat then 1 else 0) ->
  nth 0 kers [] = radial0 (ROps G K) nr v0 -> length lam0 = (nr - 1)%nat ->
  (forall p, (1 <= p <= pmax)%nat ->
     wf_mat nr nr (vsp p) /\
     (forall b, (b < nr)%nat ->
        mvec (ROps G K) (orderp_matrix (ROps G K) ri nr (kernel_order (ROps G K) ri nr rad p)) (mcol (vsp p) b)
        = vscale (ROps G K) (nth b (lamp p) 0) (mcol (vsp p) b)) /\
     (forall a b, (a < nr)%nat -> (b < nr)%nat ->
        rsum (fun k => ent (vsp p) k a * ent (vsp p) k b) nr = if (a =? b)%nat then 1 else 0) /\
     nth p kers [] = radialp (ROps G K) nr (vsp p) /\ length (lamp p) = nr /\ nth p evs [] = lamp p) ->
  length evs = S pmax -> nth 0 evs [] = lam0 ++ [0] ->
  let oi := oind nr nfunc sorted in
  forall i i', (i < length oi)%nat -> (i' < length oi)%nat ->
    nth i oi 0%nat <> (nr - 1)%nat -> nth i' oi 0%nat <> (nr - 1)%nat ->
    cov2 G K nr rad (kl_mode G K kers nr nord (5 * nr) oi i) (kl_mode G K kers nr nord (5 * nr) oi i')
    = if (i =? i')%nat then nth i (evals_out (ROps G K) (concat evs) oi) 0 else 0.
Proof. exact kl_modes_diagonalise_covariance. Qed.
Print Assumptions C13_modes_diagonalise_the_kolmogorov_covariance.

(* all of these premises hold together for a concrete instance *)
Example C13_diagonalisation_premises_satisfiable : forall G K rad, _ := kl_modes_diag_premises_satisfiable.

(* ---- Cartesian rendering ---- *)
(* the returned pupil is exactly the indicator of the annulus ri^2 <= x^2 + y^2 <= 1 at the pixel centres *)
Theorem C13_pupil_is_the_annulus_indicator : forall G K ncp ri i j, (i < ncp)%nat -> (j < ncp)%nat ->
  let x := car_coord (ROps G K) ncp j in let y := car_coord (ROps G K) ncp i in
  (ri * ri <= x * x + y * y <= 1 -> ent (pupil (ROps G K) ncp ri) i j = 1) /\
  (~ (ri * ri <= x * x + y * y <= 1) -> ent (pupil (ROps G K) ncp ri) i j = 0).
Proof. exact pupil_is_annulus_indicator. Qed.

(* masked rendering: zero at every pixel outside the annulus, whatever the polar function *)
Theorem C13_masked_rendering_is_zero_outside : forall G K pol ri nr npp ncp i j, (i < ncp)%nat -> (j < ncp)%nat ->
  let x := car_coord (ROps G K) ncp j in let y := car_coord (ROps G K) ncp i in
  ~ (ri * ri <= x * x + y * y <= 1) -> kl_pixel (ROps G K) pol ri nr npp ncp true i j = 0.
Proof.
  intros G K pol ri nr npp ncp i j Hi Hj x y Hout. unfold kl_pixel.
  destruct (pupil_is_annulus_indicator G K ncp ri i j Hi Hj) as [_ H0]. specialize (H0 Hout).
  pose proof (masked_zero_outside G K pol ncp ri i j
                (geom_cr (ROps G K) ncp ri nr i j) (geom_cp (ROps G K) ncp npp i j) Hi Hj Hout) as M.
  unfold ent in H0, M.
  unfold pupil in H0, M. rewrite (Dft_proofs.nth_map_seq _ ncp i) in H0, M by exact Hi.
  rewrite (Dft_proofs.nth_map_seq _ ncp j) in H0, M by exact Hj. exact M.
Qed.

(* the resampled value is a convex combination of four polar samples: it stays within the range of the polar
   function, and is the sample itself at integer polar coordinates *)
Theorem C13_rendering_is_bilinear_resampling : forall G K nrw ncl (pol : list (list R)),
  wf_mat nrw ncl pol -> (0 < nrw)%nat -> (0 < ncl)%nat ->
  (forall r c m M, (forall i j, (i < nrw)%nat -> (j < ncl)%nat -> m <= ent pol i j <= M) ->
     m <= bilinear (ROps G K) pol r c <= M) /\
  (forall zi zj, bilinear (ROps G K) pol (IZR zi) (IZR zj) = bl_at pol zi zj).
Proof.
  intros G K nrw ncl pol W Hr Hc; split.
  - intros r c m M H. eapply bilinear_in_range; eassumption.
  - intros; apply bilinear_exact_on_grid.
Qed.

(* the premises above are jointly satisfiable (nr = 2, four modes: a sine/cosine pair, the piston-free order-0
   mode, and the first member of a cut pair) *)
Example C13_nonvacuous : forall G K,
  exists (sorted : list nat) (kers : list (list (list R))) (v0 : list (list R)) (vsp : nat -> list (list R)) (pmax nord npp : nat),
    NoDup sorted /\ (forall x, In x sorted -> (x < 2 * S pmax)%nat) /\ (2 * pmax < nord)%nat /\ (2 * pmax < npp)%nat /\
    (forall a b, (a < 2 - 1)%nat -> (b < 2 - 1)%nat ->
       rsum (fun j => ent v0 j a * ent v0 j b) (2 - 1) = if (a =? b)%nat then 1 else 0) /\
    nth 0 kers [] = radial0 (ROps G K) 2 v0 /\
    (forall p, (1 <= p <= pmax)%nat ->
       wf_mat 2 2 (vsp p) /\
       (forall a b, (a < 2)%nat -> (b < 2)%nat ->
          rsum (fun k => ent (vsp p) k a * ent (vsp p) k b) 2 = if (a =? b)%nat then 1 else 0) /\
       nth p kers [] = radialp (ROps G K) 2 (vsp p)) /\
    oind 2 4 sorted = [2; 2; 0; 3]%nat /\ oord 2 (oind 2 4 sorted) = [2; 1; 0; 1]%nat.
Proof. exact kl_modes_premises_satisfiable. Qed.
