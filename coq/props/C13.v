From Coq Require Import List.
Require Import AOV.base.Num AOV.model.KL.
Theorem C13_placeholder : True. Proof. exact I. Qed.
