(* C03 -- Covariance construction is independent of process count and scheduling; no state between
   builds.  Proved for EVERY numeric carrier (no arithmetic law used): hence bit-identity at binary64/32. *)
From Coq Require Import List Arith Permutation.
Require Import AOV.base.Num AOV.base.Cplx AOV.model.Mat AOV.model.SlopeCov AOV.proofs.C03_proofs.
Import ListNotations.

(* multiprocessing.Pool.map contract: results are delivered in submission order whatever the
   completion order *)
Theorem C03_pool_map_schedule_independent : forall A B (f : A -> B) args sched,
  Permutation sched (seq 0 (length args)) -> pool_map f args sched = map (fun a => Some (f a)) args.
Proof. exact pool_map_sched_indep. Qed.
Print Assumptions C03_pool_map_schedule_independent.

(* ... and the hypothesis is exactly "no task lost" *)
Theorem C03_pool_map_iff_no_task_lost : forall A B (f : A -> B) args sched,
  pool_map f args sched = map (fun a => Some (f a)) args <-> (forall i, i < length args -> In i sched).
Proof. exact pool_map_sched_indep_iff. Qed.

Theorem C03_multiprocess_equals_sequential : forall T (O : NumOps T) D ws ls scheds,
  length scheds = length ls ->
  Forall (fun s => Permutation s (seq 0 (length (pairs (length ws))))) scheds ->
  make_covariance_matrix_mp O D ws ls scheds = make_covariance_matrix O D ws ls.
Proof. intros T O. exact (@C03_mp_eq_seq T O). Qed.
Print Assumptions C03_multiprocess_equals_sequential.

Theorem C03_tasks_are_the_lower_triangle : forall n,
  NoDup (pairs n) /\ (forall i j, In (i, j) (pairs n) <-> j <= i /\ i < n) /\ length (pairs n) = n * (n + 1) / 2.
Proof. exact pairs_enumerates. Qed.

(* any history of SetThreads / Build / Recon on one object: every Build returns the reference matrix *)
Theorem C03_no_state_between_builds : forall T (O : NumOps T) D ws ls ops s0 scheds M,
  Forall (@op_ok T ws ls) ops ->
  In (Build scheds, Some M) (snd (run O D ws ls s0 ops)) -> M = make_covariance_matrix O D ws ls.
Proof. intros T O. exact (@build_history_indep T O). Qed.
Print Assumptions C03_no_state_between_builds.

Example C03_nonvacuous : Permutation [2;0;1] (seq 0 (length (pairs 2))) /\ pool_map S [10;20;30] [2;0;1] = [Some 11; Some 21; Some 31].
Proof. split; [|reflexivity]. simpl. apply perm_trans with [0;2;1]; [apply perm_swap|]. constructor. apply perm_swap. Qed.
