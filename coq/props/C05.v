(* C05 -- Infinite screen evolves by exactly one row per step, for any history.
   Proved for EVERY numeric carrier (pure list reasoning), so also for the binary64 screen. *)
From Coq Require Import List Arith.
Require Import AOV.base.Num AOV.base.Cplx AOV.model.Mat AOV.model.InfScreen AOV.proofs.C05_proofs.
Import ListNotations.

(* shape invariant over any number of add-row steps (also when the working size exceeds the
   requested one: req <= nxs, req <= sl) *)
Theorem C05_shape_invariant : forall T (s : @screen T) rows,
  wf_screen s -> Forall (fun r => nxs s <= length r) rows ->
  wf_screen (fold_left add_row_state rows s) /\ wf_mat (req s) (req s) (exposed (fold_left add_row_state rows s)).
Proof. intros T s rows Hw Hr. pose proof (run_wf rows s Hw Hr) as H. split; [exact H|].
  pose proof (exposed_shape _ H) as E. rewrite (proj2 (proj2 (run_geom rows s))) in E. exact E. Qed.
Print Assumptions C05_shape_invariant.

(* one step: previous exposed screen shifted down by exactly one row, new row at index 0 *)
Theorem C05_one_row_per_step : forall T (s : @screen T) row,
  wf_screen s -> nxs s <= length row -> 0 < req s ->
  exposed (add_row_state s row) = firstn (req s) row :: removelast (exposed s).
Proof. intros T. exact (@exposed_shift T). Qed.
Print Assumptions C05_one_row_per_step.

(* k steps: the k newest rows on top (newest first), the rest is the old screen shifted by k *)
Theorem C05_after_k_steps : forall T (s : @screen T) rows,
  wf_screen s -> Forall (fun r => nxs s <= length r) rows -> length rows <= req s ->
  exposed (fold_left add_row_state rows s) = map (firstn (req s)) (rev rows) ++ firstn (req s - length rows) (exposed s).
Proof. intros T s rows. exact (@exposed_after_k T rows s). Qed.
Print Assumptions C05_after_k_steps.

(* both variants' steps are such row additions and keep the invariant *)
Theorem C05_steps_keep_invariant : forall T (O : NumOps T) A B stencil (s : @screen T) b,
  wf_screen s -> length A = nxs s -> length B = nxs s ->
  wf_screen (step_vk O A B stencil s b) /\ wf_screen (step_fried O A B stencil s b).
Proof. intros; split; [apply step_vk_wf|apply step_fried_wf]; assumption. Qed.
Print Assumptions C05_steps_keep_invariant.

Example C05_nonvacuous : wf_screen {| sl := 2; nxs := 3; req := 2; data := [[1;2;3];[4;5;6]] |}
  /\ exposed (add_row_state {| sl := 2; nxs := 3; req := 2; data := [[1;2;3];[4;5;6]] |} [7;8;9]) = [[7;8];[1;2]].
Proof. split; [repeat split; repeat constructor|reflexivity]. Qed.
