(* C05 -- Infinite screen evolves by exactly one row per step, for any history.
   Proved for EVERY numeric carrier (pure list reasoning), so also for the binary64 screen. *)
From Coq Require Import List Arith Reals.
Require Import AOV.base.Num AOV.base.NumR AOV.base.Cplx AOV.model.Mat AOV.model.InfScreen AOV.proofs.Mat_proofs AOV.proofs.C05_proofs
               AOV.proofs.C05_stationary.
Import ListNotations.

(* shape invariant over any number of add-row steps (also when the working size exceeds the
   requested one: req <= nxs, req <= sl) *)
Theorem C05_shape_invariant : forall T (s : @screen T) rows,
  wf_screen s -> Forall (fun r => nxs s <= length r) rows ->
  wf_screen (fold_left add_row_state rows s) /\ wf_mat (req s) (req s) (exposed (fold_left add_row_state rows s)).
Proof. intros T s rows Hw Hr. pose proof (run_wf rows s Hw Hr) as H. split; [exact H|].
  pose proof (exposed_shape _ H) as E. rewrite (proj2 (proj2 (run_geom rows s))) in E. exact E. Qed.
Print Assumptions C05_shape_invariant.

(* one step: previous exposed screen shifted down by exactly one row, new row at index 0 *)
Theorem C05_one_row_per_step : forall T (s : @screen T) row,
  wf_screen s -> nxs s <= length row -> 0 < req s ->
  exposed (add_row_state s row) = firstn (req s) row :: removelast (exposed s).
Proof. intros T. exact (@exposed_shift T). Qed.
Print Assumptions C05_one_row_per_step.

(* k steps: the k newest rows on top (newest first), the rest is the old screen shifted by k *)
Theorem C05_after_k_steps : forall T (s : @screen T) rows,
  wf_screen s -> Forall (fun r => nxs s <= length r) rows -> length rows <= req s ->
  exposed (fold_left add_row_state rows s) = map (firstn (req s)) (rev rows) ++ firstn (req s - length rows) (exposed s).
Proof. intros T s rows. exact (@exposed_after_k T rows s). Qed.
Print Assumptions C05_after_k_steps.

(* both variants' steps are such row additions and keep the invariant *)
Theorem C05_steps_keep_invariant : forall T (O : NumOps T) A B stencil (s : @screen T) b,
  wf_screen s -> length A = nxs s -> length B = nxs s ->
  wf_screen (step_vk O A B stencil s b) /\ wf_screen (step_fried O A B stencil s b).
Proof. intros; split; [apply step_vk_wf|apply step_fried_wf]; assumption. Qed.
Print Assumptions C05_steps_keep_invariant.

(* ---- stationarity of the von Karman variant (second-moment algebra over R) ----
   One step replaces the stencil vector Z (the first nc rows, row-major) by  Z' = F Z + Gm b  with F = [A ; selection of
   the first nc-1 rows] and Gm = [B ; 0]: *)
Theorem C05_step_updates_the_stencil_vector : forall T (O : NumOps T) (A B : @mat T) nx nc (s : @screen T) (b : list T),
  wf_screen s -> nxs s = nx -> (0 < nc <= sl s)%nat -> length A = nx -> length B = nx ->
  let Z := stencil_data O (data s) (vk_stencil nx nc) in
  stencil_data O (data (step_vk O A B (vk_stencil nx nc) s b)) (vk_stencil nx nc)
  = new_row_vk O A B Z b ++ firstn (nc * nx - nx) Z.
Proof. intros T O. apply (@step_vk_stencil_update T O). Qed.

(* hence covariances propagate as Sigma -> F Sigma F^T + Gm Gm^T (any finite weighted ensemble with unit, uncorrelated
   innovations), and the THEORETICAL von Karman covariance of the stencil -- built by the model from the true pixel
   separations -- is a fixed point of that recursion, for every size, pixel scale, r0, L0 and stencil depth, given only
   the LAPACK contracts of C04 (an inverse of Cov_zz, the symmetric factorisation behind B): the statistics, once
   those of the model, stay there however many rows are added.  (Translation invariance of the covariance blocks is
   proved from the model's geometry, not assumed.) *)
Theorem C05_von_karman_covariance_is_stationary : forall G K (nx nc : nat) (ps r0 L0 : R) (Inv u : list (list R)) (W : list R),
  (0 < nx)%nat -> (0 < nc)%nat ->
  let ns := (nc * nx)%nat in
  let C := cov_mat (ROps G K) (all_positions (ROps G K) (vk_stencil nx nc) nx ps) r0 L0 in
  let Czz := cov_zz C ns in let Cxz := cov_xz C ns in
  let Czx := cov_zx C ns in let Cxx := cov_xx C ns in
  wf_mat ns ns Inv -> mmul (ROps G K) Inv Czz = mident (ROps G K) ns ->
  wf_mat nx nx u -> length W = nx -> Forall (fun w => (0 <= w)%R) W ->
  mmul (ROps G K) (mmul (ROps G K) u (mdiag (ROps G K) W)) (transpose u) = BBt (ROps G K) Cxx (A_mat (ROps G K) Cxz Inv) Czx ->
  let A := A_mat (ROps G K) Cxz Inv in
  let B := B_mat (ROps G K) u W in
  cov_step G K (Fmat A ns nx) (Gmat B ns nx) Czz = Czz /\
  forall k, cov_iter G K (Fmat A ns nx) (Gmat B ns nx) Czz k = Czz.
Proof. exact vk_model_stationary. Qed.
Print Assumptions C05_von_karman_covariance_is_stationary.

(* the hypotheses of the abstract fixed-point theorem are jointly satisfiable (an AR(1) instance), and the recursion is
   not the identity map *)
Example C05_stationarity_nonvacuous := fixed_point_ar1.

Example C05_nonvacuous : wf_screen {| sl := 2; nxs := 3; req := 2; data := [[1;2;3];[4;5;6]] |}
  /\ exposed (add_row_state {| sl := 2; nxs := 3; req := 2; data := [[1;2;3];[4;5;6]] |} [7;8;9]) = [[7;8];[1;2]].
Proof. split; [repeat split; repeat constructor|reflexivity]. Qed.
