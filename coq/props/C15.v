(* C15 -- Centroiders locate, shift, scale and batch consistently.
   Model: coq/model/Centroid.v (hand-written, as the code is at the pinned commit incl. the two threshold
   treatments), tied by the correspondence check. *)
From Coq Require Import Reals List Arith PrimFloat.
Require Import AOV.base.Num AOV.base.NumR AOV.base.NumF AOV.base.FloatFun AOV.base.Cplx AOV.model.Centroid AOV.proofs.Mat_proofs AOV.proofs.Dft_proofs AOV.proofs.C15_proofs AOV.proofs.C15_corr.
Import ListNotations.
Local Open Scope R_scope.

Theorem C15_single_bright_pixel : forall G K r c py px a, (py < r)%nat -> (px < c)%nat -> a <> 0 ->
  cog_plain (ROps G K) (spike r c py px a) = (INR px, INR py).
Proof. exact cog_single_pixel. Qed.
Print Assumptions C15_single_bright_pixel.

(* unchanged by a positive factor: with or without threshold, frames and stacks, brightest pixel *)
Theorem C15_scale_invariance : forall G K s thr, 0 < s ->
  (forall m, nonneg m -> cog2d (ROps G K) thr 0 (map (map (fun v => s * v)) m) = cog2d (ROps G K) thr 0 m) /\
  (forall frames, Forall nonneg frames ->
     cogNd (ROps G K) thr 0 (map (map (map (fun v => s * v))) frames) = cogNd (ROps G K) thr 0 frames) /\
  (forall m, brightest_pixel2d (ROps G K) thr (map (map (fun v => s * v)) m) = brightest_pixel2d (ROps G K) thr m).
Proof. intros G K s thr Hs. repeat apply conj; intros; [apply cog2d_scale|apply cogNd_scale|apply brightest_pixel_scale]; assumption. Qed.
Print Assumptions C15_scale_invariance.

(* content moved by (kx, ky) pixels inside a zero frame moves the centroid by exactly (kx, ky) *)
Theorem C15_shift_equivariance : forall G K ky kx c (m : list (list R)), tsum (ROps G K) m <> 0 ->
  cog_plain (ROps G K) (pad_tl ky kx c m)
  = (fst (cog_plain (ROps G K) m) + INR kx, snd (cog_plain (ROps G K) m) + INR ky).
Proof. exact cog_shift. Qed.
Print Assumptions C15_shift_equivariance.

(* a stack gives the per-frame answers: brightest pixel always; centre of gravity per frame of the stack
   path always, and equal to the single-frame path when no threshold is used *)
Theorem C15_stack_equals_frames : forall G K thr mt (frames : list (list (list R))),
  brightest_pixel3d (ROps G K) thr frames = map (brightest_pixel2d (ROps G K) thr) frames /\
  cogNd (ROps G K) thr mt frames = map (fun f => hd (0, 0) (cogNd (ROps G K) thr mt [f])) frames /\
  cogNd (ROps G K) 0 mt frames = map (cog2d (ROps G K) 0 mt) frames.
Proof. intros G K thr mt frames. repeat apply conj;
  [apply (@brightest_pixel3d_per_frame R)|apply (@cogNd_per_frame R)|apply cogNd_cog2d_thr0]. Qed.
Print Assumptions C15_stack_equals_frames.

(* WITH a threshold the single-frame and the stack paths disagree (binary64 witness; known finding) *)
Theorem C15_threshold_frame_vs_stack_refuted :
  (fclose 0x1.0624dd2f1a9fcp-10 1
    (fst (cog2d C15F.OF 0x1.3333333333333p-2 0 C15F.f5))
    (fst (hd (0, 0) (cogNd C15F.OF 0x1.3333333333333p-2 0 [C15F.f5]))))%float = false.
Proof. exact C15F.cog_frame_stack_disagree. Qed.

Theorem C15_quad_cell_mirror : forall G K a b c d, let m := [[a; b]; [c; d]] in
  fst (quadcell (ROps G K) (map (@rev R) m)) = - fst (quadcell (ROps G K) m) /\
  snd (quadcell (ROps G K) (map (@rev R) m)) = snd (quadcell (ROps G K) m) /\
  snd (quadcell (ROps G K) (rev m)) = - snd (quadcell (ROps G K) m) /\
  fst (quadcell (ROps G K) (rev m)) = fst (quadcell (ROps G K) m).
Proof. exact quadcell_mirror. Qed.
Print Assumptions C15_quad_cell_mirror.

(* ---- the FFT correlation map (real arithmetic, every size and padding) ----
   cross_correlate(x, y, p) is |circular cross-correlation| of the zero-padded images, re-centred by fftshift:
   entry (k, l) is |sum_{i,j} x[i + k'][j + l'] y[i][j]| at lag (k', l') = ((k + R - R/2) mod R, (l + C - C/2) mod C),
   R = ny p, C = nx p; out-of-image samples are 0 (the zero padding) *)
Theorem C15_cross_correlate_is_the_shifted_circular_correlation : forall G K ny nx p (x y : list (list R)) k l,
  wf_mat ny nx x -> wf_mat ny nx y -> (1 <= p)%nat ->
  let Rr := (ny * p)%nat in let Cc := (nx * p)%nat in (k < Rr)%nat -> (l < Cc)%nat ->
  nth l (nth k (cross_correlate (ROps G K) x y p) []) 0%R
  = Rabs (dsum (fun i j => (ent x ((i + (k + (Rr - Rr / 2)) mod Rr) mod Rr) ((j + (l + (Cc - Cc / 2)) mod Cc) mod Cc)
                            * ent y i j)%R) ny nx).
Proof. exact cross_correlate_entry_real. Qed.
Print Assumptions C15_cross_correlate_is_the_shifted_circular_correlation.

(* hence the zero-lag term |<x, y>| sits at row (ny p)/2, column (nx p)/2 (integer division), uniquely, for every
   size and padding -- odd sizes included; and for x = y it is the maximum of the map (Cauchy-Schwarz) *)
Theorem C15_zero_lag_sits_at_the_floor_centre : forall G K ny nx p (x y : list (list R)),
  wf_mat ny nx x -> wf_mat ny nx y -> (0 < ny)%nat -> (0 < nx)%nat -> (1 <= p)%nat ->
  nth (nx * p / 2)%nat (nth (ny * p / 2)%nat (cross_correlate (ROps G K) x y p) []) 0%R
  = Rabs (dsum (fun i j => (ent x i j * ent y i j)%R) ny nx) /\
  (forall k l, (k < ny * p)%nat -> (l < nx * p)%nat ->
     (((k + (ny * p - ny * p / 2)) mod (ny * p) = 0 /\ (l + (nx * p - nx * p / 2)) mod (nx * p) = 0) <->
      (k = ny * p / 2 /\ l = nx * p / 2))%nat).
Proof.
  intros G K ny nx p x y Wx Wy Hy Hx Hp. split.
  - apply cross_correlate_zero_lag_value; assumption.
  - pose proof (cross_correlate_zero_lag_position G K ny nx p x y Wx Wy Hy Hx Hp) as H. cbv zeta in H.
    destruct H as (_ & _ & _ & H). exact H.
Qed.

Theorem C15_autocorrelation_peaks_at_the_floor_centre : forall G K ny nx p (x : list (list R)) k l,
  wf_mat ny nx x -> (1 <= p)%nat -> (k < ny * p)%nat -> (l < nx * p)%nat ->
  (nth l (nth k (cross_correlate (ROps G K) x x p) []) 0 <= nth (nx * p / 2)%nat (nth (ny * p / 2)%nat (cross_correlate (ROps G K) x x p) []) 0)%R.
Proof. intros G K ny nx p x k l W Hp Hk Hl. apply (cross_correlate_auto_peak G K ny nx p x k l); assumption. Qed.

(* an image displaced cyclically by (s, t) from its reference displaces the whole correlation map by (s, t): the
   peak moves by exactly the displacement *)
Theorem C15_correlation_map_moves_with_the_image : forall G K r c s t (X Y : list (list (R * R))) k l,
  wf_mat r c X -> wf_mat r c Y -> (s <= r)%nat -> (t <= c)%nat -> (k < r)%nat -> (l < c)%nat ->
  nth l (nth k (fcorr2 G K (croll2 G K r c s t X) Y) []) (czero (ROps G K))
  = nth ((l + c - t) mod c) (nth ((k + r - s) mod r) (fcorr2 G K X Y) []) (czero (ROps G K)).
Proof. exact correlation_of_rolled_image. Qed.
Print Assumptions C15_correlation_map_moves_with_the_image.

(* correlation centroid of a centred 9x9 spot against itself: 4 for paddings 1 and 3, but 4.5 for
   padding 2 (binary64 witnesses; known finding for odd size with even padding) *)
Theorem C15_correlation_padding_witnesses :
  (C15F.both_close (correlation_centroid1 C15F.OF C15F.spot9 C15F.spot9 0x1.3333333333333p-2 1) 4 = true /\
  C15F.both_close (correlation_centroid1 C15F.OF C15F.spot9 C15F.spot9 0x1.3333333333333p-2 3) 4 = true /\
  C15F.both_close (correlation_centroid1 C15F.OF C15F.spot9 C15F.spot9 0x1.3333333333333p-2 2) 0x1.2p+2 = true)%float.
Proof. repeat apply conj; [exact C15F.corr_centroid_pad1|exact C15F.corr_centroid_pad3|].
  pose proof C15F.corr_centroid_pad2_half_pixel as H. cbv zeta in H.
  apply Bool.andb_true_iff in H. destruct H as [H _]. apply Bool.andb_true_iff in H. destruct H as [H _]. exact H. Qed.

Example C15_nonvacuous : (1 < 3)%nat /\ (2 < 4)%nat /\ 5 <> 0.
Proof. repeat split; try repeat constructor. Lra.lra. Qed.
