From Coq Require Import List.
Require Import AOV.base.Num AOV.model.Centroid.
Theorem C15_placeholder : True. Proof. exact I. Qed.
