(* C08 -- All closed-form turbulence statistics describe one von Karman model.
   Statements about the definitions regenerated from turb.py, slopecovariance.py, karhunenLoeve.py.
   G = Gamma and K = K_nu are arbitrary; facts about them are explicit hypotheses. *)
From Coq Require Import Reals List PrimFloat.
Require Import AOV.base.Num AOV.base.NumR AOV.base.NumF AOV.gen.Gen_turb AOV.gen.Gen_slopecov AOV.gen.Gen_kl
               AOV.proofs.C08_proofs AOV.proofs.C08_float.
Local Open Scope R_scope.

(* structure function = (constant close to 1) x twice (variance - covariance): one shape
   1 - C(x)/C0 with C(x) = x^(5/6) K_{5/6}(x), C0 = 2^(-1/6) Gamma(5/6) *)
Theorem C08_structure_function_is_twice_variance_minus_covariance :
  forall G K r r0 L0, 0 <= r -> 0 < r0 -> 0 < L0 -> 0 < G (5/6) ->
  2 * (Rpower (L0 / r0) (5/3) * B1 G * B2 G * C0 G - phase_covariance (ROps G K) r r0 L0)
  = (2 * B1 G * B2 G * C0 G) / (17253/100000)
    * structure_function_vk (ROps G K) (r + eps40) r0 L0.
Proof. exact same_shape. Qed.
Print Assumptions C08_structure_function_is_twice_variance_minus_covariance.

(* the two published constants agree to 6.4e-4 relative, and the saturation constant is 0.0863 *)
Theorem C08_constants_agree : forall G : R -> R,
  112878/100000 <= G (5/6) <= 112879/100000 ->
  94065/100000 <= G (11/6) <= 94066/100000 ->
  91816/100000 <= G (6/5) <= 91817/100000 ->
  Rabs (2 * B1 G * B2 G * C0 G - 17253/100000) <= 11/100000
  /\ 8631/100000 <= B1 G * B2 G * C0 G <= 8632/100000.
Proof. exact constant_close. Qed.
Print Assumptions C08_constants_agree.

Theorem C08_vk_shape : forall G K r r0 L0, 0 < r -> 0 < r0 -> 0 < L0 -> 0 < G (5/6) ->
  structure_function_vk (ROps G K) r r0 L0
  = 17253/100000 * Rpower (L0 / r0) (5/3) * (1 - Cfun K (2 * PI * r / L0) / C0 G).
Proof. exact vk_shape. Qed.
Print Assumptions C08_vk_shape.

Theorem C08_copies_agree : forall G K r L0,
  stf_vonKarman (ROps G K) r L0 = structure_function_vk (ROps G K) r 1 L0
  /\ (0 < r -> stf_kolmogorov (ROps G K) r = (68839/68800) * structure_function_kolmogorov (ROps G K) r 1).
Proof. intros; split; [apply copies_equal|apply kolmogorov_copies]. Qed.
Print Assumptions C08_copies_agree.

Theorem C08_r0_scaling : forall G K r r0 L0 s, 0 < r -> 0 < r0 -> 0 < L0 -> 0 < s ->
  structure_function_vk (ROps G K) r (s * r0) L0 = Rpower s (-5/3) * structure_function_vk (ROps G K) r r0 L0
  /\ phase_covariance (ROps G K) r (s * r0) L0 = Rpower s (-5/3) * phase_covariance (ROps G K) r r0 L0
  /\ structure_function_kolmogorov (ROps G K) r (s * r0)
     = Rpower s (-5/3) * structure_function_kolmogorov (ROps G K) r r0.
Proof. intros; repeat apply conj;
  [apply vk_scales_r0|apply cov_scales_r0|apply kolmogorov_scales_r0]; assumption. Qed.
Print Assumptions C08_r0_scaling.

(* full statements "non-decreasing" and "saturates at twice the variance" need monotonicity and
   limits of x^(5/6) K_{5/6}(x) (no Bessel theory available): proved FROM those named facts *)
Definition C08_nondecreasing_stmt (G : R -> R) (K : R -> R -> R) : Prop :=
  forall r1 r2 r0 L0, 0 < r1 <= r2 -> 0 < r0 -> 0 < L0 ->
  structure_function_vk (ROps G K) r1 r0 L0 <= structure_function_vk (ROps G K) r2 r0 L0.
Theorem C08_nondecreasing_partial : forall G K,
  (forall x y, 0 < x <= y -> Cfun K y <= Cfun K x) -> 0 < G (5/6) -> C08_nondecreasing_stmt G K.
Proof. intros G K Hd HG r1 r2 r0 L0 H1 H2 H3. apply vk_nondecreasing_from_C; assumption. Qed.
Print Assumptions C08_nondecreasing_partial.

Theorem C08_bounded_by_saturation_partial : forall G K r r0 L0,
  (forall x, 0 < x -> 0 <= Cfun K x <= C0 G) -> 0 < G (5/6) -> 0 < r -> 0 < r0 -> 0 < L0 ->
  0 <= structure_function_vk (ROps G K) r r0 L0 <= 17253/100000 * Rpower (L0 / r0) (5/3).
Proof. exact vk_bounded_from_C. Qed.
Print Assumptions C08_bounded_by_saturation_partial.

(* "zero at zero separation": refuted for the von Karman copies at the binary64 instance (NaN),
   holds for the Kolmogorov copies *)
Theorem C08_zero_at_zero_refuted :
  PrimFloat.is_nan (structure_function_vk (FOps tbl_zero) 0%float 0x1.999999999999ap-4%float 25%float) = true
  /\ PrimFloat.is_nan (stf_vonKarman (FOps tbl_zero) 0%float 3%float) = true.
Proof. exact vk_at_zero_is_nan. Qed.
Print Assumptions C08_zero_at_zero_refuted.
Theorem C08_zero_at_zero_kolmogorov :
  structure_function_kolmogorov (FOps nil) 0%float 0x1.999999999999ap-4%float = 0%float
  /\ stf_kolmogorov (FOps nil) 0%float = 0%float.
Proof. exact kolmogorov_at_zero. Qed.

(* non-vacuity: an interpretation of Gamma meeting the enclosures exists *)
Example C08_nonvacuous : exists G : R -> R,
  112878/100000 <= G (5/6) <= 112879/100000 /\ 0 < G (5/6).
Proof. exists (fun _ => 1128785/1000000). split; [split|]; Lra.lra. Qed.
