(* C14 -- Pupil masks and sub-aperture selection are exact geometric indicators
   (model: coq/model/Pupil.v, tied bit-exactly to pupil.py / wfslib.py by the correspondence check). *)
From Coq Require Import Reals List Arith Bool.
Require Import AOV.base.Num AOV.base.NumR AOV.model.Pupil AOV.proofs.C14_proofs.
Import ListNotations.
Local Open Scope R_scope.

(* indicator of pixel centres (half-integer coordinates, measured from the middle or the corner)
   within distance r of c *)
Theorem C14_circle_is_indicator : forall (G : R -> R) (K : R -> R -> R) (r : R) (n : nat) (c0 c1 : R) (mid : bool) (i j : nat), (i < n)%nat -> (j < n)%nat ->
  let x := INR j + 1/2 - (if mid then INR n / 2 else 0) in
  let y := INR i + 1/2 - (if mid then INR n / 2 else 0) in
  (nth j (nth i (circle (ROps G K) r n c0 c1 mid) []) 0 = 1 <-> (x - c0) * (x - c0) + (y - c1) * (y - c1) <= r * r) /\
  (nth j (nth i (circle (ROps G K) r n c0 c1 mid) []) 0 = 0 <-> ~ (x - c0) * (x - c0) + (y - c1) * (y - c1) <= r * r).
Proof. intros G K r n c0 c1 mid i j Hi Hj x y. rewrite circle_entry by assumption.
  pose proof (circle_px_spec G K r n c0 c1 mid i j) as S. rewrite !pcoord_R in S. fold x y in S.
  destruct (circle_px (ROps G K) r n c0 c1 mid i j); split; split; intros H; try Lra.lra;
    try (apply S; reflexivity); try (exfalso; Lra.lra);
    try (intros Hc; apply S in Hc; discriminate); try (exfalso; apply H; apply S; reflexivity).
Qed.
Print Assumptions C14_circle_is_indicator.

Theorem C14_nested_in_radius : forall G K r1 r2 n c0 c1 mid i j, 0 <= r1 <= r2 ->
  circle_px (ROps G K) r1 n c0 c1 mid i j = true -> circle_px (ROps G K) r2 n c0 c1 mid i j = true.
Proof. exact circle_nested. Qed.
Print Assumptions C14_nested_in_radius.

Theorem C14_square_symmetries_when_centred : forall G K r n i j, (i < n)%nat -> (j < n)%nat ->
  circle_px (ROps G K) r n 0 0 true i j = circle_px (ROps G K) r n 0 0 true j i /\
  circle_px (ROps G K) r n 0 0 true i (n - 1 - j) = circle_px (ROps G K) r n 0 0 true i j /\
  circle_px (ROps G K) r n 0 0 true (n - 1 - i) j = circle_px (ROps G K) r n 0 0 true i j.
Proof. intros; repeat apply conj; [apply circle_transpose|apply circle_flip_cols|apply circle_flip_rows]; assumption. Qed.
Print Assumptions C14_square_symmetries_when_centred.

Theorem C14_translates_with_integer_shifts : forall G K r n c0 c1 mid i j (k l : nat),
  circle_px (ROps G K) r n (c0 + INR k) (c1 + INR l) mid (i + l) (j + k) = circle_px (ROps G K) r n c0 c1 mid i j.
Proof. exact circle_translate. Qed.
Print Assumptions C14_translates_with_integer_shifts.

Theorem C14_selection_is_threshold_on_mean_and_monotone : forall G K subaps mask t1 t2 e,
  (In e (findActiveSubaps (ROps G K) subaps mask t2) -> t2 <= snd e) /\
  (t1 <= t2 -> In e (findActiveSubaps (ROps G K) subaps mask t2) -> In e (findActiveSubaps (ROps G K) subaps mask t1)).
Proof. intros; split; [apply active_meets_threshold|apply active_threshold_mono]. Qed.
Print Assumptions C14_selection_is_threshold_on_mean_and_monotone.

Theorem C14_fill_factors_agree : forall G K s q (mask : list (list R)) thr, (0 < s)%nat ->
  nrows mask = (s * q)%nat -> ncolsP mask = (s * q)%nat ->
  map snd (findActiveSubaps (ROps G K) s mask thr)
  = computeFillFactor (ROps G K) mask (map fst (findActiveSubaps (ROps G K) s mask thr)) (INR q).
Proof. exact fill_agree. Qed.
Print Assumptions C14_fill_factors_agree.

(* scatter into the 2-D sub-aperture map, read back through the mask: identity (any element type) *)
Theorem C14_scatter_then_gather_is_identity : forall A (z : A) mask (data : list A),
  count_mask mask = length data -> gather (scatter z data mask) mask = data.
Proof. exact @gather_scatter_exact. Qed.
Print Assumptions C14_scatter_then_gather_is_identity.

Example C14_nonvacuous : count_mask [[true; false]; [true; true]] = length [1; 2; 3]
  /\ gather (scatter 0 [1; 2; 3] [[true; false]; [true; true]]) [[true; false]; [true; true]] = [1; 2; 3].
Proof. split; reflexivity. Qed.
