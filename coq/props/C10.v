(* C10 -- Optical propagators are linear and conserve power (model: coq/model/Optics.v, tied to
   aotools/opticalpropagation.py by the correspondence check; transforms: model/Fourier.v). *)
From Coq Require Import Reals List Arith.
Require Import AOV.base.Num AOV.base.NumR AOV.base.Cplx AOV.model.Fourier AOV.model.Optics
               AOV.proofs.C10_proofs AOV.proofs.C10_linear.
Local Open Scope R_scope.

(* sum |U_out|^2 d_out^2 = sum |U_in|^2 d_in^2, any complex field on any N x N grid, either sign of z *)
Theorem C10_power_angular_spectrum : forall G K N (U : list (list (R * R))) wvl d1 d2 z,
  wf_mat N N U -> (0 < N)%nat -> z <> 0 -> d1 <> 0 -> d2 <> 0 ->
  energy2 (ROps G K) (angularSpectrum (ROps G K) U wvl d1 d2 z) * (d2 * d2)
  = energy2 (ROps G K) U * (d1 * d1).
Proof. exact AS_power. Qed.
Print Assumptions C10_power_angular_spectrum.

Theorem C10_power_one_step : forall G K N (U : list (list (R * R))) wvl d1 z,
  wf_mat N N U -> (0 < N)%nat -> wvl <> 0 -> z <> 0 -> d1 <> 0 ->
  let d2 := wvl * z / (INR N * d1) in
  energy2 (ROps G K) (oneStepFresnel (ROps G K) U wvl d1 z) * (d2 * d2)
  = energy2 (ROps G K) U * (d1 * d1).
Proof. exact oneStep_power. Qed.
Print Assumptions C10_power_one_step.

Theorem C10_power_two_step : forall G K N (U : list (list (R * R))) wvl d1 d2 z,
  wf_mat N N U -> (0 < N)%nat -> wvl <> 0 -> z <> 0 -> d1 <> 0 -> d2 <> 0 ->
  energy2 (ROps G K) (twoStepFresnel (ROps G K) U wvl d1 d2 z) * (d2 * d2)
  = energy2 (ROps G K) U * (d1 * d1).
Proof. exact twoStep_power. Qed.
Print Assumptions C10_power_two_step.

Theorem C10_power_lens : forall G K N (U : list (list (R * R))) wvl d1 f,
  wf_mat N N U -> (0 < N)%nat -> wvl <> 0 -> f <> 0 -> d1 <> 0 ->
  let d2 := wvl * f / (INR N * d1) in
  energy2 (ROps G K) (lensAgainst (ROps G K) U wvl d1 f) * (d2 * d2)
  = energy2 (ROps G K) U * (d1 * d1).
Proof. exact lens_power. Qed.
Print Assumptions C10_power_lens.

(* non-vacuity: a 2 x 2 field meets the hypotheses *)
(* ---- linearity: every propagator maps a U + b V to a P(U) + b P(V), for all complex a b, all N x N fields and
   all real parameters (no side condition at all: also for z = 0, unit magnification, ...) ---- *)
Theorem C10_linear_angular_spectrum : forall G K a b N (U V : list (list (R * R))) wvl d1 d2 z,
  wf_mat N N U -> wf_mat N N V -> (0 < N)%nat ->
  angularSpectrum (ROps G K) (lin2 G K a b U V) wvl d1 d2 z
  = lin2 G K a b (angularSpectrum (ROps G K) U wvl d1 d2 z) (angularSpectrum (ROps G K) V wvl d1 d2 z).
Proof. exact AS_linear. Qed.
Print Assumptions C10_linear_angular_spectrum.

Theorem C10_linear_one_step : forall G K a b N (U V : list (list (R * R))) wvl d1 z,
  wf_mat N N U -> wf_mat N N V -> (0 < N)%nat ->
  oneStepFresnel (ROps G K) (lin2 G K a b U V) wvl d1 z
  = lin2 G K a b (oneStepFresnel (ROps G K) U wvl d1 z) (oneStepFresnel (ROps G K) V wvl d1 z).
Proof. exact oneStep_linear. Qed.

Theorem C10_linear_two_step : forall G K a b N (U V : list (list (R * R))) wvl d1 d2 z,
  wf_mat N N U -> wf_mat N N V -> (0 < N)%nat ->
  twoStepFresnel (ROps G K) (lin2 G K a b U V) wvl d1 d2 z
  = lin2 G K a b (twoStepFresnel (ROps G K) U wvl d1 d2 z) (twoStepFresnel (ROps G K) V wvl d1 d2 z).
Proof. exact twoStep_linear. Qed.
Print Assumptions C10_linear_two_step.

Theorem C10_linear_lens : forall G K a b N (U V : list (list (R * R))) wvl d1 f,
  wf_mat N N U -> wf_mat N N V -> (0 < N)%nat ->
  lensAgainst (ROps G K) (lin2 G K a b U V) wvl d1 f
  = lin2 G K a b (lensAgainst (ROps G K) U wvl d1 f) (lensAgainst (ROps G K) V wvl d1 f).
Proof. exact lens_linear. Qed.

(* lin2 a b U V is the entrywise a*U + b*V *)
Theorem C10_lin2_is_the_linear_combination : forall G K a b (U V : list (list (R * R))),
  lin2 G K a b U V = map2 (map2 (cadd (ROps G K))) (cmulc_m (ROps G K) a U) (cmulc_m (ROps G K) b V).
Proof. reflexivity. Qed.

Example C10_nonvacuous : wf_mat 2 2 (((1,0)::(0,1)::nil)::((2,0)::(0,0)::nil)::nil : list (list (R*R))) /\ (0 < 2)%nat.
Proof. split; [split; [reflexivity|repeat constructor]|repeat constructor]. Qed.
