(* C10 -- Optical propagators conserve power (model: coq/model/Optics.v, tied to
   aotools/opticalpropagation.py by the correspondence check; transforms: model/Fourier.v). *)
From Coq Require Import Reals List Arith.
Require Import AOV.base.Num AOV.base.NumR AOV.base.Cplx AOV.model.Fourier AOV.model.Optics
               AOV.proofs.C10_proofs.
Local Open Scope R_scope.

(* sum |U_out|^2 d_out^2 = sum |U_in|^2 d_in^2, any complex field on any N x N grid, either sign of z *)
Theorem C10_power_angular_spectrum : forall G K N (U : list (list (R * R))) wvl d1 d2 z,
  wf_mat N N U -> (0 < N)%nat -> z <> 0 -> d1 <> 0 -> d2 <> 0 ->
  energy2 (ROps G K) (angularSpectrum (ROps G K) U wvl d1 d2 z) * (d2 * d2)
  = energy2 (ROps G K) U * (d1 * d1).
Proof. exact AS_power. Qed.
Print Assumptions C10_power_angular_spectrum.

Theorem C10_power_one_step : forall G K N (U : list (list (R * R))) wvl d1 z,
  wf_mat N N U -> (0 < N)%nat -> wvl <> 0 -> z <> 0 -> d1 <> 0 ->
  let d2 := wvl * z / (INR N * d1) in
  energy2 (ROps G K) (oneStepFresnel (ROps G K) U wvl d1 z) * (d2 * d2)
  = energy2 (ROps G K) U * (d1 * d1).
Proof. exact oneStep_power. Qed.
Print Assumptions C10_power_one_step.

Theorem C10_power_two_step : forall G K N (U : list (list (R * R))) wvl d1 d2 z,
  wf_mat N N U -> (0 < N)%nat -> wvl <> 0 -> z <> 0 -> d1 <> 0 -> d2 <> 0 ->
  energy2 (ROps G K) (twoStepFresnel (ROps G K) U wvl d1 d2 z) * (d2 * d2)
  = energy2 (ROps G K) U * (d1 * d1).
Proof. exact twoStep_power. Qed.
Print Assumptions C10_power_two_step.

Theorem C10_power_lens : forall G K N (U : list (list (R * R))) wvl d1 f,
  wf_mat N N U -> (0 < N)%nat -> wvl <> 0 -> f <> 0 -> d1 <> 0 ->
  let d2 := wvl * f / (INR N * d1) in
  energy2 (ROps G K) (lensAgainst (ROps G K) U wvl d1 f) * (d2 * d2)
  = energy2 (ROps G K) U * (d1 * d1).
Proof. exact lens_power. Qed.
Print Assumptions C10_power_lens.

(* non-vacuity: a 2 x 2 field meets the hypotheses *)
Example C10_nonvacuous : wf_mat 2 2 (((1,0)::(0,1)::nil)::((2,0)::(0,0)::nil)::nil : list (list (R*R))) /\ (0 < 2)%nat.
Proof. split; [split; [reflexivity|repeat constructor]|repeat constructor]. Qed.
