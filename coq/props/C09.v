(* C09 -- Scaled Fourier transforms are exact inverse pairs obeying Parseval.
   Model: coq/model/Fourier.v (hand-written, tied to aotools/fouriertransform.py and
   turbulence/phasescreen.py by the correspondence check); export table: coq/gen/Gen_exports.v
   (regenerated from the star-import structure of the package on every run). *)
From Coq Require Import Reals Arith String List PrimFloat.
Require Import AOV.base.Num AOV.base.NumR AOV.base.NumF AOV.base.Cplx AOV.model.Fourier
               AOV.gen.Gen_exports AOV.proofs.Dft_proofs AOV.proofs.C09_proofs AOV.proofs.C09_float.
Import ListNotations.
Local Open Scope R_scope.

(* mutual inverses for EVERY length N >= 1 (odd or even), complex input, any spacing with
   delta_f = 1/(N delta) *)
Theorem C09_inverse_1d : forall G K (x : list (R * R)) delta delta_f,
  delta_f * INR (List.length x) * delta = 1 ->
  ift (ROps G K) (ft (ROps G K) x delta) delta_f = x /\ ft (ROps G K) (ift (ROps G K) x delta_f) delta = x.
Proof. intros; split; [apply ift_ft|apply ft_ift]; assumption. Qed.
Print Assumptions C09_inverse_1d.

Theorem C09_inverse_2d : forall G K r c (m : list (list (R * R))) delta delta_f,
  wf_mat r c m -> (0 < r)%nat -> (0 < c)%nat -> delta_f * INR c * delta = 1 ->
  ift2 (ROps G K) (ft2 (ROps G K) m delta) delta_f = m /\ ft2 (ROps G K) (ift2 (ROps G K) m delta_f) delta = m.
Proof. intros; split; [eapply ift2_ft2|eapply ft2_ift2]; eassumption. Qed.
Print Assumptions C09_inverse_2d.

(* any leading batch dimension: each item is transformed on its own *)
Theorem C09_inverse_batches : forall G K delta delta_f,
  (forall xs n, Forall (fun x : list (R * R) => List.length x = n) xs -> delta_f * INR n * delta = 1 ->
     ift_batch (ROps G K) (ft_batch (ROps G K) xs delta) delta_f = xs) /\
  (forall ms r c, Forall (wf_mat r c) ms -> (0 < r)%nat -> (0 < c)%nat -> delta_f * INR c * delta = 1 ->
     ift2_batch (ROps G K) (ft2_batch (ROps G K) ms delta) delta_f = ms).
Proof. intros; split; intros; [eapply ift_ft_batch|eapply ift2_ft2_batch]; eassumption. Qed.
Print Assumptions C09_inverse_batches.

Theorem C09_linear : forall G K a b (x y : list (R * R)) delta, List.length x = List.length y ->
  ft (ROps G K) (map2 (cadd (ROps G K)) (map (cmul (ROps G K) a) x) (map (cmul (ROps G K) b) y)) delta
  = map2 (cadd (ROps G K)) (map (cmul (ROps G K) a) (ft (ROps G K) x delta))
                           (map (cmul (ROps G K) b) (ft (ROps G K) y delta)).
Proof. exact ft_linear. Qed.
Print Assumptions C09_linear.

(* sum |x|^2 delta = sum |X|^2 delta_f *)
Theorem C09_parseval : forall G K (x : list (R * R)) delta delta_f,
  delta_f * INR (List.length x) * delta = 1 ->
  energy (ROps G K) (ft (ROps G K) x delta) * delta_f = energy (ROps G K) x * delta.
Proof. exact parseval_ft. Qed.
Print Assumptions C09_parseval.

(* origin at the centre sample N/2 (floor) in both domains, for EVERY length N >= 1, odd or even
   (hence the shift theorem) *)
Theorem C09_centred_every_length : forall G K (x : list (R * R)) N k delta,
  List.length x = N -> (k < N)%nat ->
  nth k (ft (ROps G K) x delta) (czero (ROps G K))
  = cscale (ROps G K) delta (bigsum (fun n => cmul (ROps G K) (nth n x (czero (ROps G K)))
       (cis (ROps G K) (- (2 * PI) * (INR n - INR (N / 2)) * (INR k - INR (N / 2)) / INR N))) N).
Proof. exact ft_centred_all. Qed.
Print Assumptions C09_centred_every_length.

(* the same in the inverse direction and in two dimensions (every r x c, odd or even) *)
Theorem C09_centred_inverse_every_length : forall G K (X : list (R * R)) N k delta_f,
  List.length X = N -> (k < N)%nat ->
  nth k (ift (ROps G K) X delta_f) (czero (ROps G K))
  = cscale (ROps G K) delta_f (bigsum (fun n => cmul (ROps G K) (nth n X (czero (ROps G K)))
       (cis (ROps G K) (2 * PI * (INR n - INR (N / 2)) * (INR k - INR (N / 2)) / INR N))) N).
Proof. exact ift_centred_all. Qed.

Theorem C09_centred_2d_every_size : forall G K r c (m : list (list (R * R))) k l delta,
  wf_mat r c m -> (k < r)%nat -> (l < c)%nat ->
  nth l (nth k (ft2 (ROps G K) m delta) []) (czero (ROps G K))
  = cscale (ROps G K) (delta * delta) (bigsum (fun i => bigsum (fun j =>
       cmul (ROps G K) (nth j (nth i m []) (czero (ROps G K)))
         (cis (ROps G K) (- (2 * PI) * (INR i - INR (r / 2)) * (INR k - INR (r / 2)) / INR r
                 + - (2 * PI) * (INR j - INR (c / 2)) * (INR l - INR (c / 2)) / INR c))) c) r).
Proof. exact ft2_centred_all. Qed.
Print Assumptions C09_centred_2d_every_size.

(* shift theorem: rolling the input by s samples (numpy.roll) multiplies sample k of the spectrum by the linear
   phase exp(-2 pi i s (k - N/2)/N), for every length *)
Theorem C09_shift_theorem : forall G K (x : list (R * R)) N s k delta,
  List.length x = N -> (s <= N)%nat -> (k < N)%nat ->
  nth k (ft (ROps G K) (roll s x) delta) (czero (ROps G K))
  = cmul (ROps G K) (cis (ROps G K) (- (2 * PI) * INR s * (INR k - INR (N / 2)) / INR N))
         (nth k (ft (ROps G K) x delta) (czero (ROps G K))).
Proof. exact ft_roll. Qed.
Print Assumptions C09_shift_theorem.

Local Close Scope R_scope.
Local Open Scope float_scope.
(* executed at binary64: the centred delta of odd length 5 is mapped to the constant 1 *)
Theorem C09_centred_delta_odd_witness :
  all_close 0x1p-40 1 (cflat (ft F delta5 1)) (cflat [(1,0); (1,0); (1,0); (1,0); (1,0)]) = true.
Proof. exact ft_odd_centred_delta5. Qed.

(* what the package exports: every transform name resolves to the Fourier module *)
Theorem C09_package_exports_fourier_module :
  pkg_ift2_is_phasescreen = false /\
  Forall (fun nm => snd nm = "aotools.fouriertransform"%string) pkg_exports.
Proof. split; [reflexivity|]. repeat (apply Forall_cons; [reflexivity|]). apply Forall_nil. Qed.

(* ... and why it matters: the screen generator's private ift2 agrees with the public one only on
   even square arrays, and is not an inverse of ft2 for odd sizes *)
Theorem C09_private_ift2_only_even_square :
  (forall T (O : NumOps T) n (m : list (list (T * T))) delta_f, wf_mat n n m -> Nat.even n = true -> (0 < n)%nat ->
     ps_ift2 O m delta_f = ift2 O m delta_f) /\
  all_close 0x1p-20 1 (cflat2 (ps_ift2 F (ft2 F m3 1) (1 / 3))) (cflat2 m3) = false.
Proof. split; [intros; eapply ps_ift2_eq_ift2_even_square; eassumption|apply ps_ift2_not_inverse_odd]. Qed.

(* real-input variants: the faithful model is NOT an inverse pair: irft (rft x) = x (N/2+1)/N *)
Theorem C09_real_variants_refuted :
  all_close 0x1p-20 1 (cflat (irft F (rft F x4 1) (1 / 4))) (cflat x4) = false
  /\ all_close 0x1p-40 1 (cflat (irft F (rft F x4 1) (1 / 4))) (cflat (cscale_l F 0.75 x4)) = true.
Proof. exact irft_rft_scale. Qed.

Example C09_nonvacuous : exists (x : list (R * R)) delta delta_f,
  List.length x = 3%nat /\ (delta_f * INR (List.length x) * delta = 1)%R.
Proof. exists [(1,0);(2,0);(3,0)]%R, 1%R, (1/3)%R. split; [reflexivity|]. simpl. Lra.lra. Qed.
