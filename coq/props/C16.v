(* C16 -- Binning, zooming and radial reductions preserve image content.
   Model: coq/model/Interp.v (hand-written; the spline evaluation of zoom_rbs is a parameter with the
   interpolation contract), circle from model/Pupil.v. *)
From Coq Require Import Reals List Arith.
Require Import AOV.base.Num AOV.base.NumR AOV.base.Cplx AOV.model.Pupil AOV.model.Interp
               AOV.proofs.Mat_proofs AOV.proofs.C16_proofs AOV.proofs.C16_zoom_poly AOV.proofs.C16_ee.
Import ListNotations.
Local Open Scope R_scope.

(* binning by n returns exactly the n x n block sums, preserves the total flux, frame by frame in stacks *)
Theorem C16_bin_is_block_sums : forall G K r c (m : list (list R)) n i j,
  wf_mat (r * n) (c * n) m -> (0 < n)%nat -> (i < r)%nat -> (j < c)%nat ->
  ent (bin2d (ROps G K) m n) i j = rsum (fun a => rsum (fun b => ent m (i * n + a) (j * n + b)) n) n.
Proof. exact bin2d_blocks. Qed.
Print Assumptions C16_bin_is_block_sums.

Theorem C16_bin_preserves_flux : forall G K r c n,
  (forall (m : list (list R)), wf_mat (r * n) (c * n) m -> (0 < n)%nat -> sum2 (ROps G K) (bin2d (ROps G K) m n) = sum2 (ROps G K) m) /\
  (forall frames, Forall (wf_mat (r * n) (c * n)) frames -> (0 < n)%nat ->
     map (sum2 (ROps G K)) (binNd (ROps G K) frames n) = map (sum2 (ROps G K)) frames).
Proof. intros G K r c n. split; [intros m; apply bin_flux|intros frames; apply bin_stack_flux]. Qed.
Print Assumptions C16_bin_preserves_flux.

(* zoom from the spline contract "interpolates its nodes": identity at equal size, passes through the
   original samples when the new grid contains the old nodes *)
Theorem C16_zoom_identity_and_nodes : forall G K (spline : list (list R) -> nat -> R -> R -> R),
  (forall m k i j, (i < length m)%nat -> (j < length (hd [] m))%nat -> spline m k (INR i) (INR j) = ent m i j) ->
  forall N (m : list (list R)) k, wf_mat N N m -> (1 < N)%nat ->
  zoom_rbs (ROps G K) spline m N N k = m /\
  forall q a b, (1 <= q)%nat -> (a < N)%nat -> (b < N)%nat ->
    ent (zoom_rbs (ROps G K) spline m (q * (N - 1) + 1) (q * (N - 1) + 1) k) (q * a) (q * b) = ent m a b.
Proof. intros G K spline Hs N m k Hwf HN. split; [apply (zoom_identity G K spline Hs); assumption|].
  intros q a b Hq Ha Hb. apply (zoom_passes_samples G K spline Hs); assumption. Qed.
Print Assumptions C16_zoom_identity_and_nodes.

(* where zoom evaluates the spline: entry (i, j) of an N -> new zoom is the spline at (i (N-1)/(new-1), j (N-1)/(new-1));
   so whatever the spline reproduces on the sample grid (FITPACK: polynomials of degree <= order in each variable) is
   reproduced exactly by zoom on the new grid, and zoom is linear in the data whenever the spline is (complex data =
   real part + i * imaginary part, each zoomed separately) *)
Theorem C16_zoom_is_exact_for_what_the_spline_reproduces : forall G K (spline : list (list R) -> nat -> R -> R -> R)
    (P : R -> R -> R) N (m : list (list R)) k new,
  wf_mat N N m -> (0 < N)%nat -> (1 < new)%nat ->
  (forall x y, spline m k x y = P x y) ->
  forall i j, (i < new)%nat -> (j < new)%nat ->
  ent (zoom_rbs (ROps G K) spline m new new k) i j = P (INR i * INR (N - 1) / INR (new - 1)) (INR j * INR (N - 1) / INR (new - 1)).
Proof. exact zoom_reproduces. Qed.
Print Assumptions C16_zoom_is_exact_for_what_the_spline_reproduces.

Theorem C16_zoom_is_linear_when_the_spline_is : forall G K (spline : list (list R) -> nat -> R -> R -> R)
    N (m1 m2 m12 : list (list R)) a b k new,
  wf_mat N N m1 -> wf_mat N N m2 -> wf_mat N N m12 -> (0 < N)%nat -> (1 < new)%nat ->
  (forall x y, spline m12 k x y = a * spline m1 k x y + b * spline m2 k x y) ->
  forall i j, (i < new)%nat -> (j < new)%nat ->
  ent (zoom_rbs (ROps G K) spline m12 new new k) i j
  = a * ent (zoom_rbs (ROps G K) spline m1 new new k) i j + b * ent (zoom_rbs (ROps G K) spline m2 new new k) i j.
Proof. exact zoom_linear. Qed.

(* azimuthal average: a constant image gives that constant; every value lies within the data range *)
Theorem C16_azimuthal_average : forall G K n (data : list (list R)), wf_mat n n data ->
  (forall c, (forall a b, (a < n)%nat -> (b < n)%nat -> ent data a b = c) ->
     azimuthal_average (ROps G K) data = repeat c (n / 2)) /\
  (forall lo hi i, (forall a b, (a < n)%nat -> (b < n)%nat -> lo <= ent data a b <= hi) -> (i < n / 2)%nat ->
     lo <= nth i (azimuthal_average (ROps G K) data) 0 <= hi).
Proof. intros G K n data Hwf. split; [intros c Hc; apply (azimuthal_const_all G K n data c Hwf Hc)|].
  intros lo hi i Hb Hi. apply (azimuthal_bounds G K n data lo hi i Hwf Hb Hi). Qed.
Print Assumptions C16_azimuthal_average.

(* encircled energy of a non-negative image: within [0,1], non-decreasing in the radius, 0 for an empty mask *)
Theorem C16_encircled_energy_curve : forall G K n (data : list (list R)) xc yc, wf_mat n n data ->
  (forall i j, (i < n)%nat -> (j < n)%nat -> 0 <= ent data i j) -> 0 < sum2 (ROps G K) data ->
  (forall r, 0 <= ee_val G K data xc yc r <= 1) /\
  (forall r1 r2, 0 <= r1 <= r2 -> ee_val G K data xc yc r1 <= ee_val G K data xc yc r2) /\
  (forall r, (forall i j, (i < 2 * (n / 2))%nat -> (j < 2 * (n / 2))%nat -> circle_px (ROps G K) r (2 * (n / 2)) xc yc false i j = false) ->
     ee_val G K data xc yc r = 0) /\
  (forall rads, map snd (ee_curve (ROps G K) data xc yc rads) = map (ee_val G K data xc yc) rads).
Proof. intros G K n data xc yc Hwf Hnn Hpos. repeat apply conj.
  - apply (ee_range G K n data xc yc Hwf Hnn Hpos).
  - apply (ee_monotone G K n data xc yc Hwf Hnn Hpos).
  - intros r He. apply (ee_empty_zero G K n data xc yc r Hwf He).
  - intros rads. apply ee_curve_snd. Qed.
Print Assumptions C16_encircled_energy_curve.

(* what encircled_energy RETURNS -- the curve resampled by numpy.interp on linspace(0, dim, 4 dim) -- starts at (0, 0),
   stays within [0, 1] and never decreases, for every non-negative image, centre and non-decreasing list of radii; the
   reported diameter is the first grid point at which the curve is closest to the requested fraction *)
Theorem C16_returned_encircled_energy_curve : forall G K n (data : list (list R)) xc yc rads,
  wf_mat n n data -> (forall i j, (i < n)%nat -> (j < n)%nat -> 0 <= ent data i j) -> 0 < sum2 (ROps G K) data ->
  Sorted.StronglySorted Rle rads -> Forall (fun r => 0 <= r) rads ->
  ((0 < n / 2)%nat -> hd_error (ee_interp (ROps G K) data xc yc rads) = Some (0, 0)) /\
  (forall q, In q (ee_interp (ROps G K) data xc yc rads) -> 0 <= snd q <= 1) /\
  Sorted.StronglySorted Rle (map snd (ee_interp (ROps G K) data xc yc rads)) /\
  Sorted.StronglySorted Rle (map fst (ee_interp (ROps G K) data xc yc rads)).
Proof.
  intros G K n data xc yc rads Hwf Hpos Htot Hrs Hr0. split; [|split; [|split]].
  - intros Hn. apply (ee_interp_starts_at_zero G K n); assumption.
  - intros q Hq. apply (ee_interp_range G K n data xc yc rads Hwf Hpos Htot q Hq).
  - apply (ee_interp_monotone G K n data xc yc rads Hwf Hpos Htot Hrs Hr0).
  - apply ee_interp_grid_sorted.
Qed.
Print Assumptions C16_returned_encircled_energy_curve.

Theorem C16_encircled_energy_diameter : forall G K (data : list (list R)) xc yc rads fraction, (0 < length data / 2)%nat ->
  exists k, (k < length (ee_interp (ROps G K) data xc yc rads))%nat /\
    let c := ee_interp (ROps G K) data xc yc rads in let q := nth k c (0, 0) in
    In q c /\ ee_diameter (ROps G K) data xc yc rads fraction = fst q /\
    (forall q', In q' c -> Rabs (snd q - fraction) <= Rabs (snd q' - fraction)) /\
    (forall i, (i < k)%nat -> Rabs (snd q - fraction) < Rabs (snd (nth i c (0, 0)) - fraction)).
Proof. exact ee_diameter_spec. Qed.

(* numpy.interp as modelled: within the range of the node values, monotone for monotone node values *)
Theorem C16_interp_is_bounded_and_monotone : forall G K x y xp fp m M, length xp = length fp -> (1 <= length xp)%nat ->
  (Forall (fun f => m <= f <= M) fp -> m <= np_interp (ROps G K) x xp fp <= M) /\
  (Sorted.StronglySorted Rle fp -> x <= y -> np_interp (ROps G K) x xp fp <= np_interp (ROps G K) y xp fp).
Proof. intros G K x y xp fp m M Hl H1; split; [intros H; apply np_interp_bounds; assumption|intros Hs Hxy; apply np_interp_monotone; assumption]. Qed.

Example C16_nonvacuous : wf_mat (1 * 2) (2 * 2) [[1;2;3;4];[5;6;7;8]] /\ (0 < 2)%nat.
Proof. split; [split; [reflexivity|repeat constructor]|repeat constructor]. Qed.
