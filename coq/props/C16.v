From Coq Require Import List.
Require Import AOV.base.Num AOV.model.Interp.
Theorem C16_placeholder : True. Proof. exact I. Qed.
