(* C17 -- Atmospheric and photometric conversions are mutually inverse and scale right.
   Property theorems only; every statement is about the definitions regenerated from
   /repo/aotools/turbulence/atmos_conversions.py and /repo/aotools/astronomy/_astronomy.py
   (coq/gen), read over the real numbers, for arbitrary interpretations G, K of Gamma and K_nu. *)
From Coq Require Import Reals List Lra.
Require Import AOV.base.Num AOV.base.NumR AOV.gen.Gen_atmos AOV.gen.Gen_astro AOV.proofs.C17_proofs.
Import ListNotations.
Local Open Scope R_scope.

Theorem C17_cn2_r0_inverse : forall G K cn2 r0 lam, 0 < cn2 -> 0 < r0 -> 0 < lam ->
  r0_to_cn2 (ROps G K) (cn2_to_r0 (ROps G K) cn2 lam) lam = cn2 /\
  cn2_to_r0 (ROps G K) (r0_to_cn2 (ROps G K) r0 lam) lam = r0.
Proof. intros; split; [apply cn2_r0_inv|apply r0_cn2_inv]; assumption. Qed.
Print Assumptions C17_cn2_r0_inverse.

Theorem C17_r0_seeing_inverse : forall G K r0 s lam, 0 < r0 -> 0 < s -> 0 < lam ->
  seeing_to_r0 (ROps G K) (r0_to_seeing (ROps G K) r0 lam) lam = r0 /\
  r0_to_seeing (ROps G K) (seeing_to_r0 (ROps G K) s lam) lam = s.
Proof. intros; split; [apply r0_seeing_inv|apply seeing_r0_inv]; assumption. Qed.
Print Assumptions C17_r0_seeing_inverse.

Theorem C17_cn2_seeing_inverse : forall G K cn2 s lam, 0 < cn2 -> 0 < s -> 0 < lam ->
  seeing_to_cn2 (ROps G K) (cn2_to_seeing (ROps G K) cn2 lam) lam = cn2 /\
  cn2_to_seeing (ROps G K) (seeing_to_cn2 (ROps G K) s lam) lam = s.
Proof. intros; split; [apply cn2_seeing_inv|apply seeing_cn2_inv]; assumption. Qed.
Print Assumptions C17_cn2_seeing_inverse.

Theorem C17_composites_are_compositions : forall G K x lam,
  cn2_to_seeing (ROps G K) x lam = r0_to_seeing (ROps G K) (cn2_to_r0 (ROps G K) x lam) lam /\
  seeing_to_cn2 (ROps G K) x lam = r0_to_cn2 (ROps G K) (seeing_to_r0 (ROps G K) x lam) lam.
Proof. intros; split; [apply cn2_to_seeing_comp|apply seeing_to_cn2_comp]. Qed.
Print Assumptions C17_composites_are_compositions.

Theorem C17_magnitude_flux_inverse_every_band : forall G K be m f,
  In be (FLUX_DICTIONARY (ROps G K)) -> 0 < f ->
  flux_to_magnitude (ROps G K) (magnitude_to_flux (ROps G K) m (snd be)) (snd be) = m /\
  magnitude_to_flux (ROps G K) (flux_to_magnitude (ROps G K) f (snd be)) (snd be) = f.
Proof. exact mag_flux_inv_all_bands. Qed.
Print Assumptions C17_magnitude_flux_inverse_every_band.

Theorem C17_twelve_bands : forall G K, length (FLUX_DICTIONARY (ROps G K)) = 12%nat.
Proof. exact flux_table_twelve. Qed.
Print Assumptions C17_twelve_bands.

Theorem C17_slope_variance_r0_inverse : forall G K r0 w d n, 0 < r0 -> 0 < w -> 0 < d -> (0 < n)%nat ->
  r0_from_slopes (ROps G K) (repeat (slope_variance_from_r0 (ROps G K) r0 w d) n) w d = r0.
Proof. exact slopevar_r0_inv. Qed.
Print Assumptions C17_slope_variance_r0_inverse.

Theorem C17_scaling_laws : forall G K cn2 lam s, 0 < cn2 -> 0 < lam -> 0 < s ->
  cn2_to_r0 (ROps G K) cn2 (s * lam) = Rpower s (6/5) * cn2_to_r0 (ROps G K) cn2 lam /\
  cn2_to_r0 (ROps G K) (s * cn2) lam = Rpower s (-3/5) * cn2_to_r0 (ROps G K) cn2 lam /\
  cn2_to_seeing (ROps G K) cn2 (s * lam) = Rpower s (-1/5) * cn2_to_seeing (ROps G K) cn2 lam.
Proof. intros; repeat apply conj;
  [apply r0_scales_lambda|apply r0_scales_cn2|apply seeing_scales_lambda]; assumption. Qed.
Print Assumptions C17_scaling_laws.

Theorem C17_five_magnitudes_factor_100 : forall G K be m, In be (FLUX_DICTIONARY (ROps G K)) ->
  magnitude_to_flux (ROps G K) (m + 5) (snd be) = magnitude_to_flux (ROps G K) m (snd be) / 100.
Proof. intros G K be m Hin. pose proof (flux_table_positive G K) as HP.
  rewrite Forall_forall in HP. destruct (HP _ Hin) as (_ & H1 & H2).
  apply five_mag_factor_100; assumption. Qed.
Print Assumptions C17_five_magnitudes_factor_100.

Theorem C17_photons_proportional_area_and_time : forall G K m mask p t e s w,
  photons_per_band (ROps G K) m mask p (s * t) e = s * photons_per_band (ROps G K) m mask p t e /\
  photons_per_band (ROps G K) m mask p t e
    = magnitude_to_flux (ROps G K) m e * t * (nsum (ROps G K) mask * (p * p)) /\
  photons_per_mag (ROps G K) m mask p w (s * t) = s * photons_per_mag (ROps G K) m mask p w t /\
  photons_per_mag (ROps G K) m mask p w t
    = 1000 * Rpower 10 (- m / (25/10)) * w * 10 * t * (nsum (ROps G K) mask * (p * p) * (100 * 100)).
Proof. intros; repeat apply conj;
  [apply photons_band_linear_time|apply photons_band_area|apply photons_mag_linear_time|apply photons_mag_area]. Qed.
Print Assumptions C17_photons_proportional_area_and_time.

Theorem C17_single_layer_0314 : forall G K cn2 x lam, 0 < cn2 -> 0 < x -> 0 < lam ->
  coherenceTime (ROps G K) [cn2] [x] lam = kappa * cn2_to_r0 (ROps G K) cn2 lam / x /\
  isoplanaticAngle (ROps G K) [cn2] [x] lam
    = kappa * cn2_to_r0 (ROps G K) cn2 lam / x * (180 * 3600 / PI) /\
  Rabs (kappa / (314/1000) - 1) <= 3/1000.
Proof. intros; repeat apply conj;
  [apply coherence_single|apply isoplanatic_single|apply kappa_is_0314]; assumption. Qed.
Print Assumptions C17_single_layer_0314.

(* non-vacuity: the hypotheses are satisfiable and the table is inhabited *)
Example C17_nonvacuous : exists be, In be (FLUX_DICTIONARY (ROps (fun x => x) (fun _ x => x)))
   /\ 0 < ent1 (snd be) /\ 0 < ent2 (snd be).
Proof. eexists; split; [left; reflexivity|]. unfold ent1, ent2; rops; cbn [fst snd]. split; lra. Qed.
