(* C20 -- Library calls are pure: arguments are never modified, no hidden state.
   The footprint table coq/gen/Gen_effects.v is regenerated from every module of /repo/aotools on each run
   (translate/effects_fp.py) and cross-checked dynamically (harness/pC20.py). *)
From Coq Require Import String List Bool.
Require Import AOV.model.Purity AOV.gen.Gen_effects AOV.proofs.C20_proofs.
Import ListNotations.
Local Open Scope string_scope.

(* the public functions whose footprint is NOT pure on the current tree: the open known finding of C20, plus
   two over-approximations of the syntactic analysis that the dynamic check shows to be pure *)
Definition known_impure : list (string * string) :=
  [ ("aotools.turbulence.profile_compression", "optimal_grouping") ].   (* NumPy's global generator *)
(* repaired in /repo (fix commits de54f5b d3fd2bb 735cafe a0878b3 38ff11a) and therefore no longer excepted: correlation_centroid,
   centre_of_gravity, brightest_pixel, rms_contrast (in-place writes), angularSpectrum (returned its argument for z = 0) *)
Definition over_approximated : list (string * string) :=
  [ ("aotools.functions.karhunenLoeve", "rebin");     (* a[tuple(int arrays)]: advanced indexing copies *)
    ("aotools.interpolation", "zoom") ].              (* interp2d(copy=False): cannot run with the installed SciPy *)

Theorem C20_every_public_function_has_a_pure_footprint_except_known :
  forallb (fun e => negb (f_public e) || entry_pure e || allowed known_impure e || allowed over_approximated e)
          effects_table = true.
Proof. vm_compute. reflexivity. Qed.

(* the full statement is refuted by the faithful table: the listed functions really are flagged *)
Theorem C20_purity_of_all_public_functions_refuted :
  forallb (fun mn => existsb (fun e => same_fn (fst mn) (snd mn) e && negb (entry_pure e)) effects_table) known_impure = true.
Proof. vm_compute. reflexivity. Qed.

(* what purity of the footprints buys, for any semantics consistent with them and any program mixing such
   functions on shared arrays: nothing changes, every result depends on argument values only *)
Theorem C20_pure_programs_change_nothing : forall (V H : Type) (s : sem V H) (d : V), respects V H s ->
  forall prog store h, prog_pure prog -> prog_wf (length store) prog ->
  snd (fst (exec V H s d prog store h)) = store /\ snd (exec V H s d prog store h) = h.
Proof. exact pure_program_changes_nothing. Qed.
Print Assumptions C20_pure_programs_change_nothing.

Theorem C20_equal_calls_equal_results : forall (V H : Type) (s : sem V H) (d : V), respects V H s ->
  forall p1 p2 c store h1 h2 q1 q2,
  prog_pure (p1 ++ c :: q1) -> prog_pure (p2 ++ c :: q2) ->
  prog_wf (length store) (p1 ++ c :: q1) -> prog_wf (length store) (p2 ++ c :: q2) ->
  nth (length p1) (fst (fst (exec V H s d (p1 ++ c :: q1) store h1))) d
  = nth (length p2) (fst (fst (exec V H s d (p2 ++ c :: q2) store h2))) d.
Proof. exact equal_calls_equal_results. Qed.
Print Assumptions C20_equal_calls_equal_results.

Example C20_nonvacuous : existsb (fun e => f_public e && entry_pure e) effects_table = true.
Proof. vm_compute. reflexivity. Qed.
