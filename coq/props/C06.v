(* C06 -- Seeded screens are reproducible and instances are isolated.
   Uses the regenerated footprint table: no screen function (FFT screens, infinite-screen classes) touches
   process-global state, and no other public function does except the listed one; hence, for any semantics
   consistent with the footprints, interleaving other calls cannot change what a seeded screen call returns. *)
From Coq Require Import String List Bool.
Require Import AOV.model.Purity AOV.gen.Gen_effects AOV.proofs.C20_proofs.
Import ListNotations.
Local Open Scope string_scope.

Definition screen_module (e : fentry) : bool :=
  String.eqb (f_module e) "aotools.turbulence.phasescreen" || String.eqb (f_module e) "aotools.turbulence.infinitephasescreen".

(* screens use only the generator they create from `seed` / own per instance *)
Theorem C06_screen_code_touches_no_global_state :
  forallb (fun e => negb (screen_module e) || entry_stateless e) effects_table = true
  /\ existsb (fun e => same_fn "aotools.turbulence.phasescreen" "ft_phase_screen" e) effects_table = true
  /\ existsb (fun e => same_fn "aotools.turbulence.phasescreen" "ft_sh_phase_screen" e) effects_table = true
  /\ existsb (fun e => same_fn "aotools.turbulence.infinitephasescreen" "PhaseScreen.add_row" e) effects_table = true.
Proof. vm_compute. repeat split; reflexivity. Qed.

(* ... and unrelated library calls do not touch it either, with one listed exception *)
Theorem C06_unrelated_calls_touch_no_global_state_except_known :
  forallb (fun e => entry_stateless e
                    || allowed [("aotools.turbulence.profile_compression", "optimal_grouping");
                                ("aotools.turbulence.profile_compression", "_random_grouping")] e) effects_table = true.
Proof. vm_compute. reflexivity. Qed.

(* non-interference: in any program of footprint-pure calls the result of a call is the same wherever it
   stands and whatever is interleaved (hidden state h1, h2 arbitrary) *)
Theorem C06_interleaving_does_not_matter : forall (V H : Type) (s : sem V H) (d : V), respects V H s ->
  forall p1 p2 c store h1 h2 q1 q2,
  prog_pure (p1 ++ c :: q1) -> prog_pure (p2 ++ c :: q2) ->
  prog_wf (length store) (p1 ++ c :: q1) -> prog_wf (length store) (p2 ++ c :: q2) ->
  nth (length p1) (fst (fst (exec V H s d (p1 ++ c :: q1) store h1))) d
  = nth (length p2) (fst (fst (exec V H s d (p2 ++ c :: q2) store h2))) d.
Proof. exact equal_calls_equal_results. Qed.
Print Assumptions C06_interleaving_does_not_matter.

Example C06_nonvacuous : existsb (fun e => screen_module e && f_public e) effects_table = true.
Proof. vm_compute. reflexivity. Qed.
