(* C06 -- Seeded screens are reproducible and instances are isolated.
   Uses the regenerated footprint table: no screen function (FFT screens, infinite-screen classes) touches
   process-global state, and no other public function does except the listed one; hence, for any semantics
   consistent with the footprints, interleaving other calls cannot change what a seeded screen call returns. *)
From Coq Require Import String List Bool.
Require Import AOV.model.Purity AOV.gen.Gen_effects AOV.proofs.C20_proofs AOV.model.SeededObjs AOV.proofs.C06_objs.
From Coq Require Import ZArith.
Import ListNotations.
Local Open Scope string_scope.

Definition screen_module (e : fentry) : bool :=
  String.eqb (f_module e) "aotools.turbulence.phasescreen" || String.eqb (f_module e) "aotools.turbulence.infinitephasescreen".

(* screens use only the generator they create from `seed` / own per instance *)
Theorem C06_screen_code_touches_no_global_state :
  forallb (fun e => negb (screen_module e) || entry_stateless e) effects_table = true
  /\ existsb (fun e => same_fn "aotools.turbulence.phasescreen" "ft_phase_screen" e) effects_table = true
  /\ existsb (fun e => same_fn "aotools.turbulence.phasescreen" "ft_sh_phase_screen" e) effects_table = true
  /\ existsb (fun e => same_fn "aotools.turbulence.infinitephasescreen" "PhaseScreen.add_row" e) effects_table = true.
Proof. vm_compute. repeat split; reflexivity. Qed.

(* ... and unrelated library calls do not touch it either, with one listed exception *)
Theorem C06_unrelated_calls_touch_no_global_state_except_known :
  forallb (fun e => entry_stateless e
                    || allowed [("aotools.turbulence.profile_compression", "optimal_grouping");
                                ("aotools.turbulence.profile_compression", "_random_grouping")] e) effects_table = true.
Proof. vm_compute. reflexivity. Qed.

(* non-interference: in any program of footprint-pure calls the result of a call is the same wherever it
   stands and whatever is interleaved (hidden state h1, h2 arbitrary) *)
Theorem C06_interleaving_does_not_matter : forall (V H : Type) (s : sem V H) (d : V), respects V H s ->
  forall p1 p2 c store h1 h2 q1 q2,
  prog_pure (p1 ++ c :: q1) -> prog_pure (p2 ++ c :: q2) ->
  prog_wf (length store) (p1 ++ c :: q1) -> prog_wf (length store) (p2 ++ c :: q2) ->
  nth (length p1) (fst (fst (exec V H s d (p1 ++ c :: q1) store h1))) d
  = nth (length p2) (fst (fst (exec V H s d (p2 ++ c :: q2) store h2))) d.
Proof. exact equal_calls_equal_results. Qed.
Print Assumptions C06_interleaving_does_not_matter.

Example C06_nonvacuous : existsb (fun e => screen_module e && f_public e) effects_table = true.
Proof. vm_compute. reflexivity. Qed.


(* ---- the generator discipline as a state machine (model/SeededObjs.v): any number of seeded screen objects, the seeded
   FFT calls and the process-global generator, under arbitrary histories.  The generator (mk, draw), the numbers of draws
   and the maps from draws to screens are arbitrary; the model is tied to the code by the history correspondence of
   harness/pC06.py (which outputs are bit-identical, which differ). ---- *)
Section Objects.
  Variables G V S P : Type.
  Variable mk : Z -> G.
  Variable draw : G -> nat -> G * V.
  Variables n_init n_row n_ft : P -> nat.
  Variable init_scr : P -> V -> S.
  Variable row : P -> S -> V -> S.
  Variable ft : P -> V -> S.
  Notation trace := (trace G V S P mk draw n_init n_row n_ft init_scr row ft).
  Notation run := (run G V S P mk draw n_init n_row n_ft init_scr row ft).
  Notation ft_trace := (ft_trace G V S P mk draw n_init n_row n_ft init_scr row ft).
  Notation otrace := (otrace G V S P mk draw n_init n_row init_scr row).

  (* the outputs of an object (initial screen, every row added, every read) are a function of its own history alone:
     whatever is interleaved -- other objects, seeded FFT calls, changes of and draws from the global generator -- and
     whatever the rest of the world holds, also across two objects (a, b) with equal own histories *)
  Theorem C06_object_outputs_depend_on_own_history_only : forall ops1 ops2 w1 w2 a b,
    lookup G S P a (objs G S P w1) = lookup G S P b (objs G S P w2) -> kinds P a ops1 = kinds P b ops2 ->
    trace a w1 ops1 = trace b w2 ops2.
  Proof. exact (interleaving_irrelevant G V S P mk draw n_init n_row n_ft init_scr row ft). Qed.

  Theorem C06_object_trace_is_own_trace : forall ops w id,
    trace id w ops = otrace (lookup G S P id (objs G S P w)) (kinds P id ops).
  Proof. exact (own_history G V S P mk draw n_init n_row n_ft init_scr row ft). Qed.

  (* calling make_initial_screen() again restarts from the seed: what follows equals what followed the construction *)
  Theorem C06_reinitialisation_restarts_from_the_seed : forall x p s ks1 ks2, no_new P ks1 ->
    otrace x (KNew P p s :: (ks1 ++ KReinit P :: ks2)%list) = (otrace x (KNew P p s :: ks1) ++ otrace None (KNew P p s :: ks2))%list.
  Proof. exact (reinit_restarts G V S P mk draw n_init n_row init_scr row). Qed.

  (* the process-global generator is moved by global operations only *)
  Theorem C06_global_generator_is_a_separate_cell : forall ops w w', glob G S P w = glob G S P w' ->
    glob G S P (fst (run w ops)) = glob G S P (fst (run w' (filter (is_global P) ops))).
  Proof. exact (global_cell_separate G V S P mk draw n_init n_row n_ft init_scr row ft). Qed.

  (* seeded FFT screens are functions of (parameters, seed): their outputs ignore the world and everything interleaved *)
  Theorem C06_seeded_fft_calls_are_stateless : forall ops w w', ft_trace w ops = ft_trace w' (filter (is_ft P) ops).
  Proof. exact (ft_calls_stateless G V S P mk draw n_init n_row n_ft init_scr row ft). Qed.
End Objects.
Print Assumptions C06_object_outputs_depend_on_own_history_only.
Print Assumptions C06_reinitialisation_restarts_from_the_seed.
Print Assumptions C06_global_generator_is_a_separate_cell.

(* non-vacuity on the symbolic instance: two objects with one seed, interleaved with a third object, FFT calls and global
   operations, give equal outputs; after Reinit the outputs repeat *)
Example C06_objects_nonvacuous :
  let one := fun _ : nat => 1 in
  let out := s_run one one one [New 0 7 5%Z; GSeed 3%Z; New 1 7 5%Z; AddRow 0; New 2 7 6%Z; GDraw 4; AddRow 1; Ft 9 5%Z; AddRow 2;
                                AddRow 0; Reinit 0; AddRow 1; AddRow 0; Ft 9 5%Z] in
  nth 0 out None = nth 2 out None /\ nth 3 out None = nth 6 out None /\ nth 9 out None = nth 11 out None
  /\ nth 10 out None = nth 0 out None /\ nth 12 out None = nth 3 out None /\ nth 7 out None = nth 13 out None
  /\ nth 4 out None <> nth 0 out None /\ nth 3 out None <> nth 0 out None.
Proof. vm_compute. repeat split; try reflexivity; discriminate. Qed.
