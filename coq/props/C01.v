(* C01 -- Slope covariance matrix equals the true covariance of the WFS slopes.
   Model: coq/model/SlopeCov.v (hand-written, tied by correspondence); compute_covariance_xx/yy/xy and
   structure_function_vk are regenerated from slopecovariance.py on every run (coq/gen/Gen_slopecov.v).
   Proved here: the layout (all x then all y slopes per sensor), that only the lower block triangle is
   written, additivity over layers, the r0^(-5/3) and wavelength-product scalings, when the OR-mirroring is
   sound, the polarisation identity behind "covariance of two finite-difference slopes", and that the
   xx / yy / xy formulas, scaled by r0_scale, ARE the covariances of the physical finite-difference slopes for a
   field with the library's structure function; entry by entry for the matrix of one sensor and one layer;
   and, as theorems, the content of the known findings: the [x, y] block holds the covariance of the MIRRORED
   sub-apertures (right exactly for point-symmetric positions), the [y_i, x_j] block needs the diameters
   exchanged, the xx/yy formulas are exact only for equal diameters.  NOT proved: entry-wise equality for several
   different sensors -- it is false in general (known findings C01-...); inside the guard (identical
   point-symmetric sensors) it is also checked numerically against harness/slopecov_common.spec_matrix. *)
From Coq Require Import Reals List Arith.
Require Import AOV.base.Num AOV.base.NumR AOV.base.Cplx AOV.model.Mat AOV.model.SlopeCov AOV.gen.Gen_slopecov
               AOV.proofs.Mat_proofs AOV.proofs.C01_proofs AOV.proofs.C01_spec.
Import ListNotations.
Local Open Scope R_scope.

(* entries are ordered per sensor as all x-slopes then all y-slopes: every index decomposes uniquely *)
Theorem C01_layout_x_then_y_per_sensor : forall T (ws : list (@wfs T)) d r, (r < total2 ws)%nat ->
  exists ! '(w, a, k), (w < length ws)%nat /\ (a <= 1)%nat /\ (k < n_subaps (nth w ws d))%nat /\
                       r = (offset ws w + a * n_subaps (nth w ws d) + k)%nat.
Proof. intros T. exact (@block_decomp T). Qed.
Print Assumptions C01_layout_x_then_y_per_sensor.

(* only sensor pairs j <= i are written (any numeric carrier); shape is 2 total x 2 total *)
Theorem C01_only_lower_block_triangle_written : forall T (O : NumOps T) D ws ls i j r c,
  (i < j)%nat -> (j < length ws)%nat ->
  (offset ws i <= r < offset ws (S i))%nat -> (offset ws j <= c < offset ws (S j))%nat ->
  gent O (assemble_seq O D ws ls) r c = nzero O.
Proof. intros T O. exact (@assemble_seq_block_triangular T O). Qed.
Print Assumptions C01_only_lower_block_triangle_written.

Theorem C01_additive_over_layers : forall G K D ws ls1 ls2,
  assemble_seq (ROps G K) D ws (ls1 ++ ls2)
  = madd (ROps G K) (assemble_seq (ROps G K) D ws ls1) (assemble_seq (ROps G K) D ws ls2).
Proof. exact assemble_seq_app. Qed.
Print Assumptions C01_additive_over_layers.

Theorem C01_scales_as_r0_minus_five_thirds : forall G K D s ws ls, 0 < s ->
  Forall (fun l => 0 < l_r0 l /\ 0 < l_L0 l) ls ->
  assemble_seq (ROps G K) D ws (map (scale_r0 s) ls) = mscal (Rpower s (-5/3)) (assemble_seq (ROps G K) D ws ls).
Proof. exact assemble_seq_scale_r0. Qed.
Print Assumptions C01_scales_as_r0_minus_five_thirds.

Theorem C01_scales_as_product_of_wavelengths : forall G K D s ws ls,
  assemble_seq (ROps G K) D (map (scale_wvl s) ws) ls = mscal (s * s) (assemble_seq (ROps G K) D ws ls).
Proof. exact assemble_seq_scale_wvl. Qed.
Print Assumptions C01_scales_as_product_of_wavelengths.

(* the bitwise-OR mirroring yields a symmetric matrix provided the two patterns it combines agree
   (one zero, or equal); without that proviso it does not *)
Theorem C01_mirror_symmetric_when_sound : forall G K n (M : list (list R)), wf_mat n n M ->
  (forall i j, (i < n)%nat -> (j < n)%nat -> ent M i j = 0 \/ ent M j i = 0 \/ ent M i j = ent M j i) ->
  msym (mirror (ROps G K) M).
Proof. exact mirror_sym. Qed.
Print Assumptions C01_mirror_symmetric_when_sound.
Theorem C01_mirror_unsound_otherwise : forall G K,
  wf_mat 2 2 mirror_ce /\ ~ msym (mirror (ROps G K) mirror_ce).
Proof. intros G K. destruct (mirror_not_sym_without_proviso G K) as (H1 & _ & _ & _ & H2). split; assumption. Qed.

(* covariance of two phase differences from the structure function (any pre-inner-product space) *)
Theorem C01_polarisation : forall (H : Type) (ip : H -> H -> R) (hsub : H -> H -> H),
  (forall a b, ip a b = ip b a) -> (forall a b c, ip (hsub a b) c = ip a c - ip b c) ->
  forall (P : Type) (phi : P -> H) (a b c d : P),
  ip (hsub (phi a) (phi b)) (hsub (phi c) (phi d))
  = (Dfun H ip hsub P phi a d + Dfun H ip hsub P phi b c - Dfun H ip hsub P phi a c - Dfun H ip hsub P phi b d) / 2.
Proof. exact polarisation. Qed.
Print Assumptions C01_polarisation.

(* the generated xx / yy block formulas are that polarisation for equal diameters *)
Theorem C01_xx_yy_are_the_polarisation_for_equal_diameters : forall G K ux uy d r0 L0,
  compute_covariance_xx (ROps G K) (ux, uy) d d r0 L0
  = structure_function_vk (ROps G K) (vnorm (ux - d) uy) r0 L0 + structure_function_vk (ROps G K) (vnorm (ux + d) uy) r0 L0
    - 2 * structure_function_vk (ROps G K) (vnorm ux uy) r0 L0 /\
  compute_covariance_yy (ROps G K) (ux, uy) d d r0 L0
  = structure_function_vk (ROps G K) (vnorm ux (uy - d)) r0 L0 + structure_function_vk (ROps G K) (vnorm ux (uy + d)) r0 L0
    - 2 * structure_function_vk (ROps G K) (vnorm ux uy) r0 L0.
Proof. intros; split; [apply cov_xx_equal_diam|apply cov_yy_equal_diam]. Qed.
Print Assumptions C01_xx_yy_are_the_polarisation_for_equal_diameters.

(* ---- what each block of the matrix IS, for a phase field with the library's von Karman structure function ----
   The phase is an arbitrary map phi into a real pre-inner-product space (second-moment reading of "random field")
   whose structure function is structure_function_vk of the distance (that such a field exists is Bochner /
   Schoenberg: not provable here, stated as the hypothesis Dphi).  A sub-aperture of diameter d at p measures
   psx = wvl/(2 pi d) * (phi(p + d/2 ex) - phi(p - d/2 ex)) and psy likewise along y. *)
Section C01_blocks_are_slope_covariances.
Variables (G : R -> R) (K : R -> R -> R) (V : Type) (ip : V -> V -> R) (hsub : V -> V -> V).
Hypothesis ip_sym : forall a b, ip a b = ip b a.
Hypothesis ip_sub_l : forall a b c, ip (hsub a b) c = ip a c - ip b c.
Variables (phi : R * R -> V) (r0 L0 : R).
Hypothesis Dphi : forall a b : R * R, ip (hsub (phi a) (phi b)) (hsub (phi a) (phi b))
  = structure_function_vk (ROps G K) (vnorm (fst a - fst b) (snd a - snd b)) r0 L0.
Variable hscal : R -> V -> V.
Hypothesis ip_scal_l : forall a x y, ip (hscal a x) y = a * ip x y.
Local Notation Sx := (psx V hsub phi hscal).
Local Notation Sy := (psy V hsub phi hscal).

(* the scaled block formulas are exactly the covariances of the physical slopes: xx / yy for equal projected
   diameters, the cross formula for ANY two diameters -- with subap1_diam belonging to the x slope of the first
   sensor and subap2_diam to the y slope of the second *)
Theorem C01_scaled_blocks_are_slope_covariances : forall (wi wj : @wfs R) (l : @layer R) (p1 p2 : R * R) d,
  layer_diam (ROps G K) wi l = d -> layer_diam (ROps G K) wj l = d ->
  let u := (fst p2 - fst p1, snd p2 - snd p1) in
  r0_scale (ROps G K) wi wj l * compute_covariance_xx (ROps G K) u d d r0 L0 = ip (Sx (w_wvl wi) p1 d) (Sx (w_wvl wj) p2 d) /\
  r0_scale (ROps G K) wi wj l * compute_covariance_yy (ROps G K) u d d r0 L0 = ip (Sy (w_wvl wi) p1 d) (Sy (w_wvl wj) p2 d) /\
  r0_scale (ROps G K) wi wj l * compute_covariance_xy (ROps G K) u d d r0 L0 = ip (Sx (w_wvl wi) p1 d) (Sy (w_wvl wj) p2 d).
Proof.
  intros wi wj l p1 p2 d Hi Hj u. split; [|split].
  - apply (scaled_block_xx G K V ip hsub ip_sym ip_sub_l phi r0 L0 Dphi hscal ip_scal_l); assumption.
  - apply (scaled_block_yy G K V ip hsub ip_sym ip_sub_l phi r0 L0 Dphi hscal ip_scal_l); assumption.
  - pose proof (scaled_block_xy G K V ip hsub ip_sym ip_sub_l phi r0 L0 Dphi hscal ip_scal_l wi wj l p1 p2) as H.
    rewrite Hi, Hj in H. exact H.
Qed.

(* known finding C01-mixed-diameters, as a theorem: the [y_i, x_j] block needs the cross formula with the two
   diameters EXCHANGED (the code passes them in the same order as for the [x_i, y_j] block), and the xx formula
   with unequal diameters is the slope covariance plus a difference of two structure-function values *)
Theorem C01_cross_block_needs_exchanged_diameters : forall (wi wj : @wfs R) (l : @layer R) (p1 p2 : R * R),
  r0_scale (ROps G K) wi wj l *
    compute_covariance_xy (ROps G K) (fst p2 - fst p1, snd p2 - snd p1) (layer_diam (ROps G K) wj l) (layer_diam (ROps G K) wi l) r0 L0
  = ip (Sy (w_wvl wi) p1 (layer_diam (ROps G K) wi l)) (Sx (w_wvl wj) p2 (layer_diam (ROps G K) wj l)).
Proof. exact (scaled_block_yx G K V ip hsub ip_sym ip_sub_l phi r0 L0 Dphi hscal ip_scal_l). Qed.

Theorem C01_xx_formula_for_unequal_diameters : forall (p1 p2 : R * R) d1 d2,
  let ux := fst p2 - fst p1 in let uy := snd p2 - snd p1 in
  compute_covariance_xx (ROps G K) (ux, uy) d1 d2 r0 L0
  = 2 * ip (sx V hsub phi p1 d1) (sx V hsub phi p2 d2)
    + (structure_function_vk (ROps G K) (vnorm (ux - (d2 - d1) / 2) uy) r0 L0
       - structure_function_vk (ROps G K) (vnorm (ux + (d2 - d1) / 2) uy) r0 L0).
Proof. exact (block_xx_unequal_diam G K V ip hsub ip_sym ip_sub_l phi r0 L0 Dphi). Qed.

(* ---- the assembled matrix of ONE sensor and one layer, entry by entry (a, b < n = number of sub-apertures;
   pos = projected sub-aperture position; pos_plus/pos_minus = the same displaced by the code's 1e-20 offset) ---- *)
Theorem C01_own_blocks_are_slope_covariances : forall D (w : @wfs R) (l : @layer R), l_r0 l = r0 -> l_L0 l = L0 ->
  forall a b, (a < n_subaps w)%nat -> (b < n_subaps w)%nat ->
  let M := assemble_seq (ROps G K) D [w] [l] in let n := n_subaps w in let d := layer_diam (ROps G K) w l in
  ent M a b = ip (Sx (w_wvl w) (pos G K D w l a) d) (Sx (w_wvl w) (pos_plus G K D w l b) d) /\
  ent M (n + a) (n + b) = ip (Sy (w_wvl w) (pos G K D w l a) d) (Sy (w_wvl w) (pos_plus G K D w l b) d) /\
  ent M (n + a) b = ip (Sy (w_wvl w) (pos G K D w l a) d) (Sx (w_wvl w) (pos_plus G K D w l b) d).
Proof.
  intros D w l Hr HL a b Ha Hb M n d. split; [|split].
  - apply (own_xx_entry_is_slope_covariance G K V ip hsub ip_sym ip_sub_l phi r0 L0 Dphi hscal ip_scal_l); assumption.
  - apply (own_yy_entry_is_slope_covariance G K V ip hsub ip_sym ip_sub_l phi r0 L0 Dphi hscal ip_scal_l); assumption.
  - apply (own_yx_entry_is_slope_covariance G K V ip hsub ip_sym ip_sub_l phi r0 L0 Dphi hscal ip_scal_l); assumption.
Qed.

(* known finding C01-xy-block-flipped, as a theorem: the [x, y] block written as fliplr(flipud(cov_xy)) holds the
   cross-covariance of sub-apertures n-1-a and n-1-b, not of a and b; it is the right one exactly when the
   projected positions are point-symmetric about a common centre *)
Theorem C01_xy_block_is_the_covariance_of_the_mirrored_subapertures : forall D (w : @wfs R) (l : @layer R),
  l_r0 l = r0 -> l_L0 l = L0 -> forall a b, (a < n_subaps w)%nat -> (b < n_subaps w)%nat ->
  let M := assemble_seq (ROps G K) D [w] [l] in let n := n_subaps w in let d := layer_diam (ROps G K) w l in
  ent M a (n + b) = ip (Sx (w_wvl w) (pos G K D w l (n - 1 - a)) d) (Sy (w_wvl w) (pos_plus G K D w l (n - 1 - b)) d).
Proof.
  intros D w l Hr HL a b Ha Hb M n d.
  apply (own_xy_entry_is_flipped_slope_covariance G K V ip hsub ip_sym ip_sub_l phi r0 L0 Dphi hscal ip_scal_l); assumption.
Qed.

Theorem C01_xy_block_is_right_for_point_symmetric_positions : forall D (w : @wfs R) (l : @layer R),
  l_r0 l = r0 -> l_L0 l = L0 -> forall cx cy a b,
  (forall k, (k < n_subaps w)%nat ->
     pos G K D w l (n_subaps w - 1 - k) = (cx - fst (pos G K D w l k), cy - snd (pos G K D w l k))) ->
  (a < n_subaps w)%nat -> (b < n_subaps w)%nat ->
  let M := assemble_seq (ROps G K) D [w] [l] in let n := n_subaps w in let d := layer_diam (ROps G K) w l in
  ent M a (n + b) = ip (Sx (w_wvl w) (pos G K D w l a) d) (Sy (w_wvl w) (pos_minus G K D w l b) d).
Proof.
  intros D w l Hr HL cx cy a b Hs Ha Hb M n d.
  apply (own_xy_entry_point_symmetric G K V ip hsub ip_sym ip_sub_l phi r0 L0 Dphi hscal ip_scal_l D w l Hr HL cx cy); assumption.
Qed.

(* Gram structure: any quadratic form of an xx block is 2 |sum_a c_a sx(p_a)|^2 >= 0 (positive semi-definite) *)
Variables (hadd : V -> V -> V) (hzero : V).
Hypothesis ip_add_l : forall x y z, ip (hadd x y) z = ip x z + ip y z.
Hypothesis ip_zero_l : forall z, ip hzero z = 0.
Hypothesis ip_nonneg : forall x, 0 <= ip x x.
Theorem C01_xx_block_is_positive_semidefinite : forall (cs : list (R * (R * R))) d,
  0 <= lsum (map (fun a => lsum (map (fun b => fst a * fst b *
         compute_covariance_xx (ROps G K) (fst (snd b) - fst (snd a), snd (snd b) - snd (snd a)) d d r0 L0) cs)) cs).
Proof. exact (xx_block_psd G K V ip hsub ip_sym ip_sub_l phi r0 L0 Dphi hscal ip_scal_l hadd hzero ip_add_l ip_zero_l ip_nonneg). Qed.
End C01_blocks_are_slope_covariances.
Print Assumptions C01_own_blocks_are_slope_covariances.
Print Assumptions C01_xy_block_is_the_covariance_of_the_mirrored_subapertures.

(* the algebraic hypotheses on (V, ip, hsub, hscal, hadd, hzero) are satisfiable *)
Example C01_slope_space_nonvacuous : exists (V : Type) (ip : V -> V -> R) (hsub : V -> V -> V) (hscal : R -> V -> V) (hadd : V -> V -> V) (hzero : V),
  (forall a b, ip a b = ip b a) /\ (forall a b c, ip (hsub a b) c = ip a c - ip b c) /\
  (forall a x y, ip (hscal a x) y = a * ip x y) /\ (forall x y z, ip (hadd x y) z = ip x z + ip y z) /\
  (forall z, ip hzero z = 0) /\ (forall x, 0 <= ip x x).
Proof. exact slope_space_hypotheses_satisfiable. Qed.

Example C01_nonvacuous : total2 [Build_wfs [[true; true]; [true; false]] 1 0 0 0 1 : @wfs R] = 6%nat.
Proof. reflexivity. Qed.
