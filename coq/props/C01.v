(* placeholder until the C01 theorems land *)
From Coq Require Import List.
Require Import AOV.base.Num AOV.model.SlopeCov.
Theorem C01_placeholder : True. Proof. exact I. Qed.
