(* C01 -- Slope covariance matrix equals the true covariance of the WFS slopes.
   Model: coq/model/SlopeCov.v (hand-written, tied by correspondence); compute_covariance_xx/yy/xy and
   structure_function_vk are regenerated from slopecovariance.py on every run (coq/gen/Gen_slopecov.v).
   Proved here: the layout (all x then all y slopes per sensor), that only the lower block triangle is
   written, additivity over layers, the r0^(-5/3) and wavelength-product scalings, when the OR-mirroring is
   sound, the polarisation identity behind "covariance of two finite-difference slopes", and that the
   xx / yy formulas are that identity for equal sub-aperture diameters.  NOT proved: entry-wise equality
   with the slope covariance for arbitrary sensors -- it is false (known findings C01-...); inside the guard
   (identical point-symmetric sensors) it is checked numerically by the falsifier against
   harness/slopecov_common.spec_matrix. *)
From Coq Require Import Reals List Arith.
Require Import AOV.base.Num AOV.base.NumR AOV.base.Cplx AOV.model.Mat AOV.model.SlopeCov AOV.gen.Gen_slopecov
               AOV.proofs.Mat_proofs AOV.proofs.C01_proofs.
Import ListNotations.
Local Open Scope R_scope.

(* entries are ordered per sensor as all x-slopes then all y-slopes: every index decomposes uniquely *)
Theorem C01_layout_x_then_y_per_sensor : forall T (ws : list (@wfs T)) d r, (r < total2 ws)%nat ->
  exists ! '(w, a, k), (w < length ws)%nat /\ (a <= 1)%nat /\ (k < n_subaps (nth w ws d))%nat /\
                       r = (offset ws w + a * n_subaps (nth w ws d) + k)%nat.
Proof. intros T. exact (@block_decomp T). Qed.
Print Assumptions C01_layout_x_then_y_per_sensor.

(* only sensor pairs j <= i are written (any numeric carrier); shape is 2 total x 2 total *)
Theorem C01_only_lower_block_triangle_written : forall T (O : NumOps T) D ws ls i j r c,
  (i < j)%nat -> (j < length ws)%nat ->
  (offset ws i <= r < offset ws (S i))%nat -> (offset ws j <= c < offset ws (S j))%nat ->
  gent O (assemble_seq O D ws ls) r c = nzero O.
Proof. intros T O. exact (@assemble_seq_block_triangular T O). Qed.
Print Assumptions C01_only_lower_block_triangle_written.

Theorem C01_additive_over_layers : forall G K D ws ls1 ls2,
  assemble_seq (ROps G K) D ws (ls1 ++ ls2)
  = madd (ROps G K) (assemble_seq (ROps G K) D ws ls1) (assemble_seq (ROps G K) D ws ls2).
Proof. exact assemble_seq_app. Qed.
Print Assumptions C01_additive_over_layers.

Theorem C01_scales_as_r0_minus_five_thirds : forall G K D s ws ls, 0 < s ->
  Forall (fun l => 0 < l_r0 l /\ 0 < l_L0 l) ls ->
  assemble_seq (ROps G K) D ws (map (scale_r0 s) ls) = mscal (Rpower s (-5/3)) (assemble_seq (ROps G K) D ws ls).
Proof. exact assemble_seq_scale_r0. Qed.
Print Assumptions C01_scales_as_r0_minus_five_thirds.

Theorem C01_scales_as_product_of_wavelengths : forall G K D s ws ls,
  assemble_seq (ROps G K) D (map (scale_wvl s) ws) ls = mscal (s * s) (assemble_seq (ROps G K) D ws ls).
Proof. exact assemble_seq_scale_wvl. Qed.
Print Assumptions C01_scales_as_product_of_wavelengths.

(* the bitwise-OR mirroring yields a symmetric matrix provided the two patterns it combines agree
   (one zero, or equal); without that proviso it does not *)
Theorem C01_mirror_symmetric_when_sound : forall G K n (M : list (list R)), wf_mat n n M ->
  (forall i j, (i < n)%nat -> (j < n)%nat -> ent M i j = 0 \/ ent M j i = 0 \/ ent M i j = ent M j i) ->
  msym (mirror (ROps G K) M).
Proof. exact mirror_sym. Qed.
Print Assumptions C01_mirror_symmetric_when_sound.
Theorem C01_mirror_unsound_otherwise : forall G K,
  wf_mat 2 2 mirror_ce /\ ~ msym (mirror (ROps G K) mirror_ce).
Proof. intros G K. destruct (mirror_not_sym_without_proviso G K) as (H1 & _ & _ & _ & H2). split; assumption. Qed.

(* covariance of two phase differences from the structure function (any pre-inner-product space) *)
Theorem C01_polarisation : forall (H : Type) (ip : H -> H -> R) (hsub : H -> H -> H),
  (forall a b, ip a b = ip b a) -> (forall a b c, ip (hsub a b) c = ip a c - ip b c) ->
  forall (P : Type) (phi : P -> H) (a b c d : P),
  ip (hsub (phi a) (phi b)) (hsub (phi c) (phi d))
  = (Dfun H ip hsub P phi a d + Dfun H ip hsub P phi b c - Dfun H ip hsub P phi a c - Dfun H ip hsub P phi b d) / 2.
Proof. exact polarisation. Qed.
Print Assumptions C01_polarisation.

(* the generated xx / yy block formulas are that polarisation for equal diameters *)
Theorem C01_xx_yy_are_the_polarisation_for_equal_diameters : forall G K ux uy d r0 L0,
  compute_covariance_xx (ROps G K) (ux, uy) d d r0 L0
  = structure_function_vk (ROps G K) (vnorm (ux - d) uy) r0 L0 + structure_function_vk (ROps G K) (vnorm (ux + d) uy) r0 L0
    - 2 * structure_function_vk (ROps G K) (vnorm ux uy) r0 L0 /\
  compute_covariance_yy (ROps G K) (ux, uy) d d r0 L0
  = structure_function_vk (ROps G K) (vnorm ux (uy - d)) r0 L0 + structure_function_vk (ROps G K) (vnorm ux (uy + d)) r0 L0
    - 2 * structure_function_vk (ROps G K) (vnorm ux uy) r0 L0.
Proof. intros; split; [apply cov_xx_equal_diam|apply cov_yy_equal_diam]. Qed.
Print Assumptions C01_xx_yy_are_the_polarisation_for_equal_diameters.

Example C01_nonvacuous : total2 [Build_wfs [[true; true]; [true; false]] 1 0 0 0 1 : @wfs R] = 6%nat.
Proof. reflexivity. Qed.
