(* C04 -- Infinite phase screen rows follow the exact conditional von Karman law.
   Model: coq/model/InfScreen.v; phase_covariance is the generated Gen_turb definition;
   the Cholesky inverse and the SVD enter through their contracts (hypotheses). *)
From Coq Require Import Reals List Arith.
Require Import AOV.base.Num AOV.base.NumR AOV.base.Cplx AOV.model.Mat AOV.model.InfScreen
               AOV.proofs.Mat_proofs AOV.proofs.C04_proofs.
Import ListNotations.
Local Open Scope R_scope.

(* A Cov(Z,Z) = Cov(X,Z) *)
Theorem C04_A_identity : forall G K (ns nx : nat) (Czz Cxz Inv : list (list R)),
  (0 < ns)%nat -> wf_mat ns ns Czz -> wf_mat nx ns Cxz -> wf_mat ns ns Inv ->
  mmul (ROps G K) Inv Czz = mident (ROps G K) ns ->
  mmul (ROps G K) (A_mat (ROps G K) Cxz Inv) Czz = Cxz.
Proof. exact C04_A. Qed.
Print Assumptions C04_A_identity.

(* A Cov(Z,Z) A^T + B B^T = Cov(X,X), from the SVD contract u diag(W) u^T = Cxx - A Czx, W >= 0 *)
Theorem C04_joint_covariance_preserved :
  forall G K (ns nx : nat) (Czz Cxz Czx Cxx Inv u : list (list R)) (W : list R) (M : list (list R)),
  (0 < ns)%nat -> (0 < nx)%nat ->
  wf_mat ns ns Czz -> wf_mat nx ns Cxz -> wf_mat ns nx Czx -> wf_mat nx nx Cxx -> wf_mat ns ns Inv ->
  mmul (ROps G K) Inv Czz = mident (ROps G K) ns ->
  wf_mat nx nx u -> length W = nx -> Forall (fun w => 0 <= w) W ->
  mmul (ROps G K) (mmul (ROps G K) u (mdiag (ROps G K) W)) (transpose u) = M ->
  msym Czz -> transpose Cxz = Czx ->
  M = BBt (ROps G K) Cxx (A_mat (ROps G K) Cxz Inv) Czx ->
  let A := A_mat (ROps G K) Cxz Inv in
  let B := B_mat (ROps G K) u W in
  madd (ROps G K) (mmul (ROps G K) (mmul (ROps G K) A Czz) (transpose A)) (mmul (ROps G K) B (transpose B)) = Cxx.
Proof. exact C04_joint. Qed.
Print Assumptions C04_joint_covariance_preserved.

(* the covariance blocks are the phase covariance at the true pixel separations *)
Theorem C04_blocks_and_separations : forall G K,
  (forall (ns nx : nat) (C : list (list R)), wf_mat (ns + nx) (ns + nx) C ->
     (forall i j, (i < ns)%nat -> (j < ns)%nat -> ent (cov_zz C ns) i j = ent C i j) /\
     (forall i j, (i < nx)%nat -> (j < nx)%nat -> ent (cov_xx C ns) i j = ent C (ns + i) (ns + j)) /\
     (forall i j, (i < ns)%nat -> (j < nx)%nat -> ent (cov_zx C ns) i j = ent C i (ns + j)) /\
     (forall i j, (i < nx)%nat -> (j < ns)%nat -> ent (cov_xz C ns) i j = ent C (ns + i) j)) /\
  (forall (pts : list (R * R)), msym (separations (ROps G K) pts) /\
     (forall i, (i < length pts)%nat -> ent (separations (ROps G K) pts) i i = 0) /\
     (forall i j, (i < length pts)%nat -> (j < length pts)%nat ->
        ent (separations (ROps G K) pts) i j
        = sqrt ((fst (nth j pts (0,0)) - fst (nth i pts (0,0))) ^ 2
              + (snd (nth j pts (0,0)) - snd (nth i pts (0,0))) ^ 2))).
Proof. intros G K. split; [exact C04_blocks_ent|exact (C04_separations_sym G K)]. Qed.
Print Assumptions C04_blocks_and_separations.

(* row synthesis is affine-linear in (stencil values, innovation) *)
Theorem C04_new_row_is_linear : forall G K (ns nx : nat) (A B : list (list R)) (Z1 Z2 b1 b2 : list R),
  wf_mat nx ns A -> wf_mat nx nx B -> length Z1 = ns -> length Z2 = ns -> length b1 = nx -> length b2 = nx ->
  new_row_vk (ROps G K) A B (vadd (ROps G K) Z1 Z2) (vadd (ROps G K) b1 b2)
  = vadd (ROps G K) (new_row_vk (ROps G K) A B Z1 b1) (new_row_vk (ROps G K) A B Z2 b2).
Proof. exact C04_affine_linear. Qed.
Print Assumptions C04_new_row_is_linear.

(* Fried variant: adding a constant to the whole screen adds exactly that constant to the new row
   (needs no property of A or B) *)
Theorem C04_fried_constant_shift : forall G K (A B : list (list R)) (Z b : list R) (ref c : R),
  new_row_fried (ROps G K) A B (map (fun z => z + c) Z) (ref + c) b
  = map (fun v => v + c) (new_row_fried (ROps G K) A B Z ref b).
Proof. exact C04_fried_shift_gen. Qed.
Print Assumptions C04_fried_constant_shift.

(* internal working size of the Fried variant: the least 2^k + 1 >= nx, for every nx *)
Theorem C04_fried_allowed_size : forall nx, (1 <= nx)%nat ->
  (exists k, find_allowed_size nx = (2 ^ k + 1)%nat /\ (nx <= 2 ^ k + 1)%nat /\ ((0 < k)%nat -> (2 ^ (k - 1) + 1 < nx)%nat)) /\
  (forall j, (nx <= 2 ^ j + 1)%nat -> (find_allowed_size nx <= 2 ^ j + 1)%nat).
Proof. intros nx H. split; [apply C04_allowed_size; exact H|intros j Hj; apply C04_allowed_size_least; assumption]. Qed.
Print Assumptions C04_fried_allowed_size.

Example C04_nonvacuous : find_allowed_size 6 = 9%nat /\ wf_mat 1 1 [[2]].
Proof. split; [reflexivity|split; [reflexivity|repeat constructor]]. Qed.
