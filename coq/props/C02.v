(* C02 -- Tomographic reconstructor is the minimum-variance linear estimator.
   Model: coq/model/Tomo.v (slicing, dot, pinv as a parameter with the Penrose contract). *)
From Coq Require Import Reals List Arith.
Require Import AOV.base.Num AOV.base.NumR AOV.base.Cplx AOV.model.Mat AOV.model.Tomo
               AOV.proofs.Mat_proofs AOV.proofs.C02_proofs.
Import ListNotations.
Local Open Scope R_scope.

(* normal equations on the retained singular subspace P = pinv(K) K, from the Penrose identity
   pinv(K) K pinv(K) = pinv(K) *)
Theorem C02_normal_equations_on_retained_subspace :
  forall G K (pinv : list (list R) -> list (list R)) (C : list (list R)) (n b : nat),
  (0 < n)%nat -> (0 < b)%nat -> wf_mat (2 * n + b) (2 * n + b) C ->
  let Kc := cov_offoff C n in
  let Kp := pinv Kc in
  wf_mat b b Kp ->
  mmul (ROps G K) (mmul (ROps G K) Kp Kc) Kp = Kp ->
  mmul (ROps G K) (mmul (ROps G K) (tomo_recon (ROps G K) pinv C n) Kc) (mmul (ROps G K) Kp Kc)
  = mmul (ROps G K) (cov_onoff C n) (mmul (ROps G K) Kp Kc).
Proof. exact C02_normal_eq_projected. Qed.
Print Assumptions C02_normal_equations_on_retained_subspace.

(* zero conditioning, invertible C_off,off: R C_off,off = C_on,off *)
Theorem C02_normal_equations_full_rank :
  forall G K (pinv : list (list R) -> list (list R)) (C : list (list R)) (n b : nat),
  (0 < n)%nat -> (0 < b)%nat -> wf_mat (2 * n + b) (2 * n + b) C ->
  let Kc := cov_offoff C n in
  let Kp := pinv Kc in
  wf_mat b b Kp -> mmul (ROps G K) Kp Kc = mident (ROps G K) b ->
  mmul (ROps G K) (tomo_recon (ROps G K) pinv C n) Kc = cov_onoff C n.
Proof. exact C02_normal_eq_full. Qed.
Print Assumptions C02_normal_equations_full_rank.

(* no other linear map gives a smaller residual variance (row by row: one on-axis slope) *)
Theorem C02_minimum_variance :
  forall G K (pinv : list (list R) -> list (list R)) (C : list (list R)) (n b i : nat) (s : R) (r' : list R),
  (0 < n)%nat -> (0 < b)%nat -> wf_mat (2 * n + b) (2 * n + b) C ->
  let Kc := cov_offoff C n in
  let Kp := pinv Kc in
  wf_mat b b Kp -> msym Kc -> msym Kp ->
  (forall v, length v = b -> 0 <= qform (ROps G K) Kc v) ->
  mmul (ROps G K) Kp Kc = mident (ROps G K) b ->
  (i < 2 * n)%nat -> length r' = b ->
  let r := nth i (tomo_recon (ROps G K) pinv C n) [] in
  let c := nth i (cov_onoff C n) [] in
  resid_var G K Kc c s r' - resid_var G K Kc c s r = qform (ROps G K) Kc (vsub (ROps G K) r' r)
  /\ resid_var G K Kc c s r <= resid_var G K Kc c s r'.
Proof. exact C02_rows_optimal. Qed.
Print Assumptions C02_minimum_variance.

(* on-axis sensor duplicating off-axis sensor(s): R reproduces the selection, zero weight elsewhere *)
Theorem C02_duplicated_sensor :
  forall G K (pinv : list (list R) -> list (list R)) (C E : list (list R)) (n b : nat),
  (0 < n)%nat -> (0 < b)%nat -> wf_mat (2 * n + b) (2 * n + b) C ->
  let Kc := cov_offoff C n in
  let Kp := pinv Kc in
  wf_mat b b Kp -> wf_mat (2 * n) b E ->
  cov_onoff C n = mmul (ROps G K) E Kc ->
  mmul (ROps G K) Kc Kp = mident (ROps G K) b ->
  tomo_recon (ROps G K) pinv C n = E.
Proof. exact C02_duplicate. Qed.
Print Assumptions C02_duplicated_sensor.

Example C02_nonvacuous : wf_mat (2 * 1 + 1) (2 * 1 + 1) [[2;0;1];[0;2;1];[1;1;3]] /\ (0 < 1)%nat.
Proof. split; [split; [reflexivity|repeat constructor]|constructor]. Qed.
