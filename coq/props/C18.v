(* C18 -- Profile compression conserves the turbulence it compresses.
   Model: coq/model/Compress.v (hand-written: slab edges + digitize assignment of equivalent_layers; contiguous
   groupings, cost, vicinity, local search with 200 iterations and restarts of optimal_grouping), tied to
   aotools/turbulence/profile_compression.py by the correspondence check (harness/pC18.py; equivalent_layers
   bit-exactly, optimal_grouping with the restarts recorded from numpy.random.choice). *)
From Coq Require Import Reals Arith List Sorted PrimFloat Permutation.
Require Import AOV.base.Num AOV.base.NumR AOV.base.NumF AOV.model.Compress AOV.proofs.C18_proofs AOV.proofs.C18_float AOV.proofs.C18_perm.
Import ListNotations.
Local Open Scope R_scope.

(* ---- equivalent layers ---- *)
(* exactly L layers, for every carrier (hence for the binary64 execution) and every input *)
Theorem C18_el_returns_exactly_L_layers : forall T (O : NumOps T) h p w L,
  List.length (equivalent_layers O h p w L) = L.
Proof. intros. apply el_length. Qed.

(* no layer of the input is ever dropped: every slab index lies in 1..L.  The upper bound needs no arithmetic
   law at all (there are exactly L edges), so it also holds for the rounded execution *)
Theorem C18_el_no_index_above_L_any_carrier : forall T (O : NumOps T) (h : list T) L,
  Forall (fun i => (i <= L)%nat) (el_ix O h L).
Proof. intros. apply el_ix_le_L. Qed.

Theorem C18_el_no_layer_dropped : forall G K (h p : list R) L,
  (1 <= L)%nat -> List.length h = List.length p ->
  Forall (fun i => (1 <= i <= L)%nat) (el_ix (ROps G K) h L) /\ kept (el_ix (ROps G K) h L) p L = p.
Proof. intros; split; [apply el_ix_in_range|apply el_no_layer_dropped]; assumption. Qed.
Print Assumptions C18_el_no_layer_dropped.

(* total Cn2 conserved exactly, for any profile (any heights, any strengths, any L >= 1) *)
Theorem C18_el_conserves_total : forall G K (h p w : list R) L,
  (1 <= L)%nat -> List.length h = List.length p ->
  nsum (ROps G K) (map ent1 (equivalent_layers (ROps G K) h p w L)) = nsum (ROps G K) p.
Proof. intros; apply el_total_unconditional; assumption. Qed.
Print Assumptions C18_el_conserves_total.

(* non-negative strengths *)
Theorem C18_el_strengths_nonnegative : forall G K (h p w : list R) L,
  Forall (fun x => 0 <= x) p -> Forall (fun e => 0 <= ent1 e) (equivalent_layers (ROps G K) h p w L).
Proof. intros; apply el_nonneg; assumption. Qed.

(* the 5/3 height moment (isoplanatic angle) and the 5/3 wind moment (coherence time) are conserved, for
   non-negative strengths; empty slabs contribute 0 on both sides *)
Theorem C18_el_conserves_five_thirds_moments : forall G K (h p w : list R) L,
  (1 <= L)%nat -> List.length h = List.length p -> List.length w = List.length p -> Forall (fun x => 0 <= x) p ->
  nsum (ROps G K) (map (fun e => ent1 e * Rpower (ent0 e) (5/3)) (equivalent_layers (ROps G K) h p w L))
  = nsum (ROps G K) (map2 (fun a b => a * Rpower b (5/3)) p h)
  /\
  nsum (ROps G K) (map (fun e => ent1 e * Rpower (ent2 e) (5/3)) (equivalent_layers (ROps G K) h p w L))
  = nsum (ROps G K) (map2 (fun a b => a * Rpower b (5/3)) p w).
Proof. intros; split; [apply el_moment53|apply el_wind53]; assumption. Qed.
Print Assumptions C18_el_conserves_five_thirds_moments.

(* ... and the non-negativity of the strengths cannot be dropped from that statement *)
Theorem C18_el_moments_need_nonnegative_strengths : forall G K,
  exists (h p w : list R) (L : nat),
    List.length h = List.length p /\ List.length w = List.length p /\
    Forall (fun i => (1 <= i <= L)%nat) (el_ix (ROps G K) h L) /\
    Forall (fun e => 0 < ent1 e) (equivalent_layers (ROps G K) h p w L) /\
    Forall (fun x => 0 < x) h /\ Forall (fun x => 0 < x) w /\
    nsum (ROps G K) (map (fun e => ent1 e * Rpower (ent0 e) (5/3)) (equivalent_layers (ROps G K) h p w L))
    <> nsum (ROps G K) (map2 (fun a b => a * Rpower b (5/3)) p h).
Proof. intros; apply el_moment53_refuted. Qed.

(* regression witnesses at binary64 for the inputs on which the code used to lose the top layer (fixed f325263) *)
Theorem C18_el_edge_sensitive_profiles_at_binary64 :
  map (fun NL => el_total_strength (fst NL) (snd NL))
      [(200, 7); (151, 7); (200, 9); (200, 11); (200, 13); (100, 7); (100, 9); (100, 11); (100, 13); (151, 9); (151, 11); (151, 13)]%nat
  = [200; 151; 200; 200; 200; 100; 100; 100; 100; 151; 151; 151]%float.
Proof. exact el_conserved_cases. Qed.

(* ---- optimal grouping ---- *)
(* groups built from strictly increasing in-range splits partition 0..N-1 into non-empty consecutive groups *)
Theorem C18_og_groups_partition_the_layers : forall splits N,
  splits <> [] -> StronglySorted lt splits -> Forall (fun s => (s < N - 1)%nat) splits ->
  concat (convert_splits_to_groups splits N) = seq 0 N /\
  Forall (fun g => g <> []) (convert_splits_to_groups splits N) /\
  List.length (convert_splits_to_groups splits N) = (List.length splits + 1)%nat.
Proof. exact groups_partition. Qed.

(* every move of the local search keeps a grouping valid: strictly increasing, in range, same number of splits *)
Theorem C18_og_moves_keep_groupings_valid : forall g N,
  StronglySorted lt g -> Forall (fun x => (x < N - 1)%nat) g ->
  forall v, In v (vicinity g N) ->
    StronglySorted lt v /\ List.length v = List.length g /\ Forall (fun x => (x < N - 1)%nat) v.
Proof. exact vicinity_invariant. Qed.

(* total Cn2 conserved exactly, whatever the random restarts (any list of valid start groupings) *)
Theorem C18_og_conserves_total : forall G K starts L (h p : list R),
  (2 <= L)%nat -> (L < List.length p)%nat -> Forall (fun s => Inv (List.length p) s /\ s <> []) starts ->
  nsum (ROps G K) (snd (optimal_grouping (ROps G K) starts L h p)) = nsum (ROps G K) p.
Proof. intros; apply og_total_Inv; assumption. Qed.
Print Assumptions C18_og_conserves_total.

(* returned heights are heights of the input *)
Theorem C18_og_heights_are_input_heights : forall T (O : NumOps T) (h p : list T) groups,
  Forall (fun g => g <> [] /\ Forall (fun k => (k < List.length h)%nat) g) groups ->
  Forall (fun x => In x h) (hmin_of O h p groups).
Proof. intros; apply hmin_members; assumption. Qed.

(* exactly L layers (any carrier), heights that are input heights in strictly increasing order, non-negative strengths *)
Theorem C18_og_returns_exactly_L_layers : forall T (O : NumOps T) starts L (h p : list T),
  (2 <= L)%nat -> (L < List.length p)%nat ->
  Forall (fun s => Inv (List.length p) s /\ List.length s = (L - 1)%nat) starts ->
  List.length (fst (optimal_grouping O starts L h p)) = L /\ List.length (snd (optimal_grouping O starts L h p)) = L.
Proof. intros; apply og_returns_L_layers; assumption. Qed.

Theorem C18_og_heights_are_input_heights_in_increasing_order : forall G K starts L (h p : list R),
  (2 <= L)%nat -> (L < List.length p)%nat ->
  Forall (fun s => Inv (List.length p) s /\ List.length s = (L - 1)%nat) starts ->
  List.length h = List.length p -> StronglySorted Rlt h ->
  Forall (fun x => In x h) (fst (optimal_grouping (ROps G K) starts L h p)) /\
  StronglySorted Rlt (fst (optimal_grouping (ROps G K) starts L h p)).
Proof. intros; apply og_heights_members_increasing; assumption. Qed.
Print Assumptions C18_og_heights_are_input_heights_in_increasing_order.

Theorem C18_og_strengths_nonnegative : forall G K starts L (h p : list R),
  Forall (fun x => 0 <= x) p -> Forall (fun x => 0 <= x) (snd (optimal_grouping (ROps G K) starts L h p)).
Proof. intros; apply og_strengths_nonneg; assumption. Qed.

(* the cost of the result is no worse than that of the equal split, for any restarts; the local search never
   increases the cost, for any number of iterations *)
Theorem C18_og_cost_no_worse_than_equal_split : forall G K starts L (h p : list R),
  (1 <= L)%nat -> (L < List.length p)%nat ->
  snd (og_best (ROps G K) starts L h p)
  <= Gcost (ROps G K) h p (convert_splits_to_groups (equal_split (List.length p) L) (List.length p)).
Proof. intros; apply og_cost_le_equal_split'; assumption. Qed.
Print Assumptions C18_og_cost_no_worse_than_equal_split.

Theorem C18_og_local_search_never_increases_cost : forall G K (h p : list R) N fuel g, Inv N g ->
  snd (opt_min (ROps G K) fuel h p N g) <= Gcost (ROps G K) h p (convert_splits_to_groups g N).
Proof. intros; apply opt_min_monotone; assumption. Qed.

(* the clause "exactly L layers" fails for L = 1 on the faithful model: no layer at all is returned (known finding) *)
Theorem C18_og_single_layer_refuted : forall T (O : NumOps T) (h p : list T),
  optimal_grouping O [] 1 h p = ([], []).
Proof. intros; apply og_L1_refuted. Qed.

(* the hypotheses above are satisfiable: 5 layers into 2, one valid restart *)
Example C18_nonvacuous :
  Inv 5 [2%nat] /\ Inv 5 (equal_split 5 2) /\ (2 <= 2)%nat /\ (2 < 5)%nat /\ StronglySorted lt [1%nat; 3%nat].
Proof.
  repeat apply conj; try (repeat constructor; fail); try (apply equal_split_Inv; repeat constructor).
  all: unfold Inv; repeat apply conj; repeat constructor.
Qed.


(* a profile is a SET of layers: the same layers listed in any other order (top-down, shuffled) give the same compressed
   profile -- over the reals, for every profile and every number of slabs (harness: the same clause on the implementation) *)
Theorem C18_el_does_not_depend_on_the_order_of_the_layers : forall G K (h p w h' p' w' : list R) (L : nat),
  length h = length p -> length p = length w -> length h' = length p' -> length p' = length w' ->
  Permutation (combine h (combine p w)) (combine h' (combine p' w')) ->
  equivalent_layers (ROps G K) h' p' w' L = equivalent_layers (ROps G K) h p w L.
Proof. exact equivalent_layers_permutation_gen. Qed.
Print Assumptions C18_el_does_not_depend_on_the_order_of_the_layers.

Theorem C18_el_of_the_profile_listed_top_down : forall G K h p w L, length h = length p -> length p = length w -> h <> [] ->
  equivalent_layers (ROps G K) (rev h) (rev p) (rev w) L = equivalent_layers (ROps G K) h p w L.
Proof. exact equivalent_layers_reversed. Qed.
