From Coq Require Import List.
Require Import AOV.base.Num AOV.model.Compress.
Theorem C18_placeholder : True. Proof. exact I. Qed.
