(* C07 -- FFT phase screens have exactly the discretised von Karman statistics.
   Model: coq/model/FtScreen.v (the screen as a function of its Gaussian draws), tied to
   turbulence/phasescreen.py by the correspondence check with injected draws.  Ensemble statements are read
   through second-moment algebra: independent unit-variance draws, covariance = sum over unit draws. *)
From Coq Require Import Reals List Arith.
Require Import AOV.base.Num AOV.base.NumR AOV.base.Cplx AOV.model.FtScreen AOV.proofs.C07_lemmas AOV.proofs.C07_proofs.
Import ListNotations.
Local Open Scope R_scope.

(* every pixel is this linear function of the draws (even N = 2c) *)
Theorem C07_screen_is_linear_in_its_draws : forall G K r0 L0 l0 N c delta al be (a1 b1 a2 b2 : list (list R)),
  N = (2 * c)%nat -> (1 <= c)%nat -> wf_mat N N a1 -> wf_mat N N b1 -> wf_mat N N a2 -> wf_mat N N b2 ->
  ft_phase_screen (ROps G K) r0 L0 l0 N delta (madd (mscal al a1) (mscal be a2)) (madd (mscal al b1) (mscal be b2))
  = madd (mscal al (ft_phase_screen (ROps G K) r0 L0 l0 N delta a1 b1))
         (mscal be (ft_phase_screen (ROps G K) r0 L0 l0 N delta a2 b2)).
Proof. exact C07_linear. Qed.
Print Assumptions C07_screen_is_linear_in_its_draws.

(* exact ensemble covariance = inverse discrete Fourier sum of the sampled modified von Karman spectrum
   (psd_grid has the zero frequency removed) *)
Theorem C07_covariance_is_the_inverse_DFT_of_the_spectrum : forall G K r0 L0 l0 N c delta y x y' x',
  N = (2 * c)%nat -> (1 <= c)%nat -> (y < N)%nat -> (x < N)%nat -> (y' < N)%nat -> (x' < N)%nat ->
  Cov G K r0 L0 l0 N delta y x y' x'
  = rsum (fun i => rsum (fun j =>
      ent 0 (psd_grid (ROps G K) r0 L0 l0 N delta) i j * (1 / (INR N * delta)) ^ 2
      * cos (2 * PI * ((INR i - INR c) * (INR y - INR y') + (INR j - INR c) * (INR x - INR x')) / INR N)) N) N
  /\ ent 0 (psd_grid (ROps G K) r0 L0 l0 N delta) c c = 0.
Proof. intros; split; [apply C07_covariance; assumption|eapply C07_dc_removed; eassumption]. Qed.
Print Assumptions C07_covariance_is_the_inverse_DFT_of_the_spectrum.

(* hence: stationary, position-independent variance, zero mean *)
Theorem C07_stationary_constant_variance_zero_mean : forall G K r0 L0 l0 N c delta, N = (2 * c)%nat -> (1 <= c)%nat ->
  (forall y x y' x' u v, (y + u < N)%nat -> (x + v < N)%nat -> (y' + u < N)%nat -> (x' + v < N)%nat ->
     Cov G K r0 L0 l0 N delta (y + u) (x + v) (y' + u) (x' + v) = Cov G K r0 L0 l0 N delta y x y' x') /\
  (forall y x y2 x2, (y < N)%nat -> (x < N)%nat -> (y2 < N)%nat -> (x2 < N)%nat ->
     Cov G K r0 L0 l0 N delta y x y x = Cov G K r0 L0 l0 N delta y2 x2 y2 x2) /\
  (forall a b, wf_mat N N a -> wf_mat N N b ->
     nsum (ROps G K) (map (nsum (ROps G K)) (ft_phase_screen (ROps G K) r0 L0 l0 N delta a b)) = 0).
Proof. intros G K r0 L0 l0 N c delta HN Hc. repeat apply conj.
  - intros. apply (C07_stationary G K r0 L0 l0 N c); assumption.
  - intros y x y2 x2 Hy Hx Hy2 Hx2. rewrite (C07_variance_constant G K r0 L0 l0 N c delta y x), (C07_variance_constant G K r0 L0 l0 N c delta y2 x2); auto.
  - intros a b Ha Hb. apply (C07_zero_mean_nsum G K r0 L0 l0 N c); assumption. Qed.
Print Assumptions C07_stationary_constant_variance_zero_mean.

(* amplitude scales exactly as r0^(-5/6) for fixed draws *)
Theorem C07_amplitude_scales_as_r0_minus_five_sixths : forall G K r0 L0 l0 N c delta s (a b : list (list R)),
  N = (2 * c)%nat -> (1 <= c)%nat -> wf_mat N N a -> wf_mat N N b -> 0 < s -> 0 < r0 ->
  ft_phase_screen (ROps G K) (s * r0) L0 l0 N delta a b
  = map (map (fun v => Rpower s (-5/6) * v)) (ft_phase_screen (ROps G K) r0 L0 l0 N delta a b).
Proof. exact C07_r0_scaling. Qed.
Print Assumptions C07_amplitude_scales_as_r0_minus_five_sixths.

(* sub-harmonics only add low-frequency power: with independent draw blocks the ensemble structure function
   is D_hi + D_lo with D_lo >= 0, so no structure-function value decreases *)
Theorem C07_subharmonics_only_add_power : forall G K r0 L0 l0 N delta c y x y' x',
  N = (2 * c)%nat -> (1 <= c)%nat -> (y < N)%nat -> (x < N)%nat -> (y' < N)%nat -> (x' < N)%nat ->
  D_total G K r0 L0 l0 N delta y x y' x' = D_hi G K r0 L0 l0 N delta y x y' x' + D_lo G K r0 L0 l0 N delta y x y' x'
  /\ 0 <= D_lo G K r0 L0 l0 N delta y x y' x' /\ 0 <= D_hi G K r0 L0 l0 N delta y x y' x'.
Proof. exact C07_sh_structure_additive. Qed.
Print Assumptions C07_subharmonics_only_add_power.

(* NOT proved (kept visible): convergence of the screen's structure function to the analytic von Karman one
   as the grid is refined, and that the sub-harmonic variant is closer at large separations -- statements
   about discretisation error; numerical falsifier only. *)

Example C07_nonvacuous : 2%nat = (2 * 1)%nat /\ (1 <= 1)%nat /\ wf_mat 2 2 [[1; 0]; [0; 1]].
Proof. repeat split; repeat constructor. Qed.
