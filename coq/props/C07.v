From Coq Require Import List.
Require Import AOV.base.Num AOV.model.FtScreen.
Theorem C07_placeholder : True. Proof. exact I. Qed.
