(* C11 -- Angular-spectrum propagation at unit magnification is a one-parameter group, and the lens
   propagator evaluates the same Fresnel integral as the one-step propagator. *)
From Coq Require Import Reals List Arith.
Require Import AOV.base.Num AOV.base.NumR AOV.base.Cplx AOV.model.Fourier AOV.model.Optics
               AOV.proofs.C11_proofs AOV.proofs.C10_linear.
Local Open Scope R_scope.

Theorem C11_zero_distance_is_identity : forall G K (U : list (list (R * R))) wvl d1 d2,
  angularSpectrum (ROps G K) U wvl d1 d2 0 = U.
Proof. exact AS_zero. Qed.
Print Assumptions C11_zero_distance_is_identity.

(* distances add under composition, for ANY split z = z1 + z2 *)
Theorem C11_distances_add : forall G K N (U : list (list (R * R))) wvl d z1 z2,
  wf_mat N N U -> (0 < N)%nat -> d <> 0 -> z1 <> 0 -> z2 <> 0 -> z1 + z2 <> 0 ->
  angularSpectrum (ROps G K) (angularSpectrum (ROps G K) U wvl d d z1) wvl d d z2
  = angularSpectrum (ROps G K) U wvl d d (z1 + z2).
Proof. exact AS_additive. Qed.
Print Assumptions C11_distances_add.

Theorem C11_minus_z_undoes_plus_z : forall G K N (U : list (list (R * R))) wvl d z,
  wf_mat N N U -> (0 < N)%nat -> d <> 0 -> z <> 0 ->
  angularSpectrum (ROps G K) (angularSpectrum (ROps G K) U wvl d d z) wvl d d (- z) = U.
Proof. exact AS_inverse. Qed.
Print Assumptions C11_minus_z_undoes_plus_z.

(* same Fresnel integral, same grid, same orientation *)
Theorem C11_lens_is_one_step_with_lens_phase : forall G K N (U : list (list (R * R))) wvl d1 f,
  wf_mat N N U -> (0 < N)%nat -> wvl <> 0 -> f <> 0 -> d1 <> 0 ->
  lensAgainst (ROps G K) U wvl d1 f
  = oneStepFresnel (ROps G K)
      (cmul_m (ROps G K) U (phase_grid (ROps G K) (coordsN (ROps G K) N d1) (- (kwave (ROps G K) wvl / (2 * f))) (nzero (ROps G K))))
      wvl d1 f.
Proof. exact lens_is_onestep. Qed.
Print Assumptions C11_lens_is_one_step_with_lens_phase.

(* NOT proved (kept visible): magnified round trip up to a constant phase; agreement of one-step,
   two-step and angular spectrum with each other and with Gaussian-beam / Airy solutions -- statements
   about the continuous Fresnel integral and its discretisation; exercised by the numerical falsifier. *)
Definition C11_mag_roundtrip_stmt (G : R -> R) (K : R -> R -> R) : Prop :=
  forall N (U : list (list (R * R))) wvl d m z, wf_mat N N U -> (0 < N)%nat -> d <> 0 -> m <> 0 -> z <> 0 ->
  exists kappa : R,
    angularSpectrum (ROps G K) (angularSpectrum (ROps G K) U wvl d (m * d) z) wvl (m * d) d (- z)
    = cmulc_m (ROps G K) (cis (ROps G K) kappa) U.

(* with magnification m = d2/d1, propagating back with 1/m over -z recovers the input up to ONE constant phase,
   whose value is explicit: it comes from the +1e-10 offset inside the code's source-plane quadratic phase *)
Theorem C11_magnified_round_trip : forall G K N (U : list (list (R * R))) wvl d1 d2 z,
  wf_mat N N U -> (0 < N)%nat -> d1 <> 0 -> d2 <> 0 -> z <> 0 ->
  angularSpectrum (ROps G K) (angularSpectrum (ROps G K) U wvl d1 d2 z) wvl d2 d1 (- z)
  = cmulc_m (ROps G K) (cis (ROps G K) (AS_kappa G K wvl d1 d2 z)) U
  /\ AS_kappa G K wvl d1 d2 z = kwave (ROps G K) wvl / 2 * (eps10 (ROps G K) / z) * (d1 / d2 - d2 / d1)
  /\ map (map (cabs2 (ROps G K))) (angularSpectrum (ROps G K) (angularSpectrum (ROps G K) U wvl d1 d2 z) wvl d2 d1 (- z))
     = map (map (cabs2 (ROps G K))) U.
Proof.
  intros G K N U wvl d1 d2 z W HN H1 H2 Hz. split; [|split].
  - apply (AS_mag_roundtrip_kappa G K N); assumption.
  - apply AS_kappa_closed; assumption.
  - apply (AS_mag_roundtrip_intensity G K N); assumption.
Qed.
Print Assumptions C11_magnified_round_trip.

Example C11_nonvacuous : wf_mat 2 2 (((1,0)::(0,1)::nil)::((2,0)::(0,0)::nil)::nil : list (list (R*R))) /\ 1 + 2 <> 0.
Proof. split; [split; [reflexivity|repeat constructor]|Lra.lra]. Qed.
