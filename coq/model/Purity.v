(* Effect model for C06 / C20.  A footprint table (regenerated from the source by translate/effects_fp.py)
   says, per function, which parameters may be written in place, whether an argument may be returned
   un-copied, and whether process-global state (NumPy's legacy global generator, `random`, `time`, module-level
   mutable objects, memoisation) is touched.  The world is a store of arrays plus one hidden state; a function
   semantics is ANY function consistent with its footprint.  Definitions only. *)
From Coq Require Import List String Ascii Bool Arith.
Import ListNotations.

Record fentry := { f_module : string; f_name : string; f_nparams : nat; f_writes : list string;
                   f_returns_alias : bool; f_global_rng : bool; f_globals : bool; f_public : bool }.
Definition no_writes (e : fentry) : bool := match f_writes e with [] => true | _ => false end.
Definition entry_stateless (e : fentry) : bool := negb (f_global_rng e) && negb (f_globals e).
Definition entry_pure (e : fentry) : bool := no_writes e && negb (f_returns_alias e) && entry_stateless e.
Definition same_fn (m n : string) (e : fentry) : bool := String.eqb (f_module e) m && String.eqb (f_name e) n.
Definition allowed (l : list (string * string)) (e : fentry) : bool :=
  existsb (fun mn => same_fn (fst mn) (snd mn) e) l.
Definition is_private (e : fentry) : bool :=
  match f_name e with String "_"%char _ => true | _ => false end.

Section World.
  Variables (V H : Type).
  (* one call: function, indices of its array arguments in the store *)
  Record call := { c_fn : fentry; c_args : list nat }.
  (* semantics: result, new values of the arguments, new hidden state *)
  Definition sem := fentry -> list V -> H -> (V * list V * H).
  (* consistency with the footprint, for the entries the table declares pure *)
  Definition respects (s : sem) : Prop :=
    forall e args h, entry_pure e = true ->
      snd (fst (s e args h)) = args /\ snd (s e args h) = h /\ forall h2, fst (fst (s e args h2)) = fst (fst (s e args h)).
  Definition getargs (d : V) (store : list V) (idx : list nat) : list V := map (fun i => nth i store d) idx.
  Fixpoint setargs (store : list V) (idx : list nat) (vals : list V) : list V :=
    match idx, vals with
    | i :: r, v :: s => setargs (firstn i store ++ v :: skipn (S i) store) r s
    | _, _ => store
    end.
  (* run a program; returns the list of results, final store and hidden state *)
  Fixpoint exec (s : sem) (d : V) (prog : list call) (store : list V) (h : H) : list V * list V * H :=
    match prog with
    | [] => ([], store, h)
    | c :: rest =>
        let '(r, args', h') := s (c_fn c) (getargs d store (c_args c)) h in
        let store' := setargs store (c_args c) args' in
        let '(rs, st, hf) := exec s d rest store' h' in
        (r :: rs, st, hf)
    end.
End World.
