(* Hand-written model of slopecovariance.calculate_structure_function and of
   temporal_ps.calc_slope_temporalps / get_tps_time_axis, as written (after fix commits 26b50a5, 3c15b09). *)
From Coq Require Import ZArith Bool List Arith.
Require Import AOV.base.Num AOV.base.Cplx.
Import ListNotations.

Section Estim.
  Context {T : Type} (O : NumOps T).
  Local Notation "a - b" := (nsub O a b).  Local Notation "a * b" := (nmul O a b).
  Local Notation "a / b" := (ndiv O a b).
  Definition onat (n : nat) : T := nofZ O (Z.of_nat n).
  Definition ncolsE {A} (m : list (list A)) := match m with [] => 0 | r :: _ => length r end.

  (* numpy.mean((phase[0:-i, :] - phase[i:, :])**2)   for i >= 1 *)
  Definition sqdiff (a b : T) : T := nsqr O (a - b).
  Definition sf_lag (phase : list (list T)) (i : nat) : T :=
    nmean O (concat (map2 (map2 sqdiff) (firstn (length phase - i) phase) (skipn i phase))).
  (* xm = int(min(nbOfPoint, shape[1]/step - 1)); sf = zeros(xm); sf[j] for j = 1 .. xm-1 *)
  Definition sf_xm (phase : list (list T)) (nb : T) (step : nat) : nat :=
    Z.to_nat (ntoZ O (nfloor O (nmin O nb (onat (ncolsE phase) / onat step - none O)))).
  Definition calc_sf (phase : list (list T)) (nb : T) (step : nat) : list T :=
    map (fun j => match j with 0 => nzero O | _ => sf_lag phase (j * step) end) (seq 0 (sf_xm phase nb step)).

  (* temporal power spectrum: data is nFrames x nCentroids; FFT along frames, first n/2 bins,
     squared modulus, mean and standard error over centroids *)
  Definition column {A} (d : A) (m : list (list A)) (c : nat) : list A := map (fun row => nth c row d) m.
  Definition tps_bins (data : list (list T)) : list (list T) :=   (* [k][c] *)
    let n := length data in
    let cols := map (fun c => map (cabs2 O) (firstn (Nat.div n 2) (dft O (map (cofR O) (column (nzero O) data c)))))
                    (seq 0 (ncolsE data)) in
    map (fun k => map (fun col => nth k col (nzero O)) cols) (seq 0 (Nat.div n 2)).
  Definition mean_tps (data : list (list T)) : list T := map (nmean O) (tps_bins data).
  Definition nstd (l : list T) : T :=
    let mu := nmean O l in nsqrt O (nmean O (map (fun x => nsqr O (x - mu)) l)).
  Definition tps_err (data : list (list T)) : list T :=
    map (fun row => nstd row / nsqrt O (onat (length row))) (tps_bins data).
  (* numpy.fft.fftfreq(n, 1/rate)[:n/2] = k * (1/(n*d)) *)
  Definition tps_axis (rate : T) (n : nat) : list T :=
    map (fun k => onat k * (none O / (onat n * (none O / rate)))) (seq 0 (Nat.div n 2)).
End Estim.
