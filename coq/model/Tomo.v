(* Hand-written model of slopecovariance.create_tomographic_covariance_reconstructor and
   CovarianceMatrix.make_tomographic_reconstructor.  numpy.linalg.pinv is a parameter. *)
From Coq Require Import ZArith Bool List Arith.
Require Import AOV.base.Num AOV.base.Cplx AOV.model.Mat.
Import ListNotations.

Section Tomo.
  Context {T : Type} (O : NumOps T).
  Local Notation mat := (@mat T).
  (* cov_onoff = C[:2n, 2n:] ; cov_offoff = C[2n:, 2n:] *)
  Definition cov_onoff (C : mat) (n : nat) : mat := map (skipn (2 * n)) (firstn (2 * n) C).
  Definition cov_offoff (C : mat) (n : nat) : mat := map (skipn (2 * n)) (skipn (2 * n) C).
  (* tomo_recon = cov_onoff.dot(pinv(cov_offoff, rcond)) *)
  Definition tomo_recon (pinv : mat -> mat) (C : mat) (n : nat) : mat :=
    mmul O (cov_onoff C n) (pinv (cov_offoff C n)).
  (* the method: uses the stored matrix and n_subaps[0] *)
  Definition make_tomographic_reconstructor (pinv : mat -> mat) (stored : mat) (n_subaps : list nat) : mat :=
    tomo_recon pinv stored (hd 0 n_subaps).
End Tomo.
