(* Hand-written model of aotools/functions/zernike.py: Noll indexing (zernIndex), the radial-polynomial
   coefficients (zernikeRadialFunc), mode synthesis on the pixel grid (zernike_nm / zernike_noll),
   normalisations (zernikeArray), phaseFromZernikes, and the Noll derivative tables (makegammas) as data
   (sign, sqrt(2)-flag, radicand).  Definitions only. *)
From Coq Require Import ZArith QArith Bool List Arith.
Require Import AOV.base.Num AOV.model.Pupil.
Import ListNotations.
Local Open Scope Z_scope.

(* ---- zernIndex(j) over the integers:  n = int((-1+sqrt(8(j-1)+1))/2), p = j - n(n+1)/2,
        k = n%2, m = int((p+k)/2)*2 - k, sign by the parity of j ---- *)
Definition zern_index (j : Z) : Z * Z :=
  let n := (Z.sqrt (8 * (j - 1) + 1) - 1) / 2 in
  let p := j - n * (n + 1) / 2 in
  let k := n mod 2 in
  let m := ((p + k) / 2) * 2 - k in
  (n, if m =? 0 then 0 else if Z.even j then m else - m).
(* the inverse: Noll index of (n, m) *)
Definition noll_of_nm (n m : Z) : Z :=
  let base := n * (n + 1) / 2 in
  if m =? 0 then base + 1
  else let j0 := base + Z.abs m in
       if Bool.eqb (Z.even j0) (0 <? m) then j0 else j0 + 1.
Definition valid_nm (n m : Z) : Prop := 0 <= n /\ Z.abs m <= n /\ Z.even (n - Z.abs m) = true.

(* ---- radial polynomial: coefficient of r^(n-2i), i = 0 .. (n-m)/2 (m >= 0) ---- *)
Fixpoint factZ (n : nat) : Z := match n with O => 1 | S k => Z.of_nat (S k) * factZ k end.
Definition fct (z : Z) : Z := factZ (Z.to_nat z).
Definition rad_coeff (n m i : Z) : Q :=
  ((if Z.even i then 1 else -1) * fct (n - i)) # Z.to_pos (fct i * fct ((n + m) / 2 - i) * fct ((n - m) / 2 - i)).
Definition rad_terms (n m : Z) : list (Z * Q) :=     (* (power, coefficient) *)
  map (fun i => (n - 2 * Z.of_nat i, rad_coeff n m (Z.of_nat i))) (seq 0 (S (Z.to_nat ((n - m) / 2)))).

(* ---- makegammas(nzrad): the (n, m) lists built by its loops, and each entry as
        sign * sqrt(2)^two * sqrt(prod)  ---- *)
Fixpoint gam_q (p : Z) (qs : list Z) (acc : list (Z * Z)) : list (Z * Z) :=
  match qs with
  | [] => acc
  | q :: r => if Z.even (p - q) then
                (if 0 <? q then gam_q p r (acc ++ [(p, q); (p, q)]) else gam_q p r (acc ++ [(p, q)]))
              else gam_q p r acc
  end.
Definition zseq (a len : nat) : list Z := map Z.of_nat (seq a len).
Definition gam_nm (nzrad : nat) : list (Z * Z) :=
  fold_left (fun acc p => gam_q p (zseq 0 (S (Z.to_nat p))) acc) (zseq 1 nzrad) [(0, 0)].
Record gentry := { g_sign : Z; g_two : bool; g_prod : Z }.
Definition gzero : gentry := {| g_sign := 0; g_two := false; g_prod := 0 |}.
Definition odd1 (i : nat) : bool := Nat.odd (S i).          (* ((i+1) % 2) == 1 *)
Definition gamx_entry (nm : list (Z * Z)) (i j : nat) : gentry :=
  let '(ni, mi) := nth i nm (0, 0) in let '(nj, mj) := nth j nm (0, 0) in
  if (j <=? i)%nat then
    let two := (mi =? 0) || (mj =? 0) in
    let zero_b := if mi =? 0 then odd1 j else if mj =? 0 then odd1 i else negb (Bool.eqb (odd1 i) (odd1 j)) in
    let zero_c := negb (Z.abs (mj - mi) =? 1) in
    if zero_b || zero_c then gzero else {| g_sign := 1; g_two := two; g_prod := (ni + 1) * (nj + 1) |}
  else gzero.
Definition gamy_entry (nm : list (Z * Z)) (i j : nat) : gentry :=
  let '(ni, mi) := nth i nm (0, 0) in let '(nj, mj) := nth j nm (0, 0) in
  if (j <=? i)%nat then
    let two := (mi =? 0) || (mj =? 0) in
    let zero_b := if mi =? 0 then negb (odd1 j) else if mj =? 0 then negb (odd1 i) else Bool.eqb (odd1 i) (odd1 j) in
    let zero_c := negb (Z.abs (mj - mi) =? 1) in
    let sgn := if mi =? 0 then 1 else if mj =? 0 then 1
               else if mj =? mi + 1 then (if odd1 i then -1 else 1)
               else if mj =? mi - 1 then (if odd1 i then 1 else -1) else 1 in
    if zero_b || zero_c then gzero else {| g_sign := sgn; g_two := two; g_prod := (ni + 1) * (nj + 1) |}
  else gzero.

(* ---- modes on the pixel grid (generic numeric carrier) ---- *)
Section Modes.
  Context {T : Type} (O : NumOps T).
  Local Notation "a + b" := (nadd O a b).  Local Notation "a - b" := (nsub O a b).
  Local Notation "a * b" := (nmul O a b).  Local Notation "a / b" := (ndiv O a b).
  Definition zN (z : Z) : T := nofZ O z.
  (* coords = (arange(N) - N/2. + 0.5)/(N/2.) *)
  Definition zcoord (N : nat) (j : nat) : T :=
    ((zN (Z.of_nat j) - zN (Z.of_nat N) / zN 2) + nofQ O 5 10) / (zN (Z.of_nat N) / zN 2).
  (* zernikeRadialFunc(n, m, r) = sum_i r**(n-2i) * ((-1)**i (n-i)!) / (i! ((n+m)/2-i)! ((n-m)/2-i)!) *)
  Definition radial (n m : Z) (r : T) : T :=
    fold_left (fun acc i =>
      let iz := Z.of_nat i in
      acc + (npow O r (zN (n - 2 * iz)) * zN ((if Z.even iz then 1 else -1) * fct (n - iz)))
            / zN (fct iz * fct ((n + m) / 2 - iz) * fct ((n - m) / 2 - iz)))
      (seq 0 (S (Z.to_nat ((n - m) / 2)))) (nzero O).
  Definition zernike_px (n m : Z) (N : nat) (rot : T) (i j : nat) : T :=
    let x := zcoord N j in let y := zcoord N i in
    let r := nsqrt O (nsqr O x + nsqr O y) in
    let th := natan2 O y x in
    let z := if (m =? 0)%Z then nsqrt O (zN (n + 1)) * radial n 0 r
             else if (0 <? m)%Z then (nsqrt O (zN (2 * (n + 1))) * radial n m r) * ncos O (zN m * th + rot)
             else (nsqrt O (zN (2 * (n + 1))) * radial n (- m) r) * nsin O (zN (- m) * th + rot) in
    let clip := if nleb O r (none O) then none O else nzero O in
    let pup := if circle_px O (zN (Z.of_nat N) / zN 2) N (nzero O) (nzero O) true i j then none O else nzero O in
    (z * clip) * pup.
  Definition zernike_nm (n m : Z) (N : nat) (rot : T) : list (list T) :=
    map (fun i => map (fun j => zernike_px n m N rot i j) (seq 0 N)) (seq 0 N).
  Definition zernike_noll (j : Z) (N : nat) (rot : T) : list (list T) :=
    let '(n, m) := zern_index j in zernike_nm n m N rot.
  Definition flat2 (m : list (list T)) : list T := concat m.
  Definition norm_p2v (z : list (list T)) : list (list T) :=
    let f := flat2 z in
    let mx := fold_left (nmax O) f (hd (nzero O) f) in
    let mn := fold_left (nmin O) f (hd (nzero O) f) in
    map (map (fun v => v / (mx - mn))) z.
  Definition norm_rms (N : nat) (z : list (list T)) : list (list T) :=
    let npup := nsum O (flat2 (circle O (zN (Z.of_nat N) / zN 2) N (nzero O) (nzero O) true)) in
    let s := nsqrt O (nsum O (map (nsqr O) (flat2 z)) / npup) in
    map (map (fun v => v / s)) z.
  Definition phase_from_zernikes (coeffs : list T) (N : nat) (rot : T) : list (list T) :=
    fold_left (fun acc jc => map2 (map2 (nadd O)) acc
                 (map (map (fun v => v * snd jc)) (zernike_noll (Z.of_nat (S (fst jc))) N rot)))
      (combine (seq 0 (length coeffs)) coeffs)
      (repeat (repeat (nzero O) N) N).
  (* zernikeArray(J, N, norm, rot): J a count (modes 1..J) or a list of Noll indices; then the normalisation *)
  Definition apply_norm (norm : nat) (N : nat) (z : list (list T)) : list (list T) :=
    match norm with 0%nat => z | 1%nat => norm_p2v z | _ => norm_rms N z end.       (* 0 noll, 1 p2v, 2 rms *)
  Definition zernike_array_list (js : list Z) (N : nat) (norm : nat) (rot : T) : list (list (list T)) :=
    map (fun j => apply_norm norm N (zernike_noll j N rot)) js.
  Definition zernike_array_count (J : nat) (N : nat) (norm : nat) (rot : T) : list (list (list T)) :=
    zernike_array_list (map (fun k => Z.of_nat (S k)) (seq 0 J)) N norm rot.
End Modes.
