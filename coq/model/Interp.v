(* Hand-written model of aotools/interpolation.py:binImgs (+ the coordinate handling of zoom_rbs with the
   spline evaluation as a parameter) and of aotools/image_processing/psf.py (azimuthal_average, the
   encircled-energy curve).  Definitions only. *)
From Coq Require Import ZArith Bool List Arith.
Require Import AOV.base.Num AOV.base.Cplx AOV.model.Pupil.
Import ListNotations.

Section Interp.
  Context {T : Type} (O : NumOps T).
  Local Notation img := (list (list T)).
  Definition zn (n : nat) : T := nofZ O (Z.of_nat n).

  (* binnedImgTmp = zeros; for i in range(n): binnedImgTmp += data[:, i::n]   (accumulation order kept) *)
  Definition bin_row (n : nat) (row : list T) : list T :=
    map (fun c => fold_left (fun acc i => nadd O acc (nth (c * n + i) row (nzero O))) (seq 0 n) (nzero O))
        (seq 0 (Nat.div (length row) n)).
  (* then the same over rows: binnedImg += binnedImgTmp[i::n, :] *)
  Definition bin_cols (n : nat) (m : img) : img :=
    map (fun r => map (fun c => fold_left (fun acc i => nadd O acc (nth c (nth (r * n + i) m []) (nzero O))) (seq 0 n) (nzero O))
                      (seq 0 (length (hd [] m))))
        (seq 0 (Nat.div (length m) n)).
  Definition bin2d (m : img) (n : nat) : img := bin_cols n (map (bin_row n) m).
  Definition binNd (frames : list img) (n : nat) : list img := map (fun m => bin2d m n) frames.

  (* zoom_rbs: coordsX = linspace(0, shape[0]-1, xSize), coordsY = linspace(0, shape[1]-1, ySize);
     result = interpObj(coordsY, coordsX).  `spline m order x y` is RectBivariateSpline(arange, arange, m,
     kx=ky=order) evaluated at (x, y) -- a parameter with the interpolation contract. *)
  Definition linspace (stop : T) (num : nat) : list T :=
    map (fun k => if Nat.eqb (S k) num then stop        (* numpy sets the last sample to `stop` exactly *)
                  else nmul O (zn k) (ndiv O stop (zn (num - 1)))) (seq 0 num).
  Definition zoom_rbs (spline : img -> nat -> T -> T -> T) (m : img) (xsize ysize order : nat) : img :=
    let cx := linspace (zn (length m - 1)) xsize in
    let cy := linspace (zn (length (hd [] m) - 1)) ysize in
    map (fun x => map (fun y => spline m order x y) cx) cy.

  (* azimuthal_average: ring_i = circle(i+1, size) - circle(i, size); avg[i] = (ring*data).sum()/ring.sum() *)
  Definition ring (size i : nat) : img :=
    map2 (map2 (nsub O)) (circle O (zn (S i)) size (nzero O) (nzero O) true) (circle O (zn i) size (nzero O) (nzero O) true).
  Definition sum2 (m : img) : T := nsum O (map (nsum O) m).
  Definition mul2 (a b : img) : img := map2 (map2 (nmul O)) a b.
  Definition azimuthal_average (data : img) : list T :=
    let size := length data in
    map (fun i => ndiv O (sum2 (mul2 (ring size i) data)) (sum2 (ring size i))) (seq 0 (Nat.div size 2)).

  (* encircled energy: for the radii rad_i the mask pup_i = circle(rad_i, 2*dim, centre, origin='corner');
     returns the lists (diameter_i, energy_i / total) before interpolation *)
  Definition ee_curve (data : img) (xc yc : T) (rads : list T) : list (T * T) :=
    let dim2 := 2 * Nat.div (length data) 2 in
    map (fun r => let pup := circle O r dim2 xc yc false in
                  (nsqrt O (ndiv O (nmul O (sum2 pup) (nofZ O 4)) (npi O)),
                   ndiv O (sum2 (mul2 pup data)) (sum2 data))) rads.
  (* ---- what encircled_energy returns: the curve resampled by numpy.interp on xi = linspace(0, dim, 4 dim), and the
     diameter xi[argmin |yi - fraction|] ----
     numpy.interp(x, xp, fp), xp non-decreasing: fp[0] left of xp[0], fp[-1] right of xp[-1], otherwise on the segment
     [xp_j, xp_j+1) containing x (j = the largest index with xp_j <= x):  slope * (x - xp_j) + fp_j *)
  Fixpoint interp_aux (x : T) (xp fp : list T) : T :=
    match xp, fp with
    | x0 :: ((x1 :: _) as xr), f0 :: ((f1 :: _) as fr) =>
        if nltb O x x1 then nadd O (nmul O (ndiv O (nsub O f1 f0) (nsub O x1 x0)) (nsub O x x0)) f0 else interp_aux x xr fr
    | _, f0 :: _ => f0
    | _, [] => nzero O
    end.
  Definition np_interp (x : T) (xp fp : list T) : T :=
    match xp, fp with
    | x0 :: _, f0 :: _ => if nltb O x x0 then f0 else interp_aux x xp fp
    | _, _ => nzero O
    end.
  Definition ee_xi (data : img) : list T := let dim := Nat.div (length data) 2 in linspace (zn dim) (4 * dim).
  Definition ee_interp (data : img) (xc yc : T) (rads : list T) : list (T * T) :=
    let c := ee_curve data xc yc rads in
    let xp := nzero O :: map fst c in let fp := nzero O :: map snd c in
    map (fun x => (x, np_interp x xp fp)) (ee_xi data).
  (* numpy.argmin: first index of the smallest value *)
  Fixpoint argmin_first (l : list T) (i besti : nat) (best : T) : nat :=
    match l with [] => besti | v :: r => if nltb O v best then argmin_first r (S i) i v else argmin_first r (S i) besti best end.
  Definition ee_diameter (data : img) (xc yc : T) (rads : list T) (fraction : T) : T :=
    let c := ee_interp data xc yc rads in
    let d := map (fun q => nabs O (nsub O (snd q) fraction)) c in
    match d with
    | [] => nzero O
    | d0 :: r => nth (argmin_first r 1 0 d0) (map fst c) (nzero O)
    end.
End Interp.
