(* Hand-written model of aotools/functions/pupil.py:circle and aotools/wfs/wfslib.py
   (findActiveSubaps, computeFillFactor, make_subaps_2d), pixel by pixel as written.  Definitions only. *)
From Coq Require Import ZArith Bool List Arith.
Require Import AOV.base.Num.
Import ListNotations.

Section Pupil.
  Context {T : Type} (O : NumOps T).
  Local Notation "a + b" := (nadd O a b).  Local Notation "a - b" := (nsub O a b).
  Local Notation "a * b" := (nmul O a b).  Local Notation "a / b" := (ndiv O a b).
  Definition ofn (n : nat) : T := nofZ O (Z.of_nat n).

  (* coords = arange(0.5, size, 1.0); if origin == "middle": coords -= size/2. *)
  Definition pcoord (n : nat) (middle : bool) (j : nat) : T :=
    let c := nofQ O 5 10 + ofn j * nofZ O 1 in
    if middle then c - ofn n / nofZ O 2 else c.
  (* mask = x*x + y*y <= radius*radius  with x -= circle_centre[0]; y -= circle_centre[1];
     x varies along the second index (meshgrid) *)
  Definition circle_px (r : T) (n : nat) (c0 c1 : T) (middle : bool) (i j : nat) : bool :=
    let x := pcoord n middle j - c0 in
    let y := pcoord n middle i - c1 in
    nleb O (x * x + y * y) (r * r).
  Definition circle (r : T) (n : nat) (c0 c1 : T) (middle : bool) : list (list T) :=
    map (fun i => map (fun j => if circle_px r n c0 c1 middle i j then none O else nzero O) (seq 0 n)) (seq 0 n).

  (* ---- wfslib ---- *)
  Definition slice2 {A} (m : list (list A)) (r0 r1 c0 c1 : nat) : list (list A) :=
    map (fun row => firstn (c1 - c0) (skipn c0 row)) (firstn (r1 - r0) (skipn r0 m)).
  Definition mean2 (m : list (list T)) : T :=
    nsum O (concat m) / ofn (length (concat m)).
  Definition rnd (x : T) : nat := Z.to_nat (ntoZ O (nround O x)).
  Definition nrows {A} (m : list (list A)) := length m.
  Definition ncolsP {A} (m : list (list A)) := match m with [] => 0 | r :: _ => length r end.

  Definition cell (subaps : nat) (mask : list (list T)) (x y : nat) : list (list T) :=
    let xs := ofn (nrows mask) / ofn subaps in
    let ys := ofn (ncolsP mask) / ofn subaps in
    slice2 mask (rnd (ofn x * xs)) (rnd (ofn (S x) * xs)) (rnd (ofn y * ys)) (rnd (ofn (S y) * ys)).
  (* returns (coords, fills) in loop order x then y *)
  Definition findActiveSubaps (subaps : nat) (mask : list (list T)) (thr : T) : list ((T * T) * T) :=
    let xs := ofn (nrows mask) / ofn subaps in
    let ys := ofn (ncolsP mask) / ofn subaps in
    flat_map (fun x => flat_map (fun y =>
        let mu := mean2 (cell subaps mask x y) in
        if nleb O thr mu then [((ofn x * xs, ofn y * ys), mu)] else []) (seq 0 subaps)) (seq 0 subaps).
  Definition computeFillFactor (mask : list (list T)) (pos : list (T * T)) (spacing : T) : list T :=
    map (fun p => mean2 (slice2 mask (rnd (fst p)) (rnd (fst p + spacing)) (rnd (snd p)) (rnd (snd p + spacing)))) pos.

  (* make_subaps_2d for one (frame, axis): scatter the vector into the mask positions, row-major *)
  Fixpoint scatter_row {A} (z : A) (data : list A) (mrow : list bool) : list A * list A :=
    match mrow with
    | [] => ([], data)
    | true :: r => match data with
                   | d :: ds => let (o, rest) := scatter_row z ds r in (d :: o, rest)
                   | [] => let (o, rest) := scatter_row z [] r in (z :: o, rest)   (* IndexError in Python *)
                   end
    | false :: r => let (o, rest) := scatter_row z data r in (z :: o, rest)
    end.
  Fixpoint scatter {A} (z : A) (data : list A) (mask : list (list bool)) : list (list A) :=
    match mask with
    | [] => []
    | mrow :: rest => let (o, d') := scatter_row z data mrow in o :: scatter z d' rest
    end.
  Fixpoint gather_row {A} (row : list A) (mrow : list bool) : list A :=
    match row, mrow with
    | a :: r, true :: m => a :: gather_row r m
    | _ :: r, false :: m => gather_row r m
    | _, _ => []
    end.
  Fixpoint gather {A} (img : list (list A)) (mask : list (list bool)) : list A :=
    match img, mask with
    | row :: r, mrow :: m => gather_row row mrow ++ gather r m
    | _, _ => []
    end.
  Definition count_mask (mask : list (list bool)) : nat := length (filter (fun b => b) (concat mask)).
End Pupil.
