(* Seeded screen objects as a state machine (hand model of the generator discipline of
   aotools/turbulence/infinitephasescreen.py and of the seeded FFT screens of phasescreen.py):
   every object owns a generator created from its seed when the initial screen is made (make_initial_screen: at
   construction, and again whenever the method is called), every added row draws from that generator; the seeded FFT
   screens create a generator per call; the process-global generator is a separate cell.
   The generator (mk, draw), the numbers of draws and the numerical maps from draws to screens are parameters:
   the theorems hold for every choice.  Definitions only. *)
From Coq Require Import List ZArith Bool Arith.
Import ListNotations.

Section Objs.
  Variables G V S P : Type.
  Variable mk : Z -> G.                       (* numpy.random.default_rng(seed) *)
  Variable draw : G -> nat -> G * V.          (* n normal draws: new generator state, values *)
  Variables n_init n_row n_ft : P -> nat.
  Variable init_scr : P -> V -> S.            (* initial screen from its draws *)
  Variable row : P -> S -> V -> S.            (* screen after add_row: from the current screen and the draws *)
  Variable ft : P -> V -> S.                  (* seeded FFT screen (plain or sub-harmonic) from its draws *)

  Record obj := { o_par : P; o_seed : Z; o_gen : G; o_scr : S }.
  Record world := { objs : list (nat * obj); glob : G }.

  Inductive op :=
  | New (id : nat) (p : P) (seed : Z)
  | AddRow (id : nat)
  | Reinit (id : nat)                          (* make_initial_screen() called again *)
  | Read (id : nat)                            (* .scrn / repr *)
  | Ft (p : P) (seed : Z)
  | GSeed (z : Z)                              (* numpy.random.seed *)
  | GDraw (n : nat).                           (* numpy.random.normal(size=n) and the like *)

  Fixpoint lookup (id : nat) (l : list (nat * obj)) : option obj :=
    match l with [] => None | (k, o) :: r => if Nat.eqb k id then Some o else lookup id r end.
  Fixpoint update (id : nat) (o : obj) (l : list (nat * obj)) : list (nat * obj) :=
    match l with [] => [(id, o)] | (k, x) :: r => if Nat.eqb k id then (k, o) :: r else (k, x) :: update id o r end.

  Definition make (p : P) (seed : Z) : obj :=
    let gv := draw (mk seed) (n_init p) in
    {| o_par := p; o_seed := seed; o_gen := fst gv; o_scr := init_scr p (snd gv) |}.
  Definition grow (ob : obj) : obj :=
    let gv := draw (o_gen ob) (n_row (o_par ob)) in
    {| o_par := o_par ob; o_seed := o_seed ob; o_gen := fst gv; o_scr := row (o_par ob) (o_scr ob) (snd gv) |}.
  Definition set_obj (w : world) (id : nat) (ob : obj) : world := {| objs := update id ob (objs w); glob := glob w |}.

  Definition step (w : world) (o : op) : world * option S :=
    match o with
    | New id p seed => let ob := make p seed in (set_obj w id ob, Some (o_scr ob))
    | AddRow id => match lookup id (objs w) with
                   | Some ob => let ob' := grow ob in (set_obj w id ob', Some (o_scr ob'))
                   | None => (w, None) end
    | Reinit id => match lookup id (objs w) with
                   | Some ob => let ob' := make (o_par ob) (o_seed ob) in (set_obj w id ob', Some (o_scr ob'))
                   | None => (w, None) end
    | Read id => (w, option_map o_scr (lookup id (objs w)))
    | Ft p seed => (w, Some (ft p (snd (draw (mk seed) (n_ft p)))))
    | GSeed z => ({| objs := objs w; glob := mk z |}, None)
    | GDraw n => ({| objs := objs w; glob := fst (draw (glob w) n) |}, None)
    end.

  Fixpoint run (w : world) (ops : list op) : world * list (option S) :=
    match ops with
    | [] => (w, [])
    | o :: r => let ws := step w o in let wr := run (fst ws) r in (fst wr, snd ws :: snd wr)
    end.

  Definition target (id : nat) (o : op) : bool :=
    match o with New k _ _ | AddRow k | Reinit k | Read k => Nat.eqb k id | _ => false end.
  Definition is_global (o : op) : bool := match o with GSeed _ | GDraw _ => true | _ => false end.

  (* the outputs of the operations addressed to object `id`, in order *)
  Fixpoint trace (id : nat) (w : world) (ops : list op) : list (option S) :=
    match ops with
    | [] => []
    | o :: r => let ws := step w o in
                if target id o then snd ws :: trace id (fst ws) r else trace id (fst ws) r
    end.
  (* the outputs of the stateless seeded FFT calls, in order *)
  Fixpoint ft_trace (w : world) (ops : list op) : list (option S) :=
    match ops with
    | [] => []
    | o :: r => let ws := step w o in
                match o with Ft _ _ => snd ws :: ft_trace (fst ws) r | _ => ft_trace (fst ws) r end
    end.
End Objs.
Arguments New {P}. Arguments AddRow {P}. Arguments Reinit {P}. Arguments Read {P}. Arguments Ft {P}. Arguments GSeed {P}. Arguments GDraw {P}.

(* symbolic instance used by the correspondence check: a generator state is (seed, position); a batch of draws is
   (seed, start, count); a screen is the list of batches it was computed from, tagged with the parameter index *)
Definition SG := (Z * nat)%type.
Definition SV := (Z * nat * nat)%type.
Definition SS := (nat * nat * list SV)%type.       (* kind tag, parameter index, batches oldest first *)
Definition s_mk (z : Z) : SG := (z, 0).
Definition s_draw (g : SG) (n : nat) : SG * SV := ((fst g, snd g + n), (fst g, snd g, n)).
Definition s_init (p : nat) (v : SV) : SS := (0, p, [v]).
Definition s_row (p : nat) (s : SS) (v : SV) : SS := (fst (fst s), snd (fst s), snd s ++ [v]).
Definition s_ft (p : nat) (v : SV) : SS := (1, p, [v]).
Definition s_run (ni nr nf : nat -> nat) (ops : list (op nat)) : list (option SS) :=
  snd (run SG SV SS nat s_mk s_draw ni nr nf s_init s_row s_ft {| objs := []; glob := (0%Z, 0) |} ops).
