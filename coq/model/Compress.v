(* Hand-written model of aotools/turbulence/profile_compression.py: equivalent_layers (slab edges / digitize
   assignment), the contiguous groupings of optimal_grouping (splits -> groups, cost, vicinity, local search
   with fuel, restarts from a supplied list of random groupings).  Definitions only. *)
From Coq Require Import ZArith Bool List Arith.
Require Import AOV.base.Num AOV.base.Cplx.
Import ListNotations.

Section Compress.
  Context {T : Type} (O : NumOps T).
  Definition kn (n : nat) : T := nofZ O (Z.of_nat n).
  Definition lmax (l : list T) : T := fold_left (nmax O) l (hd (nzero O) l).
  Definition lmin (l : list T) : T := fold_left (nmin O) l (hd (nzero O) l).

  (* slab edges h.min() + hstep * numpy.arange(L): exactly L edges, the first one h.min() itself *)
  Definition slab_edges (start step : T) (L : nat) : list T :=
    map (fun k => nadd O start (nmul O step (kn k))) (seq 0 L).
  (* numpy.digitize(x, bins) (increasing bins, right=False): number of bins b with b <= x *)
  Definition digitize (x : T) (bins : list T) : nat := length (filter (fun b => nleb O b x) bins).

  Definition pw53 (x : T) : T := npow O x (ndiv O (nofZ O 5) (nofZ O 3)).
  Definition pw35 (x : T) : T := npow O x (ndiv O (nofZ O 3) (nofZ O 5)).
  (* returns per slab i = 1..L : (h_el, cn2_el, w_el) *)
  Definition equivalent_layers (h p w : list T) (L : nat) : list (T * T * T) :=
    let hstep := ndiv O (nsub O (lmax h) (lmin h)) (kn L) in
    let bins := slab_edges (lmin h) hstep L in
    let ix := map (fun x => digitize x bins) h in
    map (fun i =>
      let sel {A} (l : list A) := map snd (filter (fun kx => Nat.eqb (fst kx) (S i)) (combine ix l)) in
      let ps := sel p in let hs := sel h in let wsel := sel w in
      let cn2 := nsum O ps in
      (pw35 (ndiv O (nsum O (map2 (fun a b => nmul O a (pw53 b)) ps hs)) cn2), cn2,
       pw35 (ndiv O (nsum O (map2 (fun a b => nmul O a (pw53 b)) ps wsel)) cn2)))
      (seq 0 L).

  (* ---- optimal grouping ---- *)
  (* _convert_splits_to_groups(splits, N): [0..s0], [s0+1..s1], ..., [s_last+1..N-1]; NO group when splits is empty *)
  Fixpoint groups_from (start : nat) (splits : list nat) (N : nat) : list (list nat) :=
    match splits with
    | [] => [seq start (N - start)]
    | s :: r => seq start (S s - start) :: groups_from (S s) r N
    end.
  Definition convert_splits_to_groups (splits : list nat) (N : nat) : list (list nat) :=
    match splits with [] => [] | _ => groups_from 0 splits N end.
  (* cost of one group: min over candidate centre g of sum_k p_k |h_k - h_g| ; also the argmin height *)
  Definition group_costs (h p : list T) (g : list nat) : list T :=
    map (fun c => nsum O (map (fun k => nmul O (nth k p (nzero O)) (nabs O (nsub O (nth k h (nzero O)) (nth c h (nzero O))))) g)) g.
  Fixpoint argmin_from (l : list T) (i besti : nat) (best : T) : nat :=
    match l with [] => besti | x :: r => if nltb O x best then argmin_from r (S i) i x else argmin_from r (S i) besti best end.
  Definition argmin (l : list T) : nat := match l with [] => 0 | x :: r => argmin_from r 1 0 x end.
  Definition group_cost (h p : list T) (g : list nat) : T := lmin (group_costs h p g).
  Definition Gcost (h p : list T) (groups : list (list nat)) : T :=
    fold_left (fun acc g => nadd O acc (group_cost h p g)) groups (nzero O).
  Definition hmin_of (h p : list T) (groups : list (list nat)) : list T :=
    map (fun g => nth (nth (argmin (group_costs h p g)) g 0) h (nzero O)) groups.
  (* _vicinity: insert every possible extra split, then delete every one of the L splits *)
  Definition insert_at {A} (i : nat) (x : A) (l : list A) : list A := firstn i l ++ x :: skipn i l.
  Definition delete_at {A} (j : nat) (l : list A) : list A := firstn j l ++ skipn (S j) l.
  Definition vicinity (grouping : list nat) (N : nat) : list (list nat) :=
    let borders := map Z.of_nat grouping in
    let lo i := match i with 0 => (-1)%Z | S i' => nth i' borders 0%Z end in
    let hi i := if Nat.ltb i (length grouping) then nth i borders 0%Z else Z.of_nat (N - 1) in
    let pre := flat_map (fun i => map (fun j => insert_at i (Z.to_nat j) grouping)
                                      (map (fun k => (lo i + 1 + Z.of_nat k)%Z) (seq 0 (Z.to_nat (hi i - (lo i + 1))))))
                        (seq 0 (S (length grouping))) in
    flat_map (fun g => map (fun j => delete_at j g) (seq 0 (length g))) pre.
  Definition list_eqb (a b : list nat) : bool :=
    Nat.eqb (length a) (length b) && forallb (fun xy => Nat.eqb (fst xy) (snd xy)) (combine a b).
  (* _optGroupingMinimization: repeatedly move to the best neighbour until it is the current grouping *)
  Fixpoint opt_min (fuel : nat) (h p : list T) (N : nat) (g : list nat) : list nat * T :=
    let V := vicinity g N in
    let costs := map (fun v => Gcost h p (convert_splits_to_groups v N)) V in
    let k := argmin costs in
    let g' := nth k V g in
    let c := nth k costs (nzero O) in
    match fuel with
    | 0 => (g', c)
    | S f => if list_eqb g' g then (g', c) else opt_min f h p N g'
    end.
  (* equal split: linspace(0, N, L+1, dtype=int)[1:-1] *)
  Definition equal_split (N L : nat) : list nat := map (fun k => Nat.div (k * N) L) (seq 1 (L - 1)).
  Definition optimal_grouping (starts : list (list nat)) (L : nat) (h p : list T) : list T * list T :=
    let N := length p in
    let init := opt_min 199 h p N (equal_split N L) in
    let best := fold_left (fun b s => let r := opt_min 199 h p N s in if nltb O (snd r) (snd b) then r else b) starts init in
    let groups := convert_splits_to_groups (fst best) N in
    (hmin_of h p groups, map (fun g => nsum O (map (fun k => nth k p (nzero O)) g)) groups).
End Compress.
