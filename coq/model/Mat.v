(* dense matrices as row-major lists over a NumOps carrier: product, transpose (from Cplx.v), identity,
   diagonal, slicing.  Definitions only. *)
From Coq Require Import ZArith Bool List Arith.
Require Import AOV.base.Num AOV.base.Cplx.
Import ListNotations.

Section Mat.
  Context {T : Type} (O : NumOps T).
  Definition mat := list (list T).
  Definition mvec (A : mat) (v : list T) : list T := map (fun row => ndot O row v) A.
  Definition mmul (A B : mat) : mat := map (fun row => map (fun col => ndot O row col) (transpose B)) A.
  Definition madd (A B : mat) : mat := map2 (map2 (nadd O)) A B.
  Definition msub (A B : mat) : mat := map2 (map2 (nsub O)) A B.
  Definition vadd (a b : list T) : list T := map2 (nadd O) a b.
  Definition vsub (a b : list T) : list T := map2 (nsub O) a b.
  Definition vscale (s : T) (a : list T) : list T := map (nmul O s) a.
  Definition mident (n : nat) : mat :=
    map (fun i => map (fun j => if Nat.eqb i j then none O else nzero O) (seq 0 n)) (seq 0 n).
  Definition mdiag (d : list T) : mat :=
    map (fun i => map (fun j => if Nat.eqb i j then nth i d (nzero O) else nzero O) (seq 0 (length d))) (seq 0 (length d)).
  (* C[r0:r1, c0:c1] *)
  Definition mslice (C : mat) (r0 r1 c0 c1 : nat) : mat :=
    map (fun row => firstn (c1 - c0) (skipn c0 row)) (firstn (r1 - r0) (skipn r0 C)).
  Definition mrows (A : mat) : nat := length A.
  Definition mcols (A : mat) : nat := match A with [] => 0 | r :: _ => length r end.
  Definition msym (A : mat) : Prop := transpose A = A.
  (* quadratic form  v A v^T *)
  Definition qform (A : mat) (v : list T) : T := ndot O v (mvec A v).
End Mat.
