(* Hand-written model of aotools/turbulence/slopecovariance.py: CovarianceMatrix (geometry, per-layer
   projection, block assembly sequential and multi-process, mirroring).  compute_covariance_xx/yy/xy and
   structure_function_vk are the GENERATED definitions (Gen_slopecov).  Definitions only. *)
From Coq Require Import ZArith Bool List Arith.
Require Import AOV.base.Num AOV.base.Cplx AOV.model.Mat AOV.gen.Gen_slopecov.
Import ListNotations.

Section SlopeCov.
  Context {T : Type} (O : NumOps T).
  Local Notation mat := (@mat T).
  Definition tn (n : nat) : T := nofZ O (Z.of_nat n).

  Record wfs := { w_mask : list (list bool); w_d : T; w_alt : T; w_gsx : T; w_gsy : T; w_wvl : T }.
  Record layer := { l_h : T; l_r0 : T; l_L0 : T }.

  (* numpy.where(mask == 1): row-major (row, col) *)
  Definition where_true (m : list (list bool)) : list (nat * nat) :=
    concat (mapi (fun i row => concat (mapi (fun j b => if (b : bool) then [(i, j)] else []) row)) m).
  Definition n_subaps (w : wfs) : nat := length (where_true (w_mask w)).

  Section Ops.
  Local Notation "a + b" := (nadd O a b).  Local Notation "a - b" := (nsub O a b).
  Local Notation "a * b" := (nmul O a b).  Local Notation "a / b" := (ndiv O a b).

  (* array(where(mask==1)).T * d  - D/2.  - d/2. *)
  Definition subap_positions (D : T) (w : wfs) : list (T * T) :=
    map (fun p => (((tn (fst p) * w_d w) - D / nofZ O 2) - w_d w / nofZ O 2,
                   ((tn (snd p) * w_d w) - D / nofZ O 2) - w_d w / nofZ O 2)) (where_true (w_mask w)).
  (* per layer: cone scaling for LGS (gs_altitude != 0), then translation gs_pos * pi/180/3600 * h *)
  Definition scale_factor (w : wfs) (l : layer) : T :=
    if neqb O (w_alt w) (nzero O) then none O else none O - l_h l / w_alt w.
  Definition gs_rad (g : T) : T := ((g * npi O) / nofZ O 180) / nofZ O 3600.
  Definition layer_positions (D : T) (w : wfs) (l : layer) : list (T * T) :=
    let sc := scale_factor w l in
    map (fun p => (let x := if neqb O (w_alt w) (nzero O) then fst p else sc * fst p in x + gs_rad (w_gsx w) * l_h l,
                   let y := if neqb O (w_alt w) (nzero O) then snd p else sc * snd p in y + gs_rad (w_gsy w) * l_h l))
        (subap_positions D w).
  Definition layer_diam (w : wfs) (l : layer) : T := w_d w * scale_factor w l.

  (* calculate_wfs_seperations: (x2 - x1, y2 - y1) + 1e-20 *)
  Definition eps20 : T := nofQ O 1 100000000000000000000.
  Definition seps (p1 p2 : list (T * T)) : list (list (T * T)) :=
    map (fun a => map (fun b => ((fst b - fst a) + eps20, (snd b - snd a) + eps20)) p2) p1.
  (* wfs_covariance: the three blocks *)
  Definition wfs_cov (p1 p2 : list (T * T)) (d1 d2 r0 L0 : T) : mat * mat * mat :=
    let s := seps p1 p2 in
    (map (map (fun u => compute_covariance_xx O u d1 d2 r0 L0)) s,
     map (map (fun u => compute_covariance_yy O u d1 d2 r0 L0)) s,
     map (map (fun u => compute_covariance_xy O u d1 d2 r0 L0)) s).
  (* r0_scale = (wvl_i * wvl_j) / (8 * pi**2 * d_i * d_j) *)
  Definition r0_scale (wi wj : wfs) (l : layer) : T :=
    (w_wvl wi * w_wvl wj) / (((nofZ O 8 * nsqr O (npi O)) * layer_diam wi l) * layer_diam wj l).

  (* M[r0:r0+h, c0:c0+w] += blk * s   (float32 storage) *)
  Definition upd_row (row : list T) (c0 : nat) (brow : list T) (s : T) : list T :=
    mapi (fun j v => if (c0 <=? j)%nat && (j <? c0 + length brow)%nat
                     then nf32 O (v + nth (j - c0) brow (nzero O) * s) else v) row.
  Definition add_block (M : mat) (r0 c0 : nat) (blk : mat) (s : T) : mat :=
    mapi (fun i row => if (r0 <=? i)%nat && (i <? r0 + length blk)%nat
                       then upd_row row c0 (nth (i - r0) blk []) s else row) M.
  End Ops.

  Definition flip2 (m : mat) : mat := rev (map (@rev T) m).    (* fliplr(flipud(m)) *)
  Definition offset (ws : list wfs) (i : nat) : nat := 2 * fold_left Nat.add (map n_subaps (firstn i ws)) 0.

  (* the four block updates for WFS pair (i, j) *)
  Definition add_pair (ws : list wfs) (l : layer) (M : mat) (i j : nat) (res : mat * mat * mat) : mat :=
    let '(cxx, cyy, cxy) := res in
    let wi := nth i ws (Build_wfs [] (nzero O) (nzero O) (nzero O) (nzero O) (nzero O)) in
    let wj := nth j ws (Build_wfs [] (nzero O) (nzero O) (nzero O) (nzero O) (nzero O)) in
    let ni := n_subaps wi in let nj := n_subaps wj in
    let x1 := offset ws i in let y1 := offset ws j in
    let s := r0_scale wi wj l in
    let M1 := add_block M x1 y1 cxx s in
    let M2 := add_block M1 (x1 + ni) y1 cxy s in
    let M3 := add_block M2 x1 (y1 + nj) (flip2 cxy) s in
    add_block M3 (x1 + ni) (y1 + nj) cyy s.

  Definition pairs (n : nat) : list (nat * nat) :=
    flat_map (fun i => map (fun j => (i, j)) (seq 0 (S i))) (seq 0 n).
  Definition pair_result (D : T) (ws : list wfs) (l : layer) (ij : nat * nat) : mat * mat * mat :=
    let d := Build_wfs [] (nzero O) (nzero O) (nzero O) (nzero O) (nzero O) in
    let wi := nth (fst ij) ws d in let wj := nth (snd ij) ws d in
    wfs_cov (layer_positions D wi l) (layer_positions D wj l) (layer_diam wi l) (layer_diam wj l) (l_r0 l) (l_L0 l).
  Definition zero_mat (n : nat) : mat := repeat (repeat (nzero O) n) n.
  Definition total2 (ws : list wfs) : nat := offset ws (length ws).

  (* sequential path: compute and add, layer by layer, pair by pair *)
  Definition assemble_layer_seq (D : T) (ws : list wfs) (M : mat) (l : layer) : mat :=
    fold_left (fun M ij => add_pair ws l M (fst ij) (snd ij) (pair_result D ws l ij)) (pairs (length ws)) M.
  Definition assemble_seq (D : T) (ws : list wfs) (ls : list layer) : mat :=
    fold_left (assemble_layer_seq D ws) ls (zero_mat (total2 ws)).

  (* multi-process path: pool.map over the argument list (results in submission order whatever the
     completion order `sched`), then positional consumption with thread_n *)
  Definition pool_map {A B} (f : A -> B) (args : list A) (sched : list nat) : list (option B) :=
    fold_left (fun slots k => mapi (fun i s => if Nat.eqb i k then option_map f (nth_error args k) else s) slots)
              sched (repeat None (length args)).
  Definition assemble_layer_mp (D : T) (ws : list wfs) (sched : list nat) (M : mat) (l : layer) : mat :=
    let args := pairs (length ws) in
    let results := pool_map (pair_result D ws l) args sched in
    fold_left (fun M ijr => match snd ijr with
                            | Some r => add_pair ws l M (fst (fst ijr)) (snd (fst ijr)) r
                            | None => M     (* a missing result: cannot happen under the map contract *)
                            end) (combine args results) M.
  Definition assemble_mp (D : T) (ws : list wfs) (ls : list layer) (scheds : list (list nat)) : mat :=
    fold_left (fun M ls_ => assemble_layer_mp D ws (snd ls_) M (fst ls_)) (combine ls scheds) (zero_mat (total2 ws)).

  (* mirror_covariance_matrix: bitwise_or(M.view(int32), M.T.view(int32)).view(float32) *)
  Definition mirror (M : mat) : mat := map2 (map2 (nbor32 O)) M (transpose M).
  Definition make_covariance_matrix (D : T) (ws : list wfs) (ls : list layer) : mat :=
    mirror (assemble_seq D ws ls).
  Definition make_covariance_matrix_mp (D : T) (ws : list wfs) (ls : list layer) (scheds : list (list nat)) : mat :=
    mirror (assemble_mp D ws ls scheds).
End SlopeCov.
