(* Hand-written model of aotools/fouriertransform.py (ft, ift, ft2, ift2, rft, irft, rft2, irft2) and of
   aotools/turbulence/phasescreen.py:ift2, exactly as written there: which shift is applied where, which
   length enters the scale factor.  numpy.fft.{fft,ifft,fft2,ifft2,rfft,irfft} are the explicit sums of
   base/Cplx.v.  Definitions only; tied to the code by the correspondence check of C09. *)
From Coq Require Import ZArith Bool List Arith.
Require Import AOV.base.Num AOV.base.Cplx.
Import ListNotations.

Section Fourier.
  Context {T : Type} (O : NumOps T).
  Local Notation cx := (@cx T).
  Definition nlen {A} (l : list A) : T := nofZ O (Z.of_nat (length l)).
  Definition ncols {A} (m : list (list A)) : nat := match m with [] => 0 | r :: _ => length r end.

  (* ---- fouriertransform.py ---- *)
  Definition ft (x : list cx) (delta : T) : list cx :=
    cscale_l O delta (fftshift (dft O (ifftshift x))).
  (* "* data.shape[-1] * delta_f" : two successive scalings *)
  Definition ift (X : list cx) (delta_f : T) : list cx :=
    cscale_l O delta_f (cscale_l O (nlen X) (fftshift (idft O (ifftshift X)))).
  Definition ft2 (m : list (list cx)) (delta : T) : list (list cx) :=
    cscale_m O (nsqr O delta) (fftshift2 (dft2 O (ifftshift2 m))).
  (* N = data.shape[-1] *)
  Definition ift2 (m : list (list cx)) (delta_f : T) : list (list cx) :=
    let N := nofZ O (Z.of_nat (ncols m)) in
    cscale_m O (nsqr O (nmul O N delta_f)) (fftshift2 (idft2 O (ifftshift2 m))).
  (* leading batch axes: every function maps over them *)
  Definition ft_batch (xs : list (list cx)) (delta : T) := map (fun x => ft x delta) xs.
  Definition ift_batch (xs : list (list cx)) (delta_f : T) := map (fun x => ift x delta_f) xs.
  Definition ft2_batch (ms : list (list (list cx))) (delta : T) := map (fun m => ft2 m delta) ms.
  Definition ift2_batch (ms : list (list (list cx))) (delta_f : T) := map (fun m => ift2 m delta_f) ms.

  (* ---- turbulence/phasescreen.py: ift2(G, delta_f) (FFT=None branch) ----
     fft.ifftshift(fft.ifft2(fft.fftshift(G))) * (N*delta_f)**2  with N = G.shape[0];
     the shifts are over ALL axes (no axes argument); for a 2-D input that is both axes *)
  Definition ps_ift2 (m : list (list cx)) (delta_f : T) : list (list cx) :=
    let N := nlen m in
    cscale_m O (nsqr O (nmul O N delta_f)) (ifftshift2 (idft2 O (fftshift2 m))).

  (* ---- real-input variants ---- *)
  Definition rfft (x : list cx) : list cx := firstn (S (Nat.div (length x) 2)) (dft O x).
  (* numpy.fft.irfft(X) with default n = 2*(len(X)-1): Hermitian extension, inverse transform, real part *)
  Definition irfft (X : list cx) : list cx :=
    let ext := X ++ map (cconj O) (rev (tl (removelast X))) in
    map (fun z => cofR O (cre z)) (idft O ext).
  Definition rft (x : list cx) (delta : T) : list cx :=
    cscale_l O delta (fftshift (rfft (fftshift x))).
  Definition irft (X : list cx) (delta_f : T) : list cx :=
    cscale_l O delta_f (cscale_l O (nlen X) (ifftshift (irfft (ifftshift X)))).
End Fourier.
