(* Hand-written model of aotools/functions/karhunenLoeve.py (Kolmogorov statistics): equal-area radial
   grid, azimuthal Fourier decomposition of the structure-function kernel, piston filtering, the
   selection / sorting / cos-sin pairing of gkl_fcom (numpy.linalg.eigh and numpy.argsort results are
   inputs: LAPACK contract), azimuthal functions, polar synthesis, the Cartesian geometry of pcgeom and the
   order-1 map_coordinates resampling of pol2car.  Definitions only. *)
From Coq Require Import ZArith Bool List Arith.
Require Import AOV.base.Num AOV.base.Cplx AOV.model.Mat AOV.gen.Gen_kl.
Import ListNotations.

Section KL.
  Context {T : Type} (O : NumOps T).
  Local Notation mat := (@mat T).
  Definition kz (n : nat) : T := nofZ O (Z.of_nat n).

  Section Ops.
  Local Notation "a + b" := (nadd O a b).  Local Notation "a - b" := (nsub O a b).
  Local Notation "a * b" := (nmul O a b).  Local Notation "a / b" := (ndiv O a b).
  Definition two : T := nofZ O 2.
  (* gkl_radii: d = (1 - ri^2)/nr ; r2 = ri^2 + d*arange(nr) + d/16 ; sqrt *)
  Definition gkl_radii (ri : T) (nr : nat) : list T :=
    let d := (none O - nsqr O ri) / kz nr in
    map (fun k => nsqrt O ((nsqr O ri + d * kz k) + d / nofZ O 16)) (seq 0 nr).
  (* gkl_kernel, Kolmogorov: for the pair (i, j): radius_t = 0.5 sqrt(max(ri^2 + rj^2 - 2 ri rj cos(2 pi t/nth), 0)),
     sf = stf_kolmogorov(radius), value = Re( fnorm (2 pi/nth) fft(sf) ), fnorm = 1/2 * (-1)/(2 pi (1 - ri^2)) *)
  Definition kernel_pair (ri : T) (nr : nat) (rad : list T) (i j : nat) : list T :=
    let nth_ := Nat.mul 5 nr in
    let fnorm := ((none O / two) * nopp O (none O)) / ((two * npi O) * (none O - nsqr O ri)) in
    let a := nth i rad (nzero O) in let b := nth j rad (nzero O) in
    let sf := map (fun t => stf_kolmogorov O (nofQ O 5 10 * nsqrt O (nmax O ((nsqr O a + nsqr O b) - ((two * a) * b) * ncos O (((kz t * two) * npi O) / kz nth_)) (nzero O))))
                  (seq 0 nth_) in
    map (fun z => (fnorm * ((two * npi O) / kz nth_)) * fst z) (dft O (map (cofR O) sf)).
  (* kernel[:, :, p] for azimuthal order p (symmetric: computed for j <= i and copied) *)
  Definition kernel_order (ri : T) (nr : nat) (rad : list T) (p : nat) : mat :=
    map (fun i => map (fun j => nth p (kernel_pair ri nr rad (Nat.max i j) (Nat.min i j)) (nzero O)) (seq 0 nr)) (seq 0 nr).
  (* piston_orth(nr): column j < nr-1: rnm = 1/sqrt((j+1)(j+2)); s[0..j][j] = rnm; s[j+1][j] = -(j+1) rnm; last column 1/sqrt(nr) *)
  Definition piston_orth (nr : nat) : mat :=
    map (fun i => map (fun j =>
        if Nat.eqb (S j) nr then none O / nsqrt O (kz nr)
        else let rnm := none O / nsqrt O (kz (Nat.mul (S j) (S (S j)))) in
             if Nat.leb i j then rnm else if Nat.eqb i (S j) then (nopp O (none O) * kz (S j)) * rnm else nzero O)
      (seq 0 nr)) (seq 0 nr).
  (* the matrix handed to eigh for order 0: fktom * (s zom s^T)[0:nr-1, 0:nr-1], s = piston_orth(nr).T *)
  Definition fktom (ri : T) (nr : nat) : T := (none O - nsqr O ri) / kz nr.
  Definition order0_matrix (ri : T) (nr : nat) (zom : mat) : mat :=
    let s := transpose (piston_orth nr) in
    let b := mmul O (mmul O s zom) (transpose s) in
    map (fun row => map (fun v => fktom ri nr * v) (firstn (nr - 1) row)) (firstn (nr - 1) b).
  Definition orderp_matrix (ri : T) (nr : nat) (kp : mat) : mat := map (map (fun v => fktom ri nr * v)) kp.
  (* radial eigenvector matrices stored back into kers: order 0: sqrt(nr) * (v1 . s)^T with v1 = blockdiag(v0^T, 1);
     order p >= 1: sqrt(2 nr) * vs *)
  Definition radial0 (nr : nat) (v0 : mat) : mat :=
    let v1 := map (fun i => map (fun j => if Nat.ltb i (nr - 1) && Nat.ltb j (nr - 1) then nth i (nth j v0 []) (nzero O)
                                         else if Nat.eqb i (nr - 1) && Nat.eqb j (nr - 1) then none O else nzero O) (seq 0 nr)) (seq 0 nr) in
    let vs := mmul O v1 (transpose (piston_orth nr)) in
    map (map (fun v => nsqrt O (kz nr) * v)) (transpose vs).
  Definition radialp (nr : nat) (vs : mat) : mat := map (map (fun v => nsqrt O (kz (Nat.mul 2 nr)) * v)) vs.
  End Ops.

  (* ---- selection, sorting and pairing (integers and comparisons only) ----
     evs : for each computed order p, the nr eigenvalues as eigh returns them (order 0 has 0 appended);
     stop after order nxt when 2*#{ev > mxn over orders 0..nxt} - #{ev > mxn in order 0} >= nfunc *)
  Definition count_gt (mx : T) (l : list T) : nat := length (filter (fun e => nltb O mx e) l).
  Definition lmaxT (l : list T) : T := fold_left (nmax O) l (hd (nzero O) l).
  Definition stop_after (evs : list (list T)) (nxt nfunc : nat) : bool :=
    let mxn := lmaxT (nth nxt evs []) in
    let upto := firstn (S nxt) evs in
    Nat.leb nfunc (2 * fold_left Nat.add (map (count_gt mxn) upto) 0 - count_gt mxn (hd [] upto)).
  (* flat index a = order * nr + position (evs reshaped order-major); sorted = argsort(-evs)[0:nfunc] is an input *)
  Fixpoint pair_up (fuel : nat) (nr nfunc : nat) (a : list nat) (acc : list nat) : list nat :=
    match fuel with
    | 0 => acc
    | S f => if Nat.leb nfunc (length acc) then acc else
             match a with
             | [] => acc
             | x :: r => if Nat.ltb x nr then pair_up f nr nfunc r (acc ++ [x]) else pair_up f nr nfunc r (acc ++ [x; x])
             end
    end.
  Definition oind (nr nfunc : nat) (sorted : list nat) : list nat := firstn nfunc (pair_up (S nfunc) nr nfunc sorted []).
  Definition tord (nr : nat) (oi : list nat) : list nat := map (fun x => Nat.div x nr) oi.
  Definition pio (nr : nat) (oi : list nat) : list nat := map (fun x => Nat.modulo x nr) oi.
  (* oord = 2*tord - ((tord >= 1) & odd position) *)
  Definition oord (nr : nat) (oi : list nat) : list nat :=
    mapi (fun k t => 2 * t - (if Nat.leb 1 t && Nat.odd k then 1 else 0)) (tord nr oi).
  Definition evals_out (evs_flat : list T) (oi : list nat) : list T := map (fun x => nth x evs_flat (nzero O)) oi.
  (* rabas[:, i] = kers[:, pio[i], tord[i]] *)
  Definition rabas_col (kers : list mat) (nr : nat) (oi : list nat) (i : nat) : list T :=
    let p := nth i (tord nr oi) 0 in let q := nth i (pio nr oi) 0 in
    map (fun row => nth q row (nzero O)) (nth p kers []).

  Section Ops2.
  Local Notation "a + b" := (nadd O a b).  Local Notation "a - b" := (nsub O a b).
  Local Notation "a * b" := (nmul O a b).  Local Notation "a / b" := (ndiv O a b).
  (* gkl_azimuthal(nord, npp): row 0 = 1; odd rows i: cos((i/2+1) theta); even rows i >= 2: sin((i/2) theta) *)
  Definition azimuthal (nord npp : nat) : mat :=
    map (fun i => map (fun t =>
        let th := kz t * ((two * npi O) / kz npp) in
        if Nat.eqb i 0 then none O
        else if Nat.ltb i nord then (if Nat.odd i then ncos O (kz (Nat.div i 2 + 1) * th) else nsin O (kz (Nat.div i 2) * th))
        else nzero O) (seq 0 npp)) (seq 0 (S nord)).
  (* gkl_sfi: outer product of the radial vector and the azimuthal row *)
  Definition sfi (rad_col az_row : list T) : mat := map (fun r => map (fun a => r * a) az_row) rad_col.

  (* ---- Cartesian geometry (pcgeom with ncmar = 0) ---- *)
  Definition car_coord (ncp : nat) (k : nat) : T := (kz k - nofQ O 5 10 * kz (ncp - 1)) / (nofQ O 5 10 * kz ncp).
  Definition pupil_px (ncp : nat) (ri : T) (i j : nat) : bool :=
    let ax := car_coord ncp j in let ay := car_coord ncp i in
    let c2 := nsqr O ax + nsqr O ay in
    nleb O (nsqr O ri) c2 && nleb O c2 (none O).
  Definition pupil (ncp : nat) (ri : T) : mat :=
    map (fun i => map (fun j => if pupil_px ncp ri i j then none O else nzero O) (seq 0 ncp)) (seq 0 ncp).
  (* map_coordinates(pol, [cr, cp], order=1, mode='nearest') at fractional (r, c) *)
  Definition clampi (z : Z) (n : nat) : nat := Z.to_nat (Z.max 0 (Z.min z (Z.of_nat n - 1))).
  Definition bilinear (pol : mat) (r c : T) : T :=
    let nrw := length pol in let ncl := length (hd [] pol) in
    let r0 := ntoZ O (nfloor O r) in let c0 := ntoZ O (nfloor O c) in
    let fr := r - nofZ O r0 in let fc := c - nofZ O c0 in
    let at_ i j := nth (clampi j ncl) (nth (clampi i nrw) pol []) (nzero O) in
    ((none O - fr) * ((none O - fc) * at_ r0 c0 + fc * at_ r0 (c0 + 1)%Z))
    + (fr * ((none O - fc) * at_ (r0 + 1)%Z c0 + fc * at_ (r0 + 1)%Z (c0 + 1)%Z)).
  (* pcgeom (ncmar = 0): fractional polar indices of Cartesian pixel (i, j) -- cr along the radial axis of the
     polar array (linear in r^2: the equal-area grid of `radii`), cp along the azimuthal axis; both clipped *)
  Definition nclip (x lo hi : T) : T := nmin O (nmax O x lo) hi.
  Definition geom_cr (ncp : nat) (ri : T) (nr : nat) (i j : nat) : T :=
    let c2 := nsqr O (car_coord ncp j) + nsqr O (car_coord ncp i) in
    nclip (((c2 - nsqr O ri) / (none O - nsqr O ri)) * kz nr) (nofQ O 1 1000) (kz nr - nofQ O 1001 1000).
  Definition geom_cp (ncp : nat) (npp : nat) (i j : nat) : T :=
    let dpi := two * npi O in
    let a := natan2 O (car_coord ncp i) (car_coord ncp j) + dpi in
    let a := if nleb O dpi a then a - dpi else a in
    nclip ((kz npp / dpi) * a) (nofQ O 1 1000) (kz npp - nofQ O 1001 1000).
  (* pol2car / make_kl pixel *)
  Definition kl_pixel (pol : mat) (ri : T) (nr npp ncp : nat) (mask : bool) (i j : nat) : T :=
    let v := bilinear pol (geom_cr ncp ri nr i j) (geom_cp ncp npp i j) in
    if mask then v * (if pupil_px ncp ri i j then none O else nzero O) else v.
  Definition kl_image (pol : mat) (ri : T) (nr npp ncp : nat) (mask : bool) : mat :=
    map (fun i => map (fun j => kl_pixel pol ri nr npp ncp mask i j) (seq 0 ncp)) (seq 0 ncp).
  End Ops2.
End KL.
