(* Hand-written model of aotools/opticalpropagation.py, pixel by pixel as written there.
   exp(1j*t) is cis t; meshgrid(c, c) puts c[j] on the x (column) axis and c[i] on the y (row) axis;
   fouriertransform.ft2/ift2 are those of model/Fourier.v.  Definitions only. *)
From Coq Require Import ZArith Bool List Arith.
Require Import AOV.base.Num AOV.base.Cplx AOV.model.Fourier.
Import ListNotations.

Section Optics.
  Context {T : Type} (O : NumOps T).
  Local Notation cx := (@cx T).
  Local Notation "a + b" := (nadd O a b).  Local Notation "a - b" := (nsub O a b).
  Local Notation "a * b" := (nmul O a b).  Local Notation "a / b" := (ndiv O a b).
  Local Notation "- a" := (nopp O a).

  Definition ofnat (n : nat) : T := nofZ O (Z.of_nat n).
  (* d * numpy.arange(-N/2, N/2) *)
  Definition coordsN (N : nat) (d : T) : list T :=
    map (fun j => d * (- (ofnat N / nofZ O 2) + ofnat j)) (seq 0 N).
  (* exp(1j * a * (x^2 + y^2 + off)) on meshgrid(c, c) *)
  Definition phase_grid (c : list T) (a : T) (off : T) : list (list cx) :=
    map (fun y => map (fun x => cis O (a * ((nsqr O x + nsqr O y) + off))) c) c.
  Definition cdivr_m (m : list (list cx)) (r : T) : list (list cx) :=
    map (map (fun z => (fst z / r, snd z / r))) m.
  Definition cmulc_m (a : cx) (m : list (list cx)) : list (list cx) := map (map (cmul O a)) m.
  Definition kwave (wvl : T) : T := (nofZ O 2 * npi O) / wvl.
  Definition eps10 : T := nofQ O 1 10000000000.

  Definition angularSpectrum (U : list (list cx)) (wvl d1 d2 z : T) : list (list cx) :=
    if neqb O z (nzero O) then U else
    let N := length U in
    let k := kwave wvl in
    let df1 := none O / (ofnat N * d1) in
    let mag := d2 / d1 in
    let Q1 := phase_grid (coordsN N d1) (((k / nofZ O 2) * (none O - mag)) / z) eps10 in
    let Q2 := phase_grid (coordsN N df1) ((((- (nsqr O (npi O)) * nofZ O 2) * z) / mag) / k) (nzero O) in
    let Q3 := phase_grid (coordsN N d2) (((k / nofZ O 2) * (mag - none O)) / (mag * z)) (nzero O) in
    cmul_m O Q3 (ift2 O (cmul_m O Q2 (ft2 O (cdivr_m (cmul_m O Q1 U) mag) d1)) df1).

  (* 1/(1j*wvl*z) *)
  Definition inv_i (b : T) : cx := cdiv O (cone O) (nzero O, b).

  Definition oneStepFresnel (U : list (list cx)) (wvl d1 z : T) : list (list cx) :=
    let N := length U in
    let k := kwave wvl in
    let d2 := (wvl * z) / (ofnat N * d1) in
    let a := k / (nofZ O 2 * z) in
    let A := inv_i (wvl * z) in
    let B := phase_grid (coordsN N d2) a (nzero O) in
    let C := ft2 O (cmul_m O U (phase_grid (coordsN N d1) a (nzero O))) d1 in
    cmul_m O (cmulc_m A B) C.

  Definition twoStepFresnel (U : list (list cx)) (wvl d1 d2 z : T) : list (list cx) :=
    let N := length U in
    let k := kwave wvl in
    let m := d2 / d1 in
    (* try: z/(1-m)  except ZeroDivisionError: z/(1+m)   (Python floats) *)
    let Dz1 := if neqb O (none O - m) (nzero O) then z / (none O + m) else z / (none O - m) in
    let d1a := (wvl * nabs O Dz1) / (ofnat N * d1) in
    let a1 := k / (nofZ O 2 * Dz1) in
    let Uitm := cmul_m O (cmulc_m (inv_i (wvl * Dz1)) (phase_grid (coordsN N d1a) a1 (nzero O)))
                         (ft2 O (cmul_m O U (phase_grid (coordsN N d1) a1 (nzero O))) d1) in
    let Dz2 := z - Dz1 in
    let a2 := k / (nofZ O 2 * Dz2) in
    cmul_m O (cmulc_m (inv_i (wvl * Dz2)) (phase_grid (coordsN N d2) a2 (nzero O)))
             (ft2 O (cmul_m O Uitm (phase_grid (coordsN N d1a) a2 (nzero O))) d1a).

  Definition lensAgainst (U : list (list cx)) (wvl d1 f : T) : list (list cx) :=
    let N := length U in
    let k := kwave wvl in
    (* x2 = wvl * f * (arange(-N/2, N/2)/(N*d1)) *)
    let x2 := map (fun j => (wvl * f) * ((- (ofnat N / nofZ O 2) + ofnat j) / (ofnat N * d1))) (seq 0 N) in
    let B := phase_grid x2 (k / (nofZ O 2 * f)) (nzero O) in
    cmul_m O (map (map (fun z => cdiv O z (nzero O, wvl * f))) B) (ft2 O U d1).
End Optics.
