(* Hand-written model of aotools/turbulence/infinitephasescreen.py: stencil and new-row geometry,
   separations, covariance blocks, A and B matrices, row synthesis (both variants) and the add_row /
   scrn state machine.  phase_covariance comes from the generated Gen_turb; the Cholesky inverse and the
   SVD are parameters (LAPACK contracts).  Definitions only. *)
From Coq Require Import ZArith Bool List Arith.
Require Import AOV.base.Num AOV.base.Cplx AOV.model.Mat AOV.gen.Gen_turb.
Import ListNotations.

(* find_allowed_size: smallest 2^n + 1 >= nx *)
Fixpoint fas_loop (fuel n nx : nat) : nat :=
  match fuel with
  | 0 => n
  | S f => if Nat.ltb (2 ^ n + 1) nx then fas_loop f (S n) nx else n
  end.
Definition find_allowed_size (nx : nat) : nat := 2 ^ (fas_loop nx 0 nx) + 1.

(* max_n of set_stencil_coords: first n >= 1 with 2^(n-1)+1 >= nx, minus 1 *)
Fixpoint maxn_loop (fuel n nx : nat) : nat :=
  match fuel with
  | 0 => n - 1
  | S f => if Nat.leb nx (2 ^ (n - 1) + 1) then n - 1 else maxn_loop f (S n) nx
  end.
Definition stencil_max_n (nx : nat) : nat := maxn_loop (S nx) 1 nx.

Section InfScreen.
  Context {T : Type} (O : NumOps T).
  Local Notation mat := (@mat T).
  Definition nn (n : nat) : T := nofZ O (Z.of_nat n).

  (* von Karman stencil: the first n_columns rows, row-major *)
  Definition vk_stencil (nx n_columns : nat) : list (nat * nat) :=
    flat_map (fun i => map (fun j => (i, j)) (seq 0 nx)) (seq 0 n_columns).
  (* Fried stencil: rows col-1 with col = int(2^(n-1)+1) (n = 0 gives 1), points round(linspace(0, nx-1, 2^(max_n-n)+1));
     tail points (k*nx - 1, nx/2), k = 1..factor; enumerated like numpy.where (row-major, no duplicates) *)
  Definition lin_round (nx npts k : nat) : nat :=
    (* round(k * (nx-1)/(npts-1)), computed in T like numpy.linspace + numpy.round *)
    Z.to_nat (ntoZ O (nround O (nmul O (nn k) (ndiv O (nn (nx - 1)) (nn (npts - 1)))))).
  Definition fried_marks (nx factor : nat) : list (nat * nat) :=
    let mx := stencil_max_n nx in
    flat_map (fun n => let col := if Nat.eqb n 0 then 1 else 2 ^ (n - 1) + 1 in
                       let npts := 2 ^ (mx - n) + 1 in
                       map (fun k => (col - 1, if Nat.eqb npts 1 then 0 else lin_round nx npts k)) (seq 0 npts))
             (seq 0 (S mx))
    ++ map (fun k => (k * nx - 1, Nat.div nx 2)) (seq 1 factor).
  Definition mem_pair (p : nat * nat) (l : list (nat * nat)) : bool :=
    existsb (fun q => Nat.eqb (fst p) (fst q) && Nat.eqb (snd p) (snd q)) l.
  Definition fried_stencil (nx factor : nat) : list (nat * nat) :=
    let marks := fried_marks nx factor in
    filter (fun p => mem_pair p marks)
           (flat_map (fun i => map (fun j => (i, j)) (seq 0 nx)) (seq 0 (factor * nx))).

  Local Notation "a + b" := (nadd O a b).  Local Notation "a - b" := (nsub O a b).
  Local Notation "a * b" := (nmul O a b).
  (* positions = coords * pixel_scale ; new-row points (-1, j) *)
  Definition pos_of (ps : T) (p : nat * nat) : T * T := (nn (fst p) * ps, nn (snd p) * ps).
  Definition x_positions (nx : nat) (ps : T) : list (T * T) :=
    map (fun j => (nopp O (none O) * ps, nn j * ps)) (seq 0 nx).
  Definition all_positions (stencil : list (nat * nat)) (nx : nat) (ps : T) : list (T * T) :=
    map (pos_of ps) stencil ++ x_positions nx ps.
  Definition separations (pts : list (T * T)) : mat :=
    map (fun p => map (fun q => nsqrt O (nsqr O (fst q - fst p) + nsqr O (snd q - snd p))) pts) pts.
  Definition cov_mat (pts : list (T * T)) (r0 L0 : T) : mat :=
    map (map (fun r => phase_covariance O r r0 L0)) (separations pts).
  Definition cov_zz (C : mat) (ns : nat) : mat := map (firstn ns) (firstn ns C).
  Definition cov_xx (C : mat) (ns : nat) : mat := map (skipn ns) (skipn ns C).
  Definition cov_zx (C : mat) (ns : nat) : mat := map (skipn ns) (firstn ns C).
  Definition cov_xz (C : mat) (ns : nat) : mat := map (firstn ns) (skipn ns C).

  (* A = cov_xz . inv(cov_zz) ;  BBt = cov_xx - A . cov_zx ; B = u . diag(sqrt(W)) *)
  Definition A_mat (Cxz inv_zz : mat) : mat := mmul O Cxz inv_zz.
  Definition BBt (Cxx A Czx : mat) : mat := msub O Cxx (mmul O A Czx).
  Definition B_mat (u : mat) (W : list T) : mat := mmul O u (mdiag O (map (nsqrt O) W)).

  (* row synthesis *)
  Definition stencil_data (scrn : mat) (stencil : list (nat * nat)) : list T :=
    map (fun p => nth (snd p) (nth (fst p) scrn []) (nzero O)) stencil.
  Definition new_row_vk (A B : mat) (Z b : list T) : list T := vadd O (mvec O A Z) (mvec O B b).
  Definition new_row_fried (A B : mat) (Z : list T) (ref : T) (b : list T) : list T :=
    map (fun v => v + ref) (vadd O (mvec O A (map (fun z => z - ref) Z)) (mvec O B b)).

  (* ---- state machine: _scrn is stencil_length x nx_size; scrn exposes req x req ---- *)
  Record screen := { sl : nat; nxs : nat; req : nat; data : mat }.
  Definition add_row_state (s : screen) (row : list T) : screen :=
    {| sl := sl s; nxs := nxs s; req := req s;
       data := firstn (sl s) (map (firstn (nxs s)) (row :: data s)) |}.
  Definition exposed (s : screen) : mat := map (firstn (req s)) (firstn (req s) (data s)).
  Definition step_vk (A B : mat) (stencil : list (nat * nat)) (s : screen) (b : list T) : screen :=
    add_row_state s (new_row_vk A B (stencil_data (data s) stencil) b).
  Definition step_fried (A B : mat) (stencil : list (nat * nat)) (s : screen) (b : list T) : screen :=
    add_row_state s (new_row_fried A B (stencil_data (data s) stencil)
                                   (nth 1 (nth 1 (data s) []) (nzero O)) b).
End InfScreen.
