(* Hand-written model of aotools/image_processing/centroiders.py as written at the pinned commit:
   centre_of_gravity (2-D path subtracts the threshold, N-D path only zeroes below it), brightest_pixel,
   cross_correlate (FFT correlation, abs, fftshift), correlation_centroid, quadCell.  Definitions only. *)
From Coq Require Import ZArith Bool List Arith.
Require Import AOV.base.Num AOV.base.Cplx.
Import ListNotations.

Section Centroid.
  Context {T : Type} (O : NumOps T).
  Local Notation img := (list (list T)).
  Definition cn (n : nat) : T := nofZ O (Z.of_nat n).
  Definition tsum (m : img) : T := nsum O (map (nsum O) m).            (* img.sum() *)
  Definition max2 (m : img) : T :=
    fold_left (nmax O) (concat m) (hd (nzero O) (concat m)).
  (* first moments: y_cent = row index, x_cent = column index; returns (x, y) *)
  Definition ymoment (m : img) : T := nsum O (mapi (fun i row => nmul O (cn i) (nsum O row)) m).
  Definition xmoment (m : img) : T := nsum O (map (fun row => nsum O (mapi (fun j v => nmul O (cn j) v) row)) m).
  Definition cog_plain (m : img) : T * T :=
    (ndiv O (xmoment m) (tsum m), ndiv O (ymoment m) (tsum m)).

  (* 2-D path:  thres = max(threshold*img.max(), min_threshold); img = where(img > thres, img - thres, 0) *)
  Definition thr2d (thr minthr : T) (m : img) : img :=
    let t := nmax O (nmul O thr (max2 m)) minthr in
    map (map (fun v => if nltb O t v then nsub O v t else nzero O)) m.
  Definition cog2d (thr minthr : T) (m : img) : T * T :=
    if neqb O thr (nzero O) then cog_plain m else cog_plain (thr2d thr minthr m).
  (* N-D path, per frame: thres = maximum(threshold*max, min_threshold); pixels with img - thres < 0 are set
     to 0, the others keep their value (no subtraction) *)
  Definition thrNd (thr minthr : T) (m : img) : img :=
    let t := nmax O (nmul O thr (max2 m)) minthr in
    map (map (fun v => if nltb O (nsub O v t) (nzero O) then nzero O else v)) m.
  Definition cogNd (thr minthr : T) (frames : list img) : list (T * T) :=
    if neqb O thr (nzero O) then map cog_plain frames else map (fun m => cog_plain (thrNd thr minthr m)) frames.

  (* brightest_pixel: nPxls = int(round(threshold * nx * ny)); value = sorted(flat)[-nPxls];
     img -= value; clip(0, max); centre of gravity *)
  Fixpoint insert_sorted (x : T) (l : list T) : list T :=
    match l with [] => [x] | y :: r => if nleb O x y then x :: l else y :: insert_sorted x r end.
  Definition sort_asc (l : list T) : list T := fold_right insert_sorted [] l.
  Definition npxls (thr : T) (m : img) : nat :=
    Z.to_nat (ntoZ O (nround O (nmul O (nmul O thr (cn (length (hd [] m)))) (cn (length m))))).
  Definition bp_frame (thr : T) (m : img) : img :=
    let flat := sort_asc (concat m) in
    let k := npxls thr m in
    let v := nth (length flat - k) flat (nzero O) in
    map (map (fun p => let q := nsub O p v in if nltb O q (nzero O) then nzero O else q)) m.
  Definition brightest_pixel2d (thr : T) (m : img) : T * T := cog_plain (bp_frame thr m).
  Definition brightest_pixel3d (thr : T) (frames : list img) : list (T * T) :=
    map (fun m => cog_plain (bp_frame thr m)) frames.

  (* quadCell: xCent = col sums [1] - [0]; yCent = row sums [1] - [0] *)
  Definition quadcell (m : img) : T * T :=
    let colsum j := nsum O (map (fun row => nth j row (nzero O)) m) in
    let rowsum i := nsum O (nth i m []) in
    (nsub O (colsum 1) (colsum 0), nsub O (rowsum 1) (rowsum 0)).

  (* cross_correlate(x, y, padding): fftshift(abs(ifft2(fft2(x, s) * conj(fft2(y, s))))), zero padded to
     (ny*padding, nx*padding) *)
  Definition pad (m : img) (R C : nat) : list (list (@cx T)) :=
    map (fun i => map (fun j => cofR O (nth j (nth i m []) (nzero O))) (seq 0 C)) (seq 0 R).
  Definition cross_correlate (x y : img) (padding : nat) : img :=
    let R := length x * padding in let C := length (hd [] x) * padding in
    let Ry := length y * padding in let Cy := length (hd [] y) * padding in
    let fx := dft2 O (pad x R C) in
    let fy := map (map (cconj O)) (dft2 O (pad y Ry Cy)) in
    fftshift2 (map (map (cabs O)) (idft2 O (cmul_m O fx fy))).
  (* correlation_centroid, one frame (im already has its minimum removed by the caller's in-place ops):
     im -= min ; ref -= min ; corr ; cog with threshold ; subtract n/2*(padding-1) *)
  Definition min2 (m : img) : T := fold_left (nmin O) (concat m) (hd (nzero O) (concat m)).
  Definition submin (m : img) : img := let mn := min2 m in map (map (fun v => nsub O v mn)) m.
  Definition correlation_centroid1 (im ref : img) (thr : T) (padding : nat) : T * T :=
    let corr := cross_correlate (submin im) (submin ref) padding in
    let c := cog2d thr (nzero O) corr in
    let ny := length im in let nx := length (hd [] im) in
    (nsub O (fst c) (nmul O (ndiv O (cn nx) (nofZ O 2)) (nsub O (cn padding) (none O))),
     nsub O (snd c) (nmul O (ndiv O (cn ny) (nofZ O 2)) (nsub O (cn padding) (none O)))).
End Centroid.
