(* Hand-written model of aotools/turbulence/phasescreen.py: ft_phase_screen and ft_sh_phase_screen as
   linear maps from the Gaussian draws to the pixels.  Definitions only. *)
From Coq Require Import ZArith Bool List Arith.
Require Import AOV.base.Num AOV.base.Cplx AOV.model.Fourier.
Import ListNotations.

Section FtScreen.
  Context {T : Type} (O : NumOps T).
  Local Notation cx := (@cx T).
  Definition fn (n : nat) : T := nofZ O (Z.of_nat n).

  Section Ops.
  Local Notation "a + b" := (nadd O a b).  Local Notation "a - b" := (nsub O a b).
  Local Notation "a * b" := (nmul O a b).  Local Notation "a / b" := (ndiv O a b).
  (* fx = arange(-N/2., N/2.) * del_f *)
  Definition freq (N : nat) (del_f : T) (k : nat) : T := (nopp O (fn N / nofZ O 2) + fn k) * del_f.
  (* modified von Karman PSD: 0.023 r0^(-5/3) exp(-(f/fm)^2) / (f^2 + f0^2)^(11/6),
     fm = 5.92/l0/(2 pi), f0 = 1/L0, f = sqrt(fx^2 + fy^2) *)
  Definition psd (r0 L0 l0 : T) (fx fy : T) : T :=
    let f := nsqrt O (nsqr O fx + nsqr O fy) in
    let fm := (nofQ O 592 100 / l0) / (nofZ O 2 * npi O) in
    let f0 := none O / L0 in
    ((nofQ O 23 1000 * npow O r0 (nopp O (nofZ O 5) / nofZ O 3)) * nexp O (nopp O (none O) * nsqr O (f / fm)))
    / npow O (nsqr O f + nsqr O f0) (nofZ O 11 / nofZ O 6).
  (* PSD on the N x N grid (rows = fy index, cols = fx index, as numpy.meshgrid), DC at (N/2, N/2) zeroed *)
  Definition psd_grid (r0 L0 l0 : T) (N : nat) (delta : T) : list (list T) :=
    let del_f := none O / (fn N * delta) in
    map (fun i => map (fun j => if Nat.eqb i (Nat.div N 2) && Nat.eqb j (Nat.div N 2) then nzero O
                                else psd r0 L0 l0 (freq N del_f j) (freq N del_f i)) (seq 0 N)) (seq 0 N).
  (* cn = (a + 1j b) * sqrt(PSD) * del_f *)
  Definition cn_grid (r0 L0 l0 : T) (N : nat) (delta : T) (a b : list (list T)) : list (list cx) :=
    let del_f := none O / (fn N * delta) in
    map2 (fun prow abrow => map2 (fun p ab => cscale O del_f (cscale O (nsqrt O p) ab)) prow abrow)
         (psd_grid r0 L0 l0 N delta) (map2 (map2 (fun x y => (x, y))) a b).
  End Ops.
  (* phs = ift2(cn, 1).real   with phasescreen.ift2 *)
  Definition ft_phase_screen (r0 L0 l0 : T) (N : nat) (delta : T) (a b : list (list T)) : list (list T) :=
    map (map (@fst T T)) (ps_ift2 O (cn_grid r0 L0 l0 N delta a b) (none O)).

  (* ---- sub-harmonics: three 3 x 3 grids with spacing 1/(3^p D); draws a_p, b_p (3 x 3 each) ---- *)
  Section Sh.
  Local Notation "a + b" := (nadd O a b).  Local Notation "a - b" := (nsub O a b).
  Local Notation "a * b" := (nmul O a b).  Local Notation "a / b" := (ndiv O a b).
  Definition sh_coord (N : nat) (delta : T) (k : nat) : T := (nopp O (fn N / nofZ O 2) + fn k) * delta.
  Definition sh_term (r0 L0 l0 : T) (N : nat) (delta : T) (p : nat) (a b : list (list T)) (yi xi : nat) : cx :=
    let D := fn N * delta in
    let del_f := none O / (npow O (nofZ O 3) (fn p) * D) in
    let fgrid k := (nofZ O (Z.of_nat k - 1)) * del_f in
    fold_left (fun acc ij =>
       let '(i, j) := ij in
       let fx := fgrid j in let fy := fgrid i in
       let P := if Nat.eqb i 1 && Nat.eqb j 1 then nzero O else psd r0 L0 l0 fx fy in
       let c := cscale O del_f (cscale O (nsqrt O P) (nth j (nth i a []) (nzero O), nth j (nth i b []) (nzero O))) in
       cadd O acc (cmul O c (cis O ((nofZ O 2 * npi O) * (fx * sh_coord N delta xi + fy * sh_coord N delta yi)))))
      (flat_map (fun i => map (fun j => (i, j)) (seq 0 3)) (seq 0 3)) (czero O).
  Definition sh_lo (r0 L0 l0 : T) (N : nat) (delta : T) (draws : list (list (list T) * list (list T))) : list (list T) :=
    let raw := map (fun yi => map (fun xi =>
                  fst (fold_left (fun acc pd => cadd O acc (sh_term r0 L0 l0 N delta (S (fst pd)) (fst (snd pd)) (snd (snd pd)) yi xi))
                                 (combine (seq 0 3) draws) (czero O))) (seq 0 N)) (seq 0 N) in
    let mean := nsum O (map (nsum O) raw) / fn (N * N) in
    map (map (fun v => v - mean)) raw.
  End Sh.
  Definition ft_sh_phase_screen (r0 L0 l0 : T) (N : nat) (delta : T) (a b : list (list T))
             (draws : list (list (list T) * list (list T))) : list (list T) :=
    map2 (map2 (nadd O)) (sh_lo r0 L0 l0 N delta draws) (ft_phase_screen r0 L0 l0 N delta a b).
End FtScreen.
