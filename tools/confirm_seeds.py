#!/usr/bin/env python3
"""Confirm seeded changes produced by a seeding sub-agent and store the confirmed ones under /verif/seeded.
usage: confirm_seeds.py C05 /tmp/mut/out/C05c 3      -> stores C05-3, C05-4 (patch1/patch2 of that directory)
The worktree /tmp/mut/<pid> (a scratch worktree of /repo at HEAD) is used: demo must exit 0 on the untouched tree and
non-zero with the patch, and every baseline-passing test must still pass with the patch."""
import json, os, shutil, subprocess, sys
import xml.etree.ElementTree as ET
pid, out, k0 = sys.argv[1], sys.argv[2], int(sys.argv[3])
wt = "/tmp/mut/%s" % pid
env = dict(os.environ, PYTHONPATH=wt, PYTHONHASHSEED="0", MPLBACKEND="Agg")


def sh(cmd, timeout=3000):
    p = subprocess.run(cmd, shell=True, cwd=wt, env=env, stdout=subprocess.PIPE, stderr=subprocess.STDOUT, text=True, timeout=timeout)
    return p.returncode, p.stdout


base = set(json.load(open("/root/.vp/BASELINE.json"))["stable_pass"])
head = subprocess.run("git -C /repo log --format=%h -1", shell=True, capture_output=True, text=True).stdout.strip()
for n, k in enumerate(("1", "2")):
    name = "%s-%d" % (pid, k0 + n)
    if not os.path.exists("%s/patch%s.diff" % (out, k)):
        print(name, "no patch"); continue
    sh("git checkout -- . && git clean -fdq")
    rc0, _ = sh("/venv/bin/python %s/demo%s.py" % (out, k))
    rca, oa = sh("git apply %s/patch%s.diff" % (out, k))
    rc1, o1 = sh("/venv/bin/python %s/demo%s.py" % (out, k))
    junit = "%s/junit%s.xml" % (out, k)
    _, ot = sh("/venv/bin/python -m pytest -q -p no:cacheprovider --timeout=900 --continue-on-collection-errors --junitxml=%s 2>&1 | tail -3" % junit)
    passed = set()
    try:
        for tc in ET.parse(junit).getroot().iter("testcase"):
            if not list(tc):
                passed.add("%s::%s" % (tc.get("classname"), tc.get("name")))
    except Exception as ex:
        print("junit error", ex)
    sh("git checkout -- . && git clean -fdq")
    missing = sorted(base - passed)
    ok = (rc0 == 0 and rca == 0 and rc1 != 0 and not missing)
    print(name, "OK" if ok else "NOT-OK", "clean", rc0, "apply", rca, "patched", rc1, "missing", missing, flush=True)
    if ok:
        d = "/verif/seeded/" + name
        os.makedirs(d, exist_ok=True)
        shutil.copy("%s/patch%s.diff" % (out, k), d + "/patch.diff")
        shutil.copy("%s/demo%s.py" % (out, k), d + "/demo.py")
        notes = open("%s/notes%s.txt" % (out, k)).read().strip() if os.path.exists("%s/notes%s.txt" % (out, k)) else ""
        meta = {"property": pid, "breaks": notes, "needs_to_manifest": "see 'breaks' (written by the seeding sub-agent)",
                "seeded_against": head,
                "confirmed": {"demo_on_untouched_tree_exit": rc0, "demo_with_patch_exit": rc1, "baseline_tests_missing_with_patch": missing,
                              "pytest_tail": ot[-200:],
                              "how": "tools/confirm_seeds.py in the scratch worktree %s at the repaired HEAD (git apply; demo; full pytest via junit vs BASELINE stable_pass; git checkout)" % wt},
                "detected_by": None}
        json.dump(meta, open(d + "/meta.json", "w"), indent=1)
