#!/usr/bin/env python3
"""Confirm a seeded change: demo passes on the untouched tree, fails with the patch, baseline tests still pass.
usage: verify_seed.py C05 1     (uses the scratch worktree /tmp/mut/C05 and /tmp/mut/out/C05)"""
import json, os, subprocess, sys, re
pid, k = sys.argv[1], sys.argv[2]
wt, out = "/tmp/mut/%s" % pid, "/tmp/mut/out/%s" % pid
env = dict(os.environ, PYTHONPATH=wt, PYTHONHASHSEED="0", MPLBACKEND="Agg")
def sh(cmd, **kw):
    p = subprocess.run(cmd, shell=True, cwd=wt, env=env, stdout=subprocess.PIPE, stderr=subprocess.STDOUT, text=True, **kw)
    return p.returncode, p.stdout
res = {"property": pid, "k": k}
sh("git checkout -- . ")
rc0, o0 = sh("/venv/bin/python %s/demo%s.py" % (out, k), timeout=1800)
res["demo_clean_rc"] = rc0
rca, oa = sh("git apply %s/patch%s.diff" % (out, k))
res["apply_rc"] = rca
rc1, o1 = sh("/venv/bin/python %s/demo%s.py" % (out, k), timeout=1800)
res["demo_patched_rc"] = rc1
res["demo_patched_tail"] = o1[-600:]
junit = "/tmp/mut/out/%s/junit%s.xml" % (pid, k)
rct, ot = sh("/venv/bin/python -m pytest -q -p no:cacheprovider --timeout=900 --continue-on-collection-errors --junitxml=%s 2>&1 | tail -3" % junit, timeout=3000)
res["pytest_tail"] = ot[-300:]
base = set(json.load(open("/root/.vp/BASELINE.json"))["stable_pass"])
passed = set()
try:
    import xml.etree.ElementTree as ET
    for tc in ET.parse(junit).getroot().iter("testcase"):
        if not list(tc):
            passed.add("%s::%s" % (tc.get("classname"), tc.get("name")))
except Exception as ex:
    res["junit_error"] = str(ex)
res["baseline_missing"] = sorted(base - passed)
sh("git checkout -- . ")
res["ok"] = (rc0 == 0 and rca == 0 and rc1 != 0 and not res["baseline_missing"])
json.dump(res, open("%s/verify%s.json" % (out, k), "w"), indent=1)
print(pid, k, "OK" if res["ok"] else "NOT-OK", rc0, rca, rc1, len(res["baseline_missing"]))
