#!/usr/bin/env python3
"""Re-runs the stored behaviour-preserving refactorings (harmless/H*/patch.diff) against the current checks:
apply to /repo, run the quick checks recorded in meta.json, undo.  Updates meta.json (checks, quiet, rerun_at)."""
import glob, json, os, subprocess, sys
V = os.path.dirname(os.path.dirname(os.path.abspath(__file__)))
head = subprocess.run("git -C /repo log --format=%h -1", shell=True, capture_output=True, text=True).stdout.strip()
only = sys.argv[1:]
for d in sorted(glob.glob(os.path.join(V, "harmless", "H*"))):
    name = os.path.basename(d)
    if only and name not in only:
        continue
    mp = os.path.join(d, "meta.json")
    if not os.path.exists(mp):
        continue
    m = json.load(open(mp))
    assert subprocess.run("git -C /repo status --porcelain", shell=True, capture_output=True, text=True).stdout.strip() == "", "repo dirty"
    pf = os.path.join(d, "patch.diff")
    if subprocess.run("git -C /repo apply --check %s" % pf, shell=True, capture_output=True).returncode != 0:
        print(name, "patch no longer applies at", head, "(kept result of the earlier run)", flush=True)
        m["rerun_note"] = "patch does not apply at %s (context changed by a later fix: commit); result is that of the earlier run" % head
        json.dump(m, open(mp, "w"), indent=1)
        continue
    subprocess.run("git -C /repo apply %s" % pf, shell=True, check=True)
    res = {}
    try:
        for pid in sorted(m["checks"]):
            p = subprocess.run("cd %s && ./check %s --tier quick" % (V, pid), shell=True, capture_output=True, text=True)
            line = [l for l in p.stdout.splitlines() if l.startswith(pid + " ")]
            viol = [l for l in p.stdout.splitlines() if l.startswith("VIOLATION")]
            res[pid] = {"exit": p.returncode, "summary": line[-1] if line else "", "violation": viol[:1]}
            print("   ", name, pid, "exit", p.returncode, (viol[0][:110] if viol else ""), flush=True)
    finally:
        subprocess.run("git -C /repo checkout -- .", shell=True, check=True)
    m["checks"] = res
    m["quiet"] = all(r["exit"] == 0 for r in res.values())
    m["rerun_at"] = head
    json.dump(m, open(mp, "w"), indent=1)
