#!/usr/bin/env python3
"""Regenerates the machine-derived tables of DESIGN.md (between <!-- BEGIN x --> / <!-- END x --> markers)
from known_findings.json and seeded/*/meta.json, so that the prose cannot drift from the data."""
import glob, json, os, re, subprocess
V = os.path.dirname(os.path.dirname(os.path.abspath(__file__)))


def fixed_table():
    k = json.load(open(os.path.join(V, "known_findings.json")))
    rows = ["| property | commit | what failed |", "|---|---|---|"]
    for f in k["fixed"]:
        m = re.match(r"fixed: property=(C\d\d) ([0-9a-f]+) (.*)", f)
        rows.append("| %s | %s | %s |" % (m.group(1), m.group(2), m.group(3).replace("|", "/")))
    return "\n".join(rows)


def open_table():
    k = json.load(open(os.path.join(V, "known_findings.json")))
    rows = ["| property | id | what fails | classifier (what the finding covers) |", "|---|---|---|---|"]
    for f in k["findings"]:
        rows.append("| %s | %s | %s | %s |" % (f["property"], f["id"], f["what"].replace("|", "/")[:260], str(f.get("classifier", "")).replace("|", "/")[:160]))
    return "\n".join(rows)


def seeds_table():
    rows = ["| seed | change (written by the seeding sub-agent, abridged) | needs | quick check: first mechanism that fired | replay |", "|---|---|---|---|---|"]
    for d in sorted(glob.glob(os.path.join(V, "seeded", "C*"))):
        m = json.load(open(os.path.join(d, "meta.json")))
        name = os.path.basename(d)
        br = " ".join(m["breaks"].split())
        needs = ""
        mm = re.search(r"Needs?:(.*?)(pytest|$)", br)
        if mm:
            needs = mm.group(1).strip()[:170]
        what = re.split(r"(Why it|Violation|Why)", br)[0][:230]
        if m.get("obsolete"):
            rows.append("| %s | %s | %s | obsolete after %s: on the repaired tree the same edit is a harmless rewrite; the check stays quiet (exit 0) | — |" % (name, what, needs, m["obsolete"]["after"]))
            continue
        det = (m.get("detected_by") or {}).get("quick", {})
        mech, rep = "not run", ""
        for pid, r in det.items():
            summ = [l for l in r["lines"] if l.startswith(pid + " ")]
            viol = [l for l in r["lines"] if l.startswith("VIOLATION")]
            s = summ[0] if summ else ""
            pm = re.search(r"proof (\d+)/(\d+)", s); dm = re.search(r"(\d+) divergences", s)
            parts = []
            if pm and pm.group(1) != pm.group(2):
                parts.append("proof obligation (regenerated definitions no longer satisfy the theorems: %s/%s)" % (pm.group(1), pm.group(2)))
            if dm and int(dm.group(1)) > 0:
                parts.append("correspondence (%s divergences)" % dm.group(1))
            if not parts:
                parts.append("falsifier (direct statement of the property, history variants)")
            mech = " + ".join(parts) if r["exit"] == 1 else "MISSED"
            rep = "failing input" if viol and "no-failing-input-found" not in viol[0] else ("no-failing-input-found" if viol else "")
        rows.append("| %s%s | %s | %s | %s | %s |" % (name, " (rebased)" if m.get("rebased") else "", what, needs, mech, rep))
    return "\n".join(rows)


def harmless_table():
    rows = ["| refactoring | files | what (written by the sub-agent) | quick checks run | result |", "|---|---|---|---|---|"]
    for d in sorted(glob.glob(os.path.join(V, "harmless", "H*"))):
        mp = os.path.join(d, "meta.json")
        if not os.path.exists(mp):
            continue
        m = json.load(open(mp))
        bad = [p for p, r in m["checks"].items() if r["exit"] != 0]
        res = "all quiet (exit 0)" if not bad else "ALARM: " + ", ".join("%s %s" % (p, ("no-failing-input-found" if m["checks"][p]["violation"] and "no-failing" in m["checks"][p]["violation"][0] else "violation")) for p in bad)
        rows.append("| %s | %s | %s | %s | %s |" % (os.path.basename(d), ", ".join(os.path.basename(f) for f in m["files"]), " ".join(m["what"].split())[:260].replace("|", "/"),
                                                   " ".join(sorted(m["checks"])), res))
    return "\n".join(rows)


def main():
    p = os.path.join(V, "DESIGN.md")
    s = open(p).read()
    for tag, fn in (("FIXED", fixed_table), ("OPEN", open_table), ("SEEDS", seeds_table), ("HARMLESS", harmless_table)):
        a, b = "<!-- BEGIN %s -->" % tag, "<!-- END %s -->" % tag
        if a in s and b in s:
            i, j = s.index(a) + len(a), s.index(b)
            s = s[:i] + "\n" + fn() + "\n" + s[j:]
    open(p, "w").write(s)


if __name__ == "__main__":
    main()
