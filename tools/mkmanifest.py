#!/usr/bin/env python3
"""Regenerates /verif/MANIFEST.json from the table below (kept in one place so that it stays valid)."""
import json, os
V = os.path.dirname(os.path.dirname(os.path.abspath(__file__)))
BASELINE = ("cd /repo && /venv/bin/python -m pytest -ra -q -p no:cacheprovider --timeout=900 "
            "--continue-on-collection-errors")
CLAIMED = {
 "C17": dict(
   technique="Coq proof over definitions regenerated from source (py2coq) + vm_compute correspondence",
   text=("Machine-checked proof (Coq 8.16, reals) of every inverse pair, composite, scaling law, the twelve-band "
         "magnitude/flux laws and the single-layer 0.314 reductions, stated about Gallina definitions that are "
         "regenerated from atmos_conversions.py/_astronomy.py on every run; the same generated definitions are "
         "executed at binary64 by vm_compute and compared with the implementation (incl. stacked profiles over "
         "every axis); a direct numerical falsifier produces the replay when either breaks."),
   ref="5 C17",
   note=("Reals axioms of the standard library (sig_forall_dec, sig_not_dec, functional_extensionality_dep, classic); "
         "Coq-Interval for one constant bound; translator and harness trusted but differentially tested; rounding "
         "(real vs binary64) not verified.")),
 "C08": dict(
   technique="Coq proof over definitions regenerated from source (py2coq) + vm_compute correspondence with recorded gamma/kv oracles",
   text=("Machine-checked proofs (reals, Gamma and K_nu abstract) that the von Karman structure function and the phase covariance "
         "have one shape 1 - C(x)/C0, that the two published constants agree to 6.4e-4 (interval arithmetic from Gamma enclosures), "
         "that the slope-covariance and KL copies coincide, and of the r0^(-5/3) scaling of every copy, all about Gallina definitions "
         "regenerated from the four source files on every run; monotonicity/saturation are proved from named facts about "
         "x^(5/6)K_{5/6}(x) (partial); the zero-at-zero clause is refuted at binary64 (known finding). The generated definitions run at "
         "binary64 against the implementation with every gamma/kv call recorded; a numerical falsifier covers the analytic clauses."),
   ref="5 C08",
   note=("K_{5/6} uninterpreted; Gamma enclosures are hypotheses (checked against scipy each run); Reals axioms; Coq-Interval; "
         "Kolmogorov limit, Hankel identity and positive-definiteness are only tested numerically, not proved.")),
 "C09": dict(
   technique="Coq proof (DFT inversion/Parseval for all N) over a hand model + vm_compute correspondence + generated export table",
   text=("Machine-checked proofs, for every length N>=1 and every batch shape, that ft/ift and ft2/ift2 as written (shift, transform, shift, "
         "scale) are mutual inverses when delta_f = 1/(N delta), are linear, satisfy Parseval, and are centred on sample N/2 for even N; "
         "built on a 1100-line DFT library (inversion from root-of-unity orthogonality, 2-D by rows/columns). The odd-N centring and the "
         "real-input variants are refuted by binary64 witnesses (known findings); the package-level export of each transform is re-derived "
         "from the star-import structure on every run. The model is run by vm_compute against numpy.fft-based code on every case."),
   ref="5 C09",
   note=("Hand-written model coq/model/Fourier.v tied by correspondence (explicit DFT sums vs numpy.fft, 1e-9); Reals axioms; "
         "continuous-FT approximation and rft2/irft2 only in the numerical falsifier.")),
 "C10": dict(
   technique="Coq proof of power conservation for all four propagators over a hand model + vm_compute correspondence",
   text=("Machine-checked proofs that angularSpectrum (any magnification), oneStepFresnel, twoStepFresnel and lensAgainst, modelled pixel by "
         "pixel as written, satisfy sum|U_out|^2 d_out^2 = sum|U_in|^2 d_in^2 for every complex field on every N x N grid, every wavelength, "
         "spacing and distance of either sign (unit-modulus phase grids, Parseval of the 2-D DFT, |1/(i lambda z)|^2, |Dz1/Dz2| = 1/m); the "
         "model is executed at binary64 against the implementation on every case; linearity of all four propagators (a U + b V -> a P(U) + b P(V), no side "
         "condition) is a theorem as well."),
   ref="5 C10",
   note="Hand model coq/model/Optics.v tied by correspondence (1e-8); Reals axioms; the numpy-float unit-magnification defect found by this check was repaired (289e689)."),
 "C11": dict(
   technique="Coq proof of the group laws and of lens = one-step identity over a hand model + vm_compute correspondence + numerical physics falsifier",
   text=("Machine-checked proofs that unit-magnification angular-spectrum propagation is a one-parameter group (z = 0 identity, distances add for "
         "any split, -z undoes +z), that with magnification m propagating back with 1/m over -z returns the input times ONE constant phase (given "
         "explicitly: it stems from the code's 1e-10 offset) and that lensAgainst is exactly oneStepFresnel after the thin-lens phase, for all fields and grids; "
         "cross-propagator agreement and Gaussian-beam clauses concern the continuous Fresnel integral and are only "
         "tested numerically (partial); that falsifier found that twoStepFresnel returns a point-reflected field (known finding)."),
   ref="5 C11",
   note="Hand model tied by correspondence; Reals axioms; physics clauses (Gaussian beam, Airy, propagator agreement) not proved."),
 "C14": dict(
   technique="Coq proof in exact arithmetic over a hand model + bit-exact vm_compute correspondence",
   text=("Machine-checked proofs that circle is exactly the indicator of pixel centres (half-integer coordinates from the middle or corner) "
         "within distance r, hence nested in r, symmetric under the square's symmetries when centred, translating with integer shifts; that "
         "sub-aperture selection keeps exactly cells with mean >= threshold and shrinks monotonically; that fill factors equal "
         "computeFillFactor when the size is a multiple of the count; and that scatter-then-gather is the identity (any element type). The "
         "same definitions run at binary64 and are compared bit-exactly with the implementation, including exact ties distance == radius."),
   ref="5 C14",
   note="Real-arithmetic theorems; rounding of r*r and x-c for non-dyadic values not verified (bit-exact correspondence covers it empirically); area -> pi r^2 only tested."),
 "C19": dict(
   technique="Coq proof over a hand model (reusing the DFT library) + vm_compute correspondence",
   text=("Machine-checked proofs that the structure-function estimator is 0 at lag 0 and the mean squared lag difference elsewhere, is exact "
         "on a ramp (a^2 (j step)^2 for every size, step and column offsets) and quadratic in amplitude; that the temporal power spectrum "
         "(squared modulus of the DFT of each centroid series) is quadratic in amplitude and satisfies Parseval; that for a sinusoid at an exact bin "
         "(any amplitude and phase per sub-aperture) every other kept bin is exactly 0 so the spectrum peaks at that bin; that the frequency axis is "
         "k rate/n. The model runs at binary64 against the implementation (leading axes, odd/even frame counts). Two defects found by this "
         "check were repaired (fix commits 26b50a5, 3c15b09)."),
   ref="5 C19",
   note="Hand model coq/model/Estim.v tied by correspondence; Reals axioms; 'follows the analytic structure function' only tested."),
 "C02": dict(
   technique="Coq proof (matrix algebra over R) on a hand model with pinv as a contract + vm_compute correspondence",
   text=("Machine-checked proofs, for all sizes, that R = C_on,off pinv(C_off,off) satisfies the normal equations on the retained subspace "
         "pinv(K)K (from the Penrose identity) and exactly when K is inverted, that each row of R minimises the residual variance "
         "sigma^2 - 2 r.c + r K r^T among all rows (difference = quadratic form of K, K symmetric PSD), and that an on-axis sensor duplicating "
         "off-axis slopes is reproduced with zero weight elsewhere; the model (slicing, dot, recorded pinv) runs at binary64 against "
         "create_tomographic_covariance_reconstructor and the object method, including histories of rebuilds."),
   ref="5 C02",
   note="numpy.linalg.pinv enters through its contract (Penrose identity / inverse), tested numerically; Reals axioms; end-to-end geometry inherits C01's guard."),
 "C03": dict(
   technique="Coq proof for every numeric carrier (permutation/list reasoning) + controlled-pool correspondence + bitwise differential runs",
   text=("Machine-checked proofs, using no arithmetic law and hence valid bit-for-bit at binary64/32, that Pool.map's result is independent of the "
         "completion order iff no task is lost, that the multi-process assembly equals the sequential one for every admissible schedule family, "
         "that the task list is exactly the lower triangle of sensor pairs, and that in any history of SetThreads/Build/Recon operations every "
         "Build returns the reference matrix. The mp path is run under a contract-only Pool with adversarial completion orders and compared "
         "with the model; builds are compared bitwise across thread counts, schedules, histories and (thorough) real pools with injected delays."),
   ref="5 C03",
   note="Pool.map ordering is a contract (hypothesis: schedule is a permutation of the tasks); real OS scheduling only exercised, not modelled; pool leak reported only."),
 "C01": dict(
   technique="Coq proofs of layout/additivity/scalings/mirroring/polarisation over a hand model using generated formula leaves + stage-wise vm_compute correspondence (binary32 stores, bit-exact OR) + spec falsifier",
   text=("The assembly of the slope covariance matrix is modelled as written (positions, per-layer projection, blocks, float32 accumulation, OR "
         "mirroring) with the block formulas regenerated from source; proved: the x-then-y per-sensor layout (unique decomposition of every "
         "index), that only the lower block triangle is written (any carrier), additivity over layers, the r0^(-5/3) and wavelength-product "
         "scalings for all configurations, soundness condition of the OR mirroring (with a counterexample without it), the polarisation identity "
         "and that the xx/yy formulas instantiate it for equal diameters. For a phase field with the library's structure function (abstract pre-inner-product space) the scaled xx/yy/xy block formulas are proved "
         "to be exactly the covariances of the physical finite-difference slopes, entry by entry for the matrix of one sensor and layer, and the xx "
         "block positive semi-definite (Gram form); the three known findings are theorems too: the [x,y] block holds the covariance of the MIRRORED "
         "sub-apertures (right exactly for point-symmetric positions), the [y_i,x_j] block needs the diameters exchanged, xx/yy are exact only for "
         "equal diameters. Entry-wise equality for several different sensors is therefore false in general (known findings with witnesses) and is "
         "checked numerically inside the guard against an independent specification. The model is run against the implementation on every configuration kind."),
   ref="5 C01",
   note="Multi-sensor entry-wise equality and joint PSD are not Coq theorems (guarded numerical check); existence of a field with the von Karman structure function (Bochner) is a hypothesis; kv/gamma oracles; Reals axioms; probability read through second-moment algebra."),
 "C04": dict(
   technique="Coq proof (matrix algebra over R, LAPACK contracts as hypotheses) over a hand model with generated phase_covariance + stage-wise vm_compute correspondence",
   text=("Machine-checked proofs that A Cov_zz = Cov_xz (inverse contract), that A Cov_zz A^T + B B^T = Cov_xx (SVD contract, symmetry of the "
         "joint covariance), that the covariance blocks are the entries of the separation-indexed covariance matrix and separations are Euclidean "
         "distances, that row synthesis is linear in (stencil, innovation), that the Fried variant shifts by exactly the added constant (no "
         "property of A, B needed), and that the Fried working size is the least 2^k+1 >= nx for every nx. Each stage of the construction "
         "(stencils exact, separations, covariance with recorded kv, A from the recorded Cholesky inverse, B from the recorded SVD, rows with "
         "injected innovations) is compared with the model; identities are re-checked numerically against an independent double-precision covariance."),
   ref="5 C04",
   note="LAPACK results and K_nu are oracles/contracts; positive-definiteness of the von Karman covariance (Bochner) assumed; binary32 cast bounded by tolerance."),
 "C05": dict(
   technique="Coq proof for every numeric carrier (list invariants by induction over histories) + vm_compute state-machine correspondence",
   text=("Machine-checked proofs, valid for any carrier hence for the binary64 screen, that over any sequence of add-row steps the working array "
         "keeps its stencil_length x nx shape and the exposed screen its requested N x N shape (also when the working size is larger), that one "
         "step shifts the exposed screen down by exactly one row with the new row on top, the closed form after k steps, and that both variants' "
         "steps preserve the invariant; and, over the reals, that a von Karman step updates the stencil vector as Z' = F Z + Gm b, that covariances "
         "then propagate as F Sigma F^T + Gm Gm^T, and that the theoretical von Karman covariance built by the model from the true pixel "
         "separations is a fixed point of that recursion for every size, pixel scale, r0, L0 and stencil depth (translation invariance of the "
         "blocks proved from the geometry; only C04's LAPACK contracts assumed). Histories (incl. reads/repr and wrap-around lengths) are run on "
         "the implementation against the Coq state machine; each new row is checked to be A Z + B b of the recorded innovation; uniqueness and "
         "convergence to the fixed point (spectral radius < 1) are checked numerically."),
   ref="5 C05",
   note="Finiteness, and uniqueness/convergence to the stationary covariance (spectral radius of the recursion), are observed/numerical, not proved."),
 "C12": dict(
   technique="Coq proof (integer arithmetic unbounded; exact rational integration and polynomial identities bounded by kernel computation) over a hand model + vm_compute correspondence",
   text=("Machine-checked proofs that the Noll index is a bijection onto the valid (n,m) with the n-then-|m| order and the even/cos, odd/sin "
         "parity, for ALL j >= 1 (Z.sqrt arithmetic, closed under the global context); that Noll-normalised modes are orthonormal over the disc "
         "for all indices up to 861 (radial orders <= 40) by exact integration in Q; and that the makegammas tables reproduce the x- and "
         "y-gradients of every mode as exact polynomial identities in Q[x,y] for nzrad <= 12 (91 modes), also stated as real derivatives; and, at pixel "
         "level for every N, that modes vanish outside the inscribed pupil, have unit RMS / unit peak-to-valley under the other normalisations, that an "
         "array from an index list equals the matching slices of the array from a count (any carrier) and that a phase from coefficients is that "
         "linear combination, and that the rotated cos/sin pair of any (n, m > 0) is the 2 x 2 rotation of the unrotated pair while m = 0 modes "
         "ignore the angle. "
         "zernIndex is compared exhaustively (2e4/2e5 indices plus float-sqrt stress up to 2^44) and the mode generators, normalisations, "
         "phaseFromZernikes and makegammas entrywise with the model. A defect that made every mode generator raise was repaired (0b9c15b)."),
   ref="5 C12",
   note="Bounded parts state their bounds in the theorems; grid-refinement convergence of the Gram matrix only tested; Reals axioms only for the real-derivative corollary."),
 "C15": dict(
   technique="Coq proof over a hand model (real arithmetic + binary64 witnesses for the refuted clauses) + vm_compute correspondence",
   text=("Machine-checked proofs that the centre of gravity of a single bright pixel is that pixel, that centre of gravity (with and without "
         "threshold, frames and stacks) and the brightest-pixel centroid are invariant under a positive factor, that content moved by (kx,ky) "
         "inside a zero frame moves the centroid by exactly (kx,ky), that stacks give per-frame answers (always for brightest pixel; for centre "
         "of gravity per frame of the stack path and, with no threshold, equal to the single-frame path), and the quad-cell mirror law. The two "
         "clauses the code violates -- thresholded frame vs stack, correlation centroid for odd size with even padding -- are refuted by "
         "binary64 witnesses evaluated in the kernel (known findings). All centroiders, incl. FFT correlation via the explicit DFT, are "
         "compared with the implementation. For the FFT correlation, every entry of cross_correlate is proved to be the modulus of the circular "
         "cross-correlation of the zero-padded images at the fftshift-ed lag, so the zero-lag term sits at the floor centre for every size and "
         "padding, an autocorrelation peaks there, and a cyclic displacement of the image moves the whole map by that displacement."),
   ref="5 C15",
   note="Hand model tied by correspondence; Reals axioms; the final thresholded centre of gravity of the correlation map (sub-pixel offsets, borders) only tested numerically plus the kernel-evaluated witnesses."),
 "C16": dict(
   technique="Coq proof over a hand model (spline as a contract) + bit-exact / recorded-oracle vm_compute correspondence",
   text=("Machine-checked proofs that binning returns exactly the n x n block sums and preserves flux for images and stacks, that zoom_rbs is "
         "the identity at equal size and passes through the original samples when the new grid contains the old nodes (from the spline's "
         "interpolation contract: decides aotools' coordinate/axis handling), that the azimuthal average of a constant image is that constant "
         "and every value lies within the data range (rings proved non-empty), and that the encircled-energy curve of a non-negative image is "
         "within [0,1], non-decreasing and 0 for an empty mask (nested circles from C14), that the curve encircled_energy actually returns (resampled by the modelled numpy.interp) starts at (0,0), stays in [0,1] and is monotone, that the reported diameter is the first grid point closest to the requested fraction, and that zoom samples the spline at i(N-1)/(new-1) (hence is exact for whatever the spline reproduces and linear when the spline is). Binning is compared bit-exactly, zoom with every "
         "spline evaluation recorded, radial reductions at 1e-12. zoom (interp2d) being unusable with the installed SciPy is a known finding; zoom_rbs rejecting integer sizes was repaired (5b6329f)."),
   ref="5 C16",
   note="FITPACK spline enters by contract (interpolation, linearity, polynomial reproduction tested numerically); polynomial reproduction / linearity of FITPACK itself are contracts."),
 "C06": dict(
   technique="Coq proof over an effect model instantiated with a footprint table regenerated from source + Coq state machine of seeded objects (induction over histories) with history correspondence by symbolic vm_compute runs + dynamic interleaving/bitwise reproduction runs",
   text=("The syntactic footprint of every function (in-place writes through parameters and their aliases, returned aliases, use of NumPy's "
         "legacy global generator / random / time, module-level mutable objects incl. ones returned by helpers, memoisation; closed under calls) "
         "is regenerated from the source on every run; Coq checks on that table that no screen function touches process-global state and that no "
         "other function does except the listed one, and proves for every semantics consistent with the footprints that the result of a call is "
         "the same wherever it stands in any program of such calls. A second model (SeededObjs.v) is the generator discipline as a state "
         "machine -- any number of seeded screen objects, seeded FFT calls and the process-global generator under arbitrary operation lists, "
         "for an arbitrary generator and arbitrary numerical maps: an object's outputs are a function of its own history alone, "
         "make_initial_screen() again restarts from the seed, the global generator is a separate cell, seeded FFT calls are stateless; it is "
         "tied to the code by running the same histories on a symbolic generator (vm_compute) and requiring the implementation's outputs to "
         "fall into exactly the model's classes of bit-identical results. Dynamically, seeded FFT / sub-harmonic / infinite screens (incl. every added "
         "row, boundary seeds 0 and numpy integers) are compared bitwise with isolated runs and with a fresh interpreter under random "
         "interleavings of other instances, global-state changes and unrelated calls."),
   ref="5 C06",
   note="The footprint analysis is in the trusted base (cross-checked dynamically both ways); PCG64/OS-entropy facts (different seeds differ) observed only."),
 "C20": dict(
   technique="Coq proof over an effect model instantiated with a footprint table regenerated from source + dynamic purity cross-check of every public function",
   text=("Same regenerated footprint table: Coq checks that every public function has a pure footprint except one listed known finding (optimal_grouping's use of the global generator; and two "
         "justified over-approximations) -- the full statement is refuted on the faithful table -- and proves that programs of footprint-pure calls "
         "on shared arrays leave every array and the hidden state unchanged and that equal calls return equal results in any order. Every public "
         "function is exercised through a recipe with read-only arguments, checksummed copies, repeated calls under different global generator "
         "states and memory-sharing tests, and the observations must agree with the table; batch-vs-item clauses and random programs are run by the falsifier. Five defects found by this check (in-place writes in four image-processing functions, angularSpectrum returning its argument) were repaired (de54f5b d3fd2bb 735cafe a0878b3 38ff11a)."),
   ref="5 C20",
   note="Analysis heuristics trusted but cross-checked in both directions; functions that cannot be exercised are listed in the evidence with the reason."),
 "C07": dict(
   technique="Coq proof (2-D centred inverse DFT, unit-draw second-moment algebra) over a hand model + vm_compute correspondence with injected draws",
   text=("Machine-checked proofs, for every even N, that each pixel of the FFT screen is an explicit linear function of its Gaussian draws "
         "(sum over the frequency grid of sqrt(PSD) df (a cos theta - b sin theta)), hence that the ensemble covariance over independent unit "
         "draws equals the inverse discrete Fourier sum of the sampled modified von Karman spectrum with the zero frequency removed, that it is "
         "stationary with position-independent variance, that every realisation has zero spatial mean, that the amplitude scales exactly as "
         "r0^(-5/6), and that with sub-harmonics the ensemble structure function is D_hi + D_lo with D_lo >= 0. The model is run against "
         "ft_phase_screen / ft_sh_phase_screen with draws injected through a Generator subclass (unit draws = columns of the linear map). A defect "
         "found by this check (integer seeds correlated the two parts) was repaired (bbcb31d)."),
   ref="5 C07",
   note="Convergence to the analytic structure function under grid refinement and 'closer at large separations' only tested numerically; Reals axioms; probability via second moments."),
 "C13": dict(
   technique="Coq proof (trigonometric sums via the DFT library, matrix algebra, list reasoning; eigh/argsort as contracts) over a hand model + stage-wise vm_compute correspondence",
   text=("Machine-checked proofs, for every radial resolution and mode count, that piston_orth is an orthogonal matrix whose first nr-1 columns "
         "sum to zero; that the azimuthal rows are discretely orthogonal on the uniform grid as long as frequencies do not alias (bound shown "
         "tight); that the selection loop returns exactly nfunc modes, pairs every order >= 1 eigenvalue with one cosine and one sine row on "
         "consecutive positions whatever their parity, keeps the variances in non-increasing order with equal variances inside a pair; that the "
         "modes gkl_sfi builds from orthonormal eigenvectors are orthonormal over the pupil on the native polar grid and (all but the constant "
         "one) have zero mean; that the kernel's sampled structure function is even so its DFT is real and each order's matrix symmetric, and "
         "that the modes built from eigenvectors satisfying the eigen-equations of the matrices handed to eigh DIAGONALISE the Kolmogorov covariance: "
         "-1/2 times the double pupil average of K_i D(|x-x'|) K_j over the native grid (npp = 5 nr) is delta_ij times the returned variance, for "
         "all selected modes but the constant one (circular-convolution algebra over the DFT library); that the returned pupil is exactly the annulus indicator, the masked rendering vanishes "
         "outside it and the resampling is a convex combination of four polar samples. Every stage of gkl_basis/make_kl (radii, kernel planes, "
         "piston filter, the matrices handed to eigh, stopping rule, selection from the recorded argsort, radial functions, azimuthal table, "
         "outer products, pupil, bilinear rendering for even and odd sizes) is compared with the model, twice per configuration in one process."),
   ref="9.2.1",
   note="eigh/argsort results are inputs (contracts as premises, shown satisfiable); positivity of the variances, tip/tilt first and the resampling accuracy are only tested numerically; positivity/'tip and tilt first' depend on the spectrum of the kernel."),
 "C18": dict(
   technique="Coq proof (list/sum algebra over R, carrier-generic index bounds, binary64 regression witnesses) over a hand model + bit-exact / recorded-restart vm_compute correspondence",
   text=("Machine-checked proofs that equivalent_layers returns exactly L layers (any carrier), assigns every input layer to a slab 1..L (upper "
         "bound for any carrier, hence for the rounded execution), conserves the total Cn2 exactly for every profile and L >= 1, has non-negative "
         "strengths and conserves the 5/3 height and wind moments for non-negative strengths (shown necessary), and does not depend on the order "
         "in which the layers are listed (any permutation); that optimal grouping's splits "
         "always describe a partition into non-empty consecutive groups preserved by every move of the local search, that it returns exactly L "
         "layers, input heights in strictly increasing order, non-negative strengths summing to the input total, with a cost never above the "
         "equal split whatever the random restarts and iteration count; the L = 1 case returns nothing (refuted clause, known finding). "
         "equivalent_layers is compared bit-exactly with the model (incl. the edge-sensitive grids), optimal_grouping with the restarts recorded "
         "from numpy.random.choice. A defect found by this check (top layer dropped when arange produced L+1 edges) was repaired (f325263)."),
   ref="9.2.2",
   note="GCTM: only shape/non-negativity/moment accuracy tested numerically (optimiser convergence is not aotools' contract); empty-slab NaN heights and L = 1 are known findings."),
}
NOT_YET = {}
ALL = ["C%02d" % i for i in range(1, 21)]

def main():
    checks = []
    for pid in ALL:
        if pid not in CLAIMED:
            continue
        c = CLAIMED[pid]
        checks.append({
            "property_id": pid,
            "quick_cmd": "./check %s --tier quick" % pid,
            "thorough_cmd": "./check %s --tier thorough" % pid,
            "evidence_file": "/verif/evidence/%s.json" % pid,
            "replay_cmd_template": "./check %s --replay {path}" % pid,
            "engine": "coq-proof+correspondence",
            "level_claimed": {"category": "proof", "text": c["text"], "design_ref": c["ref"]},
            "level_note": c["note"],
            "technique": c["technique"],
        })
    na = [{"property_id": p, "reason": NOT_YET.get(p, "check not built yet (work in progress, see DESIGN.md section 8); not claimed")}
          for p in ALL if p not in CLAIMED]
    m = {
        "version": 1,
        "setup_cmd": "cd /verif && ./check --setup",
        "hooks": {"guard": "AOTOOLS_VERIF", "enable": "no source hooks: all instrumentation wraps module attributes inside the harness process",
                  "baseline_off_cmd": BASELINE, "source_commits": [], "add_only": True},
        "engines": [{"name": "coq-proof+correspondence", "path": "/verif/check",
                     "serves_properties": sorted(CLAIMED),
                     "kind_free_text": "Coq 8.16 theorems about generated/hand-written Gallina models; models executed by vm_compute (PrimFloat) against the implementation; numerical falsifier for replays"}],
        "checks": checks,
        "notes": "See DESIGN.md. Each check: sync generated Coq from /repo, make props/<ID>.vo, correspondence, known findings, falsifier, evidence.",
        "not_applicable": na,
    }
    json.dump(m, open(os.path.join(V, "MANIFEST.json"), "w"), indent=1)
    print("claimed:", sorted(CLAIMED), "unclaimed:", len(na))

if __name__ == "__main__":
    main()
