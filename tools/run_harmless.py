#!/usr/bin/env python3
"""Behaviour-preserving refactorings (written by sub-agents that saw only the source) must leave every check quiet.
usage: run_harmless.py H03 [k...]   -- confirms /tmp/mut/out/H03/patch<k>.diff in the scratch worktree /tmp/mut/H03 (same
digest from equiv<k>.py before and after, baseline tests still pass), stores it under /verif/harmless/H03-<k>/, applies it
to /repo, runs the quick checks of the properties anchored in the touched files, and undoes it."""
import json, os, re, shutil, subprocess, sys
import xml.etree.ElementTree as ET
hid = sys.argv[1]
ks = sys.argv[2:] or ["1", "2", "3"]
wt, out = "/tmp/mut/%s" % hid, "/tmp/mut/out/%s" % hid
env = dict(os.environ, PYTHONPATH=wt, PYTHONHASHSEED="0", MPLBACKEND="Agg")
PROPS = {
    "slopecovariance.py": ["C01", "C02", "C03", "C08", "C19", "C20"],
    "infinitephasescreen.py": ["C04", "C05", "C06", "C20"], "turb.py": ["C04", "C08", "C07", "C20"],
    "phasescreen.py": ["C06", "C07", "C09", "C20"], "fouriertransform.py": ["C09", "C10", "C11", "C20"],
    "opticalpropagation.py": ["C10", "C11", "C20"], "zernike.py": ["C12", "C20"], "pupil.py": ["C14", "C12", "C16", "C20"],
    "karhunenLoeve.py": ["C13", "C08", "C20"], "centroiders.py": ["C15", "C20"], "psf.py": ["C16", "C20"], "interpolation.py": ["C16", "C20"],
    "atmos_conversions.py": ["C17", "C20"], "_astronomy.py": ["C17", "C20"], "temporal_ps.py": ["C19", "C20"],
    "profile_compression.py": ["C18", "C20"], "wfslib.py": ["C14", "C20"],
}


def sh(cmd, cwd=wt, timeout=3000, e=env):
    p = subprocess.run(cmd, shell=True, cwd=cwd, env=e, stdout=subprocess.PIPE, stderr=subprocess.STDOUT, text=True, timeout=timeout)
    return p.returncode, p.stdout


base = set(json.load(open("/root/.vp/BASELINE.json"))["stable_pass"])
for k in ks:
    pf = "%s/patch%s.diff" % (out, k)
    if not os.path.exists(pf):
        print(hid, k, "no patch"); continue
    sh("git checkout -- . && git clean -fdq")
    _, o0 = sh("/venv/bin/python %s/equiv%s.py" % (out, k))
    rca, _ = sh("git apply " + pf)
    _, o1 = sh("/venv/bin/python %s/equiv%s.py" % (out, k))
    d0 = re.findall(r"DIGEST (\S+)", o0); d1 = re.findall(r"DIGEST (\S+)", o1)
    junit = "%s/junit%s.xml" % (out, k)
    sh("/venv/bin/python -m pytest -q -p no:cacheprovider --timeout=900 --continue-on-collection-errors --junitxml=%s" % junit)
    passed = set()
    for tc in ET.parse(junit).getroot().iter("testcase"):
        if not list(tc):
            passed.add("%s::%s" % (tc.get("classname"), tc.get("name")))
    sh("git checkout -- . && git clean -fdq")
    missing = sorted(base - passed)
    ok = rca == 0 and d0 and d0 == d1 and not missing
    print(hid, k, "confirmed harmless" if ok else "NOT CONFIRMED", d0[:1], d1[:1], missing, flush=True)
    if not ok:
        continue
    name = "%s-%s" % (hid, k)
    d = "/verif/harmless/" + name
    os.makedirs(d, exist_ok=True)
    shutil.copy(pf, d + "/patch.diff"); shutil.copy("%s/equiv%s.py" % (out, k), d + "/equiv.py")
    notes = open("%s/notes%s.txt" % (out, k)).read().strip() if os.path.exists("%s/notes%s.txt" % (out, k)) else ""
    files = sorted(set(re.findall(r"^\+\+\+ b/(\S+)", open(pf).read(), re.M)))
    props = sorted({p for f in files for p in PROPS.get(os.path.basename(f), ["C20"])})
    res = {}
    assert subprocess.run("git -C /repo status --porcelain", shell=True, capture_output=True, text=True).stdout.strip() == "", "repo dirty"
    subprocess.run("git -C /repo apply %s/patch.diff" % d, shell=True, check=True)
    try:
        for pid in props:
            p = subprocess.run("cd /verif && ./check %s --tier quick" % pid, shell=True, capture_output=True, text=True)
            line = [l for l in p.stdout.splitlines() if l.startswith(pid + " ")]
            viol = [l for l in p.stdout.splitlines() if l.startswith("VIOLATION")]
            res[pid] = {"exit": p.returncode, "summary": line[-1] if line else "", "violation": viol[:1]}
            print("   ", name, pid, "exit", p.returncode, (viol[0][:110] if viol else ""), flush=True)
    finally:
        subprocess.run("git -C /repo checkout -- .", shell=True, check=True)
    json.dump({"what": notes, "files": files, "confirmed": {"digest_before": d0[0], "digest_after": d1[0], "baseline_tests_missing": missing},
               "checks": res, "quiet": all(r["exit"] == 0 for r in res.values())}, open(d + "/meta.json", "w"), indent=1)
