#!/usr/bin/env python3
"""Apply a seeded change to /repo, run the check(s) of its property, undo it, record what fired.
usage: run_seed.py C09-1 [tier] [extra property ids...]"""
import json, os, subprocess, sys, time
seed = sys.argv[1]
tier = sys.argv[2] if len(sys.argv) > 2 else "quick"
d = "/verif/seeded/" + seed
pids = [seed.split("-")[0]] + sys.argv[3:]
assert subprocess.run("git -C /repo status --porcelain", shell=True, capture_output=True, text=True).stdout.strip() == "", "repo dirty"
subprocess.run("git -C /repo apply %s/patch.diff" % d, shell=True, check=True)
res = {}
try:
    for pid in pids:
        t0 = time.time()
        p = subprocess.run("cd /verif && ./check %s --tier %s" % (pid, tier), shell=True, capture_output=True, text=True)
        lines = [l for l in p.stdout.splitlines() if l.startswith(("VIOLATION", "KNOWN-FINDING", pid))]
        res[pid] = {"exit": p.returncode, "lines": lines, "wall_s": round(time.time() - t0)}
        print(seed, pid, "exit", p.returncode, "|", " || ".join(l[:150] for l in lines if not l.startswith("KNOWN")))
finally:
    subprocess.run("git -C /repo checkout -- .", shell=True, check=True)
meta = json.load(open(d + "/meta.json"))
det = meta.get("detected_by") or {}
det[tier] = res
meta["detected_by"] = det
json.dump(meta, open(d + "/meta.json", "w"), indent=1)
