#!/usr/bin/env python3
import json, os, shutil, sys
V = "/verif/seeded"
for pid in sorted(os.listdir("/tmp/mut/out")):
    for k in ("1", "2"):
        vf = "/tmp/mut/out/%s/verify%s.json" % (pid, k)
        if not os.path.exists(vf):
            continue
        v = json.load(open(vf))
        if not v.get("ok"):
            print("skip", pid, k); continue
        d = os.path.join(V, "%s-%s" % (pid, k))
        os.makedirs(d, exist_ok=True)
        shutil.copy("/tmp/mut/out/%s/patch%s.diff" % (pid, k), os.path.join(d, "patch.diff"))
        shutil.copy("/tmp/mut/out/%s/demo%s.py" % (pid, k), os.path.join(d, "demo.py"))
        notes = open("/tmp/mut/out/%s/notes%s.txt" % (pid, k)).read()
        meta = {"property": pid, "breaks": notes.strip(), "needs_to_manifest": "see 'breaks' (written by the seeding sub-agent)",
                "confirmed": {"demo_on_untouched_tree_exit": v["demo_clean_rc"], "demo_with_patch_exit": v["demo_patched_rc"],
                              "baseline_tests_missing_with_patch": v["baseline_missing"], "pytest_tail": v["pytest_tail"],
                              "how": "tools/verify_seed.py in the scratch worktree /tmp/mut/%s (git apply; demo; full pytest via junit vs BASELINE stable_pass; git checkout)" % pid},
                "detected_by": None}
        mp = os.path.join(d, "meta.json")
        if os.path.exists(mp):
            old = json.load(open(mp)); meta["detected_by"] = old.get("detected_by")
        json.dump(meta, open(mp, "w"), indent=1)
        print("stored", pid, k)
